(* UnstructProofs.v -- the generated unstructure template: exact output, and the
   round trip through the generated structure templates (C09). *)
From V.Model Require Import Base Templates.
From V.Proofs Require Import TemplatesProofs.
From Coq Require Import Lia Permutation.

Section UP.
Variable V : Type.
Variable K : N -> V -> result V.
Variable veq : V -> V -> bool.
Variable opt : topts.
Variable ov : N -> fov.
Variable hs_u : N -> V -> result V.        (* the per-attribute unstructure handlers *)
Variable hu : N -> V -> V.                 (* what they return on the instance's attribute values (see H_hu) *)
Notation field := (field V).
Notation key_of := (key_of V opt ov).
Notation included := (included V opt ov).
Notation omit_default := (omit_default V opt ov).

Variable fs : list field.
Variable i : inst V.
Variable val : field -> V.                 (* the attribute values of the instance *)
Let inc := filter included fs.
Hypothesis H_vals : forall f, In f inc -> assoc i (f_name f) = Some (val f).
Hypothesis H_keys : NoDup (map key_of inc).
Hypothesis H_hu : forall f, In f inc -> hs_u (f_name f) (val f) = Ok (hu (f_name f) (val f)).

Definition dfl (f : field) : option V := f_dflt f.
Definition is_default (f : field) : bool := match f_dflt f with Some d => veq (val f) d | None => false end.
Definition entry (f : field) : N * V := (key_of f, hu (f_name f) (val f)).
Definition lit_of (l : list field) : list (N * V) := flat_map (fun f => if omit_default f then [] else [entry f]) l.
Definition cnd_of (l : list field) : list (N * V) :=
  flat_map (fun f => if omit_default f && negb (is_default f) then [entry f] else []) l.
Definition emitted (f : field) : bool := negb (omit_default f) || negb (is_default f).

Lemma un_literal_eq l : (forall f, In f l -> In f inc) -> un_literal V opt ov hs_u l i = Ok (lit_of l).
Proof.
  induction l as [|f l IH]; intros Hl; cbn [un_literal lit_of flat_map]; [reflexivity|].
  fold (lit_of l). destruct (omit_default f).
  - apply IH. intros g Hg. apply Hl. now right.
  - unfold getattr. rewrite (H_vals f) by (apply Hl; now left). cbn [bind].
    rewrite (H_hu f) by (apply Hl; now left). cbn [bind].
    rewrite IH by (intros g Hg; apply Hl; now right). reflexivity.
Qed.

Lemma dict_set_fresh {B} (l : list (N * B)) k v : ~ In k (map fst l) -> dict_set l k v = l ++ [(k, v)].
Proof.
  induction l as [|[k' v'] l IH]; cbn; intros H; [reflexivity|].
  destruct (N.eqb k' k) eqn:E; [apply N.eqb_eq in E; subst; exfalso; apply H; now left|].
  rewrite IH; [reflexivity|]. intros X. apply H. now right.
Qed.

Lemma dict_of_nodup (l : list (N * V)) : forall acc, NoDup (map fst acc ++ map fst l) -> dict_of V l acc = acc ++ l.
Proof.
  induction l as [|[k v] l IH]; intros acc H; cbn [dict_of]; [now rewrite app_nil_r|].
  assert (Hk : ~ In k (map fst acc)).
  { intros X. apply NoDup_remove_2 in H. apply H. apply in_or_app. now left. }
  rewrite (dict_set_fresh acc k v Hk), IH.
  - now rewrite <- app_assoc.
  - rewrite map_app, <- app_assoc. exact H.
Qed.

Lemma keys_lit_in l k : In k (map fst (lit_of l)) -> exists f, In f l /\ key_of f = k /\ omit_default f = false.
Proof.
  induction l as [|f l IH]; cbn; [intros []|]. rewrite map_app, in_app_iff. intros [H|H].
  - destruct (omit_default f) eqn:E; cbn in H; [contradiction|]. destruct H as [H|[]]. exists f. split; [now left|]. auto.
  - destruct (IH H) as (g & Hg & E1 & E2). exists g. split; [now right | auto].
Qed.

Lemma keys_cnd_in l k : In k (map fst (cnd_of l)) ->
  exists f, In f l /\ key_of f = k /\ omit_default f = true /\ is_default f = false.
Proof.
  induction l as [|f l IH]; cbn; [intros []|]. rewrite map_app, in_app_iff. intros [H|H].
  - destruct (omit_default f) eqn:E; cbn in H; [|contradiction].
    destruct (is_default f) eqn:Ei; cbn in H; [contradiction|]. destruct H as [H|[]]. exists f. split; [now left|]. auto.
  - destruct (IH H) as (g & Hg & X). exists g. split; [now right | exact X].
Qed.

Lemma in_lit l f : In f l -> omit_default f = false -> In (key_of f) (map fst (lit_of l)).
Proof.
  induction l as [|g l IH]; [intros []|]. intros Hf Eo. cbn. rewrite map_app, in_app_iff.
  destruct Hf as [Hf|Hf]; [subst g; left | right; auto]. rewrite Eo. cbn. now left.
Qed.

Lemma in_cnd l f : In f l -> omit_default f = true -> is_default f = false -> In (key_of f) (map fst (cnd_of l)).
Proof.
  induction l as [|g l IH]; [intros []|]. intros Hf Eo Ei. cbn. rewrite map_app, in_app_iff.
  destruct Hf as [Hf|Hf]; [subst g; left | right; auto]. rewrite Eo, Ei. cbn. now left.
Qed.

Lemma nodup_map_in_eq {A B} (g : A -> B) l x y : NoDup (map g l) -> In x l -> In y l -> g x = g y -> x = y.
Proof.
  induction l as [|a l IH]; cbn; [intros _ []|]. intros H Hx Hy E. inversion H as [|? ? Hn Hr]; subst.
  destruct Hx as [Hx|Hx], Hy as [Hy|Hy]; subst; auto.
  - exfalso. apply Hn. rewrite E. now apply in_map.
  - exfalso. apply Hn. rewrite <- E. now apply in_map.
Qed.

Lemma nodup_lit l : NoDup (map key_of l) -> NoDup (map fst (lit_of l)).
Proof.
  induction l as [|f l IH]; cbn; intros H; [constructor|]. inversion H as [|? ? Hn Hr]; subst.
  rewrite map_app. destruct (omit_default f); cbn; [auto|]. constructor; [|auto].
  intros X. apply keys_lit_in in X. destruct X as (g & Hg & E & _). apply Hn. rewrite <- E. now apply in_map.
Qed.

Lemma un_cond_eq l : forall res,
  (forall f, In f l -> In f inc) -> NoDup (map key_of l) ->
  (forall f, In f l -> omit_default f = true -> ~ In (key_of f) (map fst res)) ->
  un_cond V veq opt ov hs_u l i res = Ok (res ++ cnd_of l).
Proof.
  induction l as [|f l IH]; intros res Hl Hnd Hfresh; cbn [un_cond cnd_of flat_map]; [now rewrite app_nil_r|].
  fold (cnd_of l). inversion Hnd as [|? ? Hn Hr]; subst.
  assert (Hrest : forall g, In g l -> In g inc) by (intros g Hg; apply Hl; now right).
  destruct (omit_default f) eqn:Eo; cbn [andb].
  - unfold getattr. rewrite (H_vals f) by (apply Hl; now left). cbn [bind].
    unfold is_default. destruct (f_dflt f) as [d|] eqn:Ed.
    + destruct (veq (val f) d); cbn [negb].
      * apply IH; auto. intros g Hg. apply Hfresh. now right.
      * rewrite (H_hu f) by (apply Hl; now left). cbn [bind]. rewrite (dict_set_fresh res _ _ (Hfresh f (or_introl eq_refl) Eo)).
        rewrite IH; auto; [now rewrite <- app_assoc|].
        intros g Hg Hog. rewrite map_app, in_app_iff. intros [X|[X|[]]].
        -- revert X. apply Hfresh; [now right | assumption].
        -- apply Hn. cbn in X. rewrite X. now apply in_map.
    + unfold Templates.omit_default in Eo. rewrite Ed in Eo. discriminate.
  - apply IH; auto. intros g Hg. apply Hfresh. now right.
Qed.

Theorem un_gen_exact : un_gen V veq opt ov hs_u fs i = Ok (lit_of inc ++ cnd_of inc).
Proof.
  unfold un_gen. fold inc. rewrite un_literal_eq by auto. cbn [bind].
  rewrite dict_of_nodup by (cbn; now apply nodup_lit).
  cbn [app]. apply un_cond_eq; auto.
  intros f Hf Hof X. apply keys_lit_in in X. destruct X as (g & Hg & E & Eo).
  assert (g = f) by (eapply nodup_map_in_eq; eauto). subst g. congruence.
Qed.

(* the configured key set: exactly the final keys of the handled attributes that are not
   default-valued-with-omit_if_default *)
Theorem un_gen_keys d : un_gen V veq opt ov hs_u fs i = Ok d ->
  forall k, In k (map fst d) <-> exists f, In f inc /\ key_of f = k /\ emitted f = true.
Proof.
  rewrite un_gen_exact. intros E. inversion E; subst d. clear E. intros k. rewrite map_app, in_app_iff. split.
  - intros [H|H].
    + apply keys_lit_in in H. destruct H as (f & Hf & E & Eo). exists f. unfold emitted. rewrite Eo. auto.
    + apply keys_cnd_in in H. destruct H as (f & Hf & E & Eo & Ei). exists f. unfold emitted. rewrite Ei, orb_true_r. auto.
  - intros (f & Hf & E & Em). subst k. unfold emitted in Em.
    destruct (omit_default f) eqn:Eo; cbn in Em.
    + right. apply in_cnd; auto. now apply negb_true_iff.
    + left. now apply in_lit.
Qed.


(* ================= round trip through the generated structure hook ================= *)
Variable hs_s : N -> V -> result V.
Hypothesis H_inverse : forall f, In f inc -> hs_s (f_name f) (hu (f_name f) (val f)) = Ok (val f).
Hypothesis H_alias : NoDup (map (@f_alias V) fs).
Hypothesis H_names : NoDup (map (@f_name V) fs).
Hypothesis H_noconv : forall f, In f fs -> f_conv f = false.
Hypothesis H_veq : forall a b, veq a b = true -> a = b.
Hypothesis H_omit : forall f, In f fs -> f_init f = true -> included f = false -> f_dflt f <> None.
Hypothesis H_forbid : t_forbid opt = false.

Let D := lit_of inc ++ cnd_of inc.

Lemma nodup_cnd l : NoDup (map key_of l) -> NoDup (map fst (cnd_of l)).
Proof.
  induction l as [|f l IH]; cbn; intros H; [constructor|]. inversion H as [|? ? Hn Hr]; subst.
  rewrite map_app. destruct (omit_default f && negb (is_default f)); cbn; [|auto]. constructor; [|auto].
  intros X. apply keys_cnd_in in X. destruct X as (g & Hg & E & _). apply Hn. rewrite <- E. now apply in_map.
Qed.

Lemma nodup_app {A} (a b : list A) : NoDup a -> NoDup b -> (forall x, In x a -> ~ In x b) -> NoDup (a ++ b).
Proof.
  induction a as [|x a IH]; cbn; intros Ha Hb H; [exact Hb|]. inversion Ha as [|? ? Hn Hr]; subst.
  constructor.
  - intros X. apply in_app_or in X. destruct X as [X|X]; [contradiction|]. apply (H x); [now left | exact X].
  - apply IH; auto; intros y Hy; apply H; now right.
Qed.

Lemma nodup_D : NoDup (map fst D).
Proof.
  unfold D. rewrite map_app. apply nodup_app; [now apply nodup_lit | now apply nodup_cnd |].
  intros k H1 H2. apply keys_lit_in in H1. apply keys_cnd_in in H2.
  destruct H1 as (f & Hf & E1 & Eo1). destruct H2 as (g & Hg & E2 & Eo2 & _).
  assert (f = g) by (apply (nodup_map_in_eq key_of inc f g H_keys Hf Hg); congruence). subst g. congruence.
Qed.

Lemma assoc_in_nodup {B} (l : list (N * B)) k v : NoDup (map fst l) -> In (k, v) l -> assoc l k = Some v.
Proof.
  induction l as [|[k' v'] l IH]; cbn; [intros _ []|]. intros H Hin. inversion H as [|? ? Hn Hr]; subst.
  destruct Hin as [E|Hin].
  - inversion E; subst. now rewrite N.eqb_refl.
  - destruct (N.eqb k' k) eqn:E; [|auto]. apply N.eqb_eq in E. subst. exfalso. apply Hn.
    change k with (fst (k, v)). now apply in_map.
Qed.

Lemma in_D_emitted f : In f inc -> emitted f = true -> In (entry f) D.
Proof.
  intros Hf Em. unfold D, emitted in *. apply in_or_app.
  destruct (omit_default f) eqn:Eo; cbn in Em.
  - right. unfold cnd_of. apply in_flat_map. exists f. split; [exact Hf|]. rewrite Eo, Em. now left.
  - left. unfold lit_of. apply in_flat_map. exists f. split; [exact Hf|]. rewrite Eo. now left.
Qed.

Lemma assoc_D f : In f inc ->
  assoc D (key_of f) = if emitted f then Some (hu (f_name f) (val f)) else None.
Proof.
  intros Hf. destruct (emitted f) eqn:Em.
  - apply assoc_in_nodup; [apply nodup_D | now apply in_D_emitted].
  - apply assoc_none_notin. intros X. unfold D in X. rewrite map_app in X. apply in_app_or in X. destruct X as [X|X].
    + apply keys_lit_in in X. destruct X as (g & Hg & E & Eo).
      assert (g = f) by (apply (nodup_map_in_eq key_of inc g f H_keys Hg Hf); exact E). subst g. unfold emitted in Em. rewrite Eo in Em. discriminate.
    + apply keys_cnd_in in X. destruct X as (g & Hg & E & Eo & Ei).
      assert (g = f) by (apply (nodup_map_in_eq key_of inc g f H_keys Hg Hf); exact E). subst g. unfold emitted in Em. rewrite Ei, orb_true_r in Em. discriminate.
Qed.

Lemma mem_keys_D f : In f inc -> mem_N (key_of f) (keys D) = emitted f.
Proof.
  intros Hf. pose proof (assoc_D f Hf) as H. unfold mem_N, keys.
  destruct (emitted f).
  - apply existsb_exists. exists (key_of f). split; [|apply N.eqb_refl].
    clear -H. induction D as [|[k v] l IH]; cbn in *; [discriminate|].
    destruct (N.eqb k (key_of f)) eqn:E; [apply N.eqb_eq in E; now left | right; auto].
  - apply Bool.not_true_is_false. intros X. apply existsb_exists in X. destruct X as (k & Hk & E). apply N.eqb_eq in E. subst k.
    clear -H Hk. induction D as [|[k v] l IH]; cbn in *; [contradiction|].
    destruct (N.eqb k (key_of f)) eqn:E; [discriminate|]. destruct Hk as [Hk|Hk]; [subst; rewrite N.eqb_refl in E; discriminate | auto].
Qed.

Lemma required_emitted f : f_dflt f = None -> emitted f = true.
Proof. intros H. unfold emitted, Templates.omit_default. now rewrite H. Qed.

Notation good' := (good V opt ov hs_s (dict_obj D)).
Notation contrib' := (contrib V opt ov hs_s (dict_obj D)).

Lemma good_D f : In f inc -> good' f = true.
Proof.
  intros Hf. unfold good, fetch. cbn [o_in o_get dict_obj]. rewrite (mem_keys_D f Hf), (assoc_D f Hf).
  destruct (f_dflt f) eqn:Ed.
  - destruct (emitted f); [|reflexivity]. cbn [bind]. now rewrite (H_inverse f Hf).
  - rewrite (required_emitted f Ed). cbn [bind]. now rewrite (H_inverse f Hf).
Qed.

Lemma contrib_D f : In f inc -> contrib' f = if emitted f then [(f_alias f, val f)] else [].
Proof.
  intros Hf. unfold contrib, fetch. cbn [o_in o_get dict_obj]. rewrite (mem_keys_D f Hf), (assoc_D f Hf).
  destruct (f_dflt f) eqn:Ed.
  - destruct (emitted f); [|reflexivity]. cbn [bind]. now rewrite (H_inverse f Hf).
  - rewrite (required_emitted f Ed). cbn [bind]. now rewrite (H_inverse f Hf).
Qed.

Lemma not_emitted_default f : emitted f = false -> f_dflt f = Some (val f).
Proof.
  unfold emitted, is_default, Templates.omit_default. destruct (f_dflt f) as [d|]; [|discriminate].
  destruct (match ov_oid (ov (f_name f)) with Some b => b | None => t_omit_if_default opt end); cbn; [|discriminate].
  destruct (veq (val f) d) eqn:E; cbn; [|discriminate]. intros _. now rewrite (H_veq _ _ E).
Qed.


Lemma fill_assoc (C : list (N * V)) : forall l,
  (forall f, In f l -> f_conv f = false) -> NoDup (map (@f_name V) l) ->
  (forall f, In f l -> f_init f = true -> assoc C (f_alias f) <> None \/ f_dflt f <> None) ->
  exists i0, fill V K l C = Ok i0 /\
    (forall f, In f l -> assoc i0 (f_name f) =
       if f_init f then match assoc C (f_alias f) with Some v => Some v | None => f_dflt f end else f_dflt f) /\
    (forall n, ~ In n (map (@f_name V) l) -> assoc i0 n = None).
Proof.
  induction l as [|f l IH]; intros Hc Hnd Hb.
  - exists []. cbn. repeat split; auto. intros f [].
  - inversion Hnd as [|? ? Hn Hr]; subst.
    destruct (IH (fun g Hg => Hc g (or_intror Hg)) Hr (fun g Hg => Hb g (or_intror Hg))) as (i0 & E0 & A0 & B0).
    assert (Hcf : f_conv f = false) by (apply Hc; now left).
    cbn [fill]. unfold apply_conv. rewrite Hcf.
    assert (Hstep : forall w, exists i1, (do w0 <- Ok w; do rest <- fill V K l C; Ok ((f_name f, w0) :: rest)) = Ok i1 /\
              i1 = (f_name f, w) :: i0).
    { intros w. exists ((f_name f, w) :: i0). cbn [bind]. rewrite E0. cbn. auto. }
    assert (Hcons : forall w g, In g (f :: l) ->
              forall X, X = (if f_init g then match assoc C (f_alias g) with Some v => Some v | None => f_dflt g end else f_dflt g) ->
              (g = f -> X = Some w) -> assoc ((f_name f, w) :: i0) (f_name g) = X).
    { intros w g Hg X EX Hfw. cbn [assoc]. destruct (N.eqb (f_name f) (f_name g)) eqn:E.
      - apply N.eqb_eq in E. destruct Hg as [Hg|Hg]; [subst g; symmetry; now apply Hfw|].
        exfalso. apply Hn. rewrite E. now apply in_map.
      - destruct Hg as [Hg|Hg]; [subst g; rewrite N.eqb_refl in E; discriminate|]. rewrite EX. now apply A0. }
    assert (Hout : forall w n, ~ In n (map (@f_name V) (f :: l)) -> assoc ((f_name f, w) :: i0) n = None).
    { intros w n Hnn. cbn [assoc]. destruct (N.eqb (f_name f) n) eqn:E.
      - apply N.eqb_eq in E. exfalso. apply Hnn. now left.
      - apply B0. intros X. apply Hnn. now right. }
    destruct (f_init f) eqn:Ei.
    + destruct (assoc C (f_alias f)) as [v|] eqn:Ea.
      * exists ((f_name f, v) :: i0). cbn [bind]. rewrite E0. cbn [bind]. split; [reflexivity|]. split; [|apply Hout].
        intros g Hg. apply (Hcons v g Hg); [reflexivity|]. intros ->. now rewrite Ei, Ea.
      * destruct (f_dflt f) as [d|] eqn:Ed.
        -- exists ((f_name f, d) :: i0). cbn [bind]. rewrite E0. cbn [bind]. split; [reflexivity|]. split; [|apply Hout].
           intros g Hg. apply (Hcons d g Hg); [reflexivity|]. intros ->. now rewrite Ei, Ea, Ed.
        -- exfalso. destruct (Hb f (or_introl eq_refl) Ei) as [X|X]; [now apply X | now apply X].
    + destruct (f_dflt f) as [d|] eqn:Ed.
      * exists ((f_name f, d) :: i0). cbn [bind]. rewrite E0. cbn [bind]. split; [reflexivity|]. split; [|apply Hout].
        intros g Hg. apply (Hcons d g Hg); [reflexivity|]. intros ->. now rewrite Ei, Ed.
      * exists i0. split; [exact E0|]. split.
        -- intros g [Hg|Hg]; [subst g; rewrite Ei, Ed; apply B0; exact Hn | now apply A0].
        -- intros n Hnn. apply B0. intros X. apply Hnn. now right.
Qed.

Definition cc (f : field) : list (N * V) := if emitted f then [(f_alias f, val f)] else [].

Lemma assoc_cc_in l f : NoDup (map (@f_alias V) l) -> In f l ->
  assoc (flat_map cc l) (f_alias f) = if emitted f then Some (val f) else None.
Proof.
  induction l as [|g l IH]; [intros _ []|]. intros Hnd Hf. inversion Hnd as [|? ? Hn Hr]; subst.
  cbn [flat_map]. rewrite assoc_app2. destruct Hf as [Hf|Hf].
  - subst g. unfold cc at 1. destruct (emitted f); cbn [assoc]; [now rewrite N.eqb_refl|].
    apply assoc_none_notin. intros X. apply Hn.
    clear -X. induction l as [|h l IH]; cbn in X; [contradiction|]. rewrite map_app in X. apply in_app_or in X.
    destruct X as [X|X]; [left | right; auto]. unfold cc in X. destruct (emitted h); cbn in X; [|contradiction]. destruct X as [X|[]]. auto.
  - unfold cc at 1. destruct (emitted g); cbn [assoc]; [|now apply IH].
    destruct (N.eqb (f_alias g) (f_alias f)) eqn:E; [|now apply IH].
    apply N.eqb_eq in E. exfalso. apply Hn. rewrite E. now apply in_map.
Qed.

Lemma assoc_cc_notin l a : ~ In a (map (@f_alias V) l) -> assoc (flat_map cc l) a = None.
Proof.
  intros H. apply assoc_none_notin. intros X. apply H.
  clear -X. induction l as [|h l IH]; cbn in X; [contradiction|]. rewrite map_app in X. apply in_app_or in X.
  destruct X as [X|X]; [left | right; auto]. unfold cc in X. destruct (emitted h); cbn in X; [|contradiction]. destruct X as [X|[]]. auto.
Qed.

Lemma flat_map_ext_in {A B} (g h : A -> list B) l : (forall x, In x l -> g x = h x) -> flat_map g l = flat_map h l.
Proof. induction l as [|x l IH]; cbn; intros H; [reflexivity|]. rewrite H by (now left). rewrite IH; auto; intros y Hy; apply H; now right. Qed.

Notation II := (inc_init V opt ov fs).
Notation PI := (inc_pi V opt ov fs).

Lemma in_II f : In f II <-> In f inc /\ f_init f = true.
Proof. unfold inc_init. fold inc. rewrite filter_In. tauto. Qed.
Lemma in_PI f : In f PI <-> In f inc /\ f_init f = false.
Proof. unfold inc_pi. fold inc. rewrite filter_In. rewrite negb_true_iff. tauto. Qed.
Lemma in_inc f : In f inc -> In f fs.
Proof. unfold inc. intros H. apply filter_In in H. tauto. Qed.

(* C09: the structure hook generated with the same customisation restores every handled attribute *)
Theorem roundtrip_spec :
  exists i', spec_struct V K opt ov hs_s fs (dict_obj D) = Some i' /\
             forall f, In f inc -> assoc i' (f_name f) = Some (val f).
Proof.
  unfold spec_struct, forbid_ok. rewrite H_forbid. rewrite andb_true_r.
  assert (G1 : forallb good' II = true).
  { apply forallb_forall. intros f Hf. apply good_D. now apply in_II in Hf. }
  assert (G2 : forallb good' PI = true).
  { apply forallb_forall. intros f Hf. apply good_D. now apply in_PI in Hf. }
  rewrite G1, G2.
  assert (C1 : flat_map contrib' II = flat_map cc II).
  { apply flat_map_ext_in. intros f Hf. apply contrib_D. now apply in_II in Hf. }
  rewrite C1.
  assert (NDII : NoDup (map (@f_alias V) II)).
  { unfold inc_init. do 2 apply nodup_map_filter. exact H_alias. }
  (* __init__ *)
  unfold Templates.instantiate.
  assert (Hbp : bind_pos V (pos_params V fs) [] = Ok []) by (destruct (pos_params V fs); reflexivity).
  rewrite Hbp. cbn [bind].
  rewrite bind_kw_ok; cycle 1.
  { intros k Hk. apply in_map_iff in Hk. destruct Hk as ([a v] & E & Hin). cbn in E. subst a.
    apply in_flat_map in Hin. destruct Hin as (f & Hf & Hin). unfold cc in Hin. destruct (emitted f); [|contradiction].
    destruct Hin as [E|[]]. inversion E; subst. apply in_II in Hf. destruct Hf as [Hf Hi].
    apply in_alias_params; [now apply in_inc | exact Hi]. }
  { cbn [map app]. clear -NDII. induction II as [|f l IH]; cbn; [constructor|]. inversion NDII as [|? ? Hn Hr]; subst.
    rewrite map_app. unfold cc at 1. destruct (emitted f); cbn; [|auto]. constructor; [|auto].
    intros X. apply Hn. clear -X. induction l as [|h l IH]; cbn in X; [contradiction|]. rewrite map_app in X. apply in_app_or in X.
    destruct X as [X|X]; [left | right; auto]. unfold cc in X. destruct (emitted h); cbn in X; [|contradiction]. destruct X as [X|[]]. auto. }
  cbn [bind app].
  assert (Hassoc : forall f, In f fs -> f_init f = true ->
            assoc (flat_map cc II) (f_alias f) = if included f && emitted f then Some (val f) else None).
  { intros f Hf Hi. destruct (included f) eqn:Einc; cbn [andb].
    - apply assoc_cc_in; [exact NDII|]. apply in_II. split; [|exact Hi]. unfold inc. apply filter_In. tauto.
    - apply assoc_cc_notin. intros X. apply in_map_iff in X. destruct X as (g & E & Hg). apply in_II in Hg. destruct Hg as [Hg Hgi].
      assert (g = f) by (apply (nodup_map_in_eq (@f_alias V) fs g f H_alias (in_inc g Hg) Hf); exact E). subst g.
      unfold inc in Hg. apply filter_In in Hg. destruct Hg as [_ Hg]. congruence. }
  destruct (fill_assoc (flat_map cc II) fs H_noconv H_names) as (i0 & E0 & A0 & B0).
  { intros f Hf Hi. rewrite (Hassoc f Hf Hi). destruct (included f) eqn:Einc; cbn [andb].
    - destruct (emitted f) eqn:Em; [left; discriminate|]. right. rewrite (not_emitted_default f Em). discriminate.
    - right. now apply H_omit. }
  rewrite E0.
  eexists. split; [reflexivity|].
  intros f Hf.
  assert (NDP : NoDup (map fst (flat_map (contrib_named V opt ov hs_s (dict_obj D)) PI))).
  { apply nodup_named. unfold inc_pi. do 2 apply nodup_map_filter. exact H_names. }
  rewrite assoc_set_all by exact NDP.
  assert (Hfs : In f fs) by (now apply in_inc).
  assert (Hincl : included f = true) by (unfold inc in Hf; apply filter_In in Hf; tauto).
  destruct (f_init f) eqn:Ei.
  - (* an __init__ attribute: not touched after instantiation *)
    rewrite assoc_none_notin.
    + rewrite (A0 f Hfs), Ei, (Hassoc f Hfs Ei), Hincl. cbn [andb].
      destruct (emitted f) eqn:Em; [reflexivity | now apply not_emitted_default].
    + intros X. apply keys_named_in in X. apply in_map_iff in X. destruct X as (g & E & Hg). apply in_PI in Hg. destruct Hg as [Hg Hgi].
      assert (g = f) by (apply (nodup_map_in_eq (@f_name V) fs g f H_names (in_inc g Hg) Hfs); exact E). subst g. congruence.
  - (* set after instantiation when present, else the default it already has *)
    assert (HfP : In f PI) by (apply in_PI; tauto).
    destruct (emitted f) eqn:Em.
    + rewrite (assoc_in_nodup _ (f_name f) (val f) NDP); [reflexivity|].
      apply in_flat_map. exists f. split; [exact HfP|]. unfold contrib_named. rewrite (contrib_D f Hf), Em. now left.
    + rewrite assoc_none_notin.
      * rewrite (A0 f Hfs), Ei. now apply not_emitted_default.
      * intros X. apply in_map_iff in X. destruct X as ([n v] & E & Hin). cbn in E. subst n.
        apply in_flat_map in Hin. destruct Hin as (g & Hg & Hin). unfold contrib_named in Hin.
        apply in_map_iff in Hin. destruct Hin as ([a w] & E & Hin). inversion E; subst.
        assert (Hgi : In g inc) by (apply in_PI in Hg; tauto).
        assert (g = f) by (apply (nodup_map_in_eq (@f_name V) fs g f H_names (in_inc g Hgi) Hfs); assumption). subst g.
        rewrite (contrib_D f Hf), Em in Hin. contradiction.
Qed.

End UP.
