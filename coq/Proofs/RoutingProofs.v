(* RoutingProofs.v -- lifting Core A to whole converters driven through the
   public API (C07, C08), and copy() as a replay of the user registrations (C18). *)
From V.Model Require Import Base Dispatch Routing.
From V.Proofs Require Import DispatchProofs.
From Coq Require Import Lia.

Section Conv.
Variable W : world.
Variable C : dcfg.
Variable S : csrc.

Hypothesis H_order : lookup_order C = [TSingle; TDirect; TFunc].
Hypothesis H_func_cd : has_eff EClearDirect (func_reg_final C) = true.
Hypothesis H_func_cc : has_eff ECacheClear (func_reg_final C) = true.
Hypothesis H_cls_cc : has_eff ECacheClear (cls_reg_each C ++ cls_reg_final C) = true.
Hypothesis H_front : insert_front C = true.
Hypothesis H_exc : pred_exc_continues C = true.

(* every ARegistry route clears both the direct table and the cache *)
Definition route_ok (r : list (rcond * raction)) : bool :=
  forallb (fun ca => match snd ca with
                     | ARegistry effs => has_eff EClearDirect effs && has_eff ECacheClear effs
                     | _ => true end) r.
Hypothesis H_route_un : route_ok (r_un S) = true.
Hypothesis H_route_st : route_ok (r_st S) = true.

Lemma run_app s a b : run W C s (a ++ b) = run W C (run W C s a) b.
Proof. unfold run. apply fold_left_app. Qed.

Definition cdisp (c : conv) (d : dir) : st := match d with DUn => c_un c | DSt => c_st c end.

Lemma urun_disp us : forall c d, cdisp (urun W C S c us) d = run W C (cdisp c d) (dops W S d us).
Proof.
  induction us as [|u us IH]; intros c d; cbn [urun fold_left dops flat_map]; [reflexivity|].
  fold (urun W C S (ustep W C S c u) us). rewrite IH. fold (dops W S d us). rewrite run_app.
  f_equal. destruct d; reflexivity.
Qed.

Definition good_uop (u : uop) : Prop :=
  match u with URegFactory _ _ _ _ (WOther _) => False | _ => True end.

Lemma route_action_ok r isu isn effs :
  route_ok r = true -> route_action r isu isn = Some (ARegistry effs) ->
  has_eff EClearDirect effs = true /\ has_eff ECacheClear effs = true.
Proof.
  induction r as [|[c a] r IH]; cbn; [discriminate|]. intros H E.
  apply andb_true_iff in H. destruct H as [Ha Hr].
  assert (Hhere : Some a = Some (ARegistry effs) ->
                  has_eff EClearDirect effs = true /\ has_eff ECacheClear effs = true).
  { intros X. inversion X; subst. cbn in Ha. now apply andb_true_iff in Ha. }
  destruct c; [destruct isu | destruct isn |]; auto.
Qed.

Lemma dop_good d u : good_uop u -> Forall (good_op) (dop W S d u).
Proof.
  intros Hg. destruct u as [d' t h|d' p h|d' p f ext w|d' t uc]; cbn [dop].
  - destruct (dir_eqb d d'); [|constructor]. unfold hook_reg_op.
    destruct (route_action _ _ _) as [[| |effs]|] eqn:E; repeat constructor.
    + eapply route_action_ok; [|exact E]. destruct d; assumption.
    + eapply route_action_ok; [|exact E]. destruct d; assumption.
  - destruct (dir_eqb d d'); repeat constructor.
  - destruct (dir_eqb d d'); repeat constructor. destruct w; cbn in *; auto.
  - destruct uc; destruct (dir_eqb d d'); repeat constructor.
Qed.

Lemma dops_good d us : Forall good_uop us -> Forall good_op (dops W S d us).
Proof.
  induction 1 as [|u us Hu Hr IH]; cbn; [constructor|].
  apply Forall_app. split; [now apply dop_good | exact IH].
Qed.

Lemma dops_filter d us : filter is_reg (dops W S d us) = dops W S d (filter is_ureg_op us).
Proof.
  induction us as [|u us IH]; cbn [dops flat_map filter]; [reflexivity|].
  rewrite filter_app. fold (dops W S d us). rewrite IH.
  destruct u as [d' t h|d' p h|d' p f ext w|d' t uc]; cbn [is_ureg_op dop].
  - cbn [dops flat_map dop]. f_equal.
    destruct (dir_eqb d d'); [|reflexivity]. unfold hook_reg_op.
    destruct (route_action _ _ _) as [[| |effs]|]; reflexivity.
  - cbn [dops flat_map dop]. f_equal. destruct (dir_eqb d d'); reflexivity.
  - cbn [dops flat_map dop]. f_equal. destruct (dir_eqb d d'); reflexivity.
  - destruct uc; destruct (dir_eqb d d'); reflexivity.
Qed.

(* a freshly constructed converter *)
Lemma entry_ops_good start asdict l : forall ix, Forall good_op (entry_ops start ix asdict l).
Proof.
  induction l as [|e l IH]; intros ix; cbn; [constructor|].
  destruct (ie_asdict_only e && negb asdict); [apply IH|].
  constructor; [|apply IH]. unfold entry_op. destruct (ie_ureg e); cbn; [exact I|].
  destruct (ie_writes e); exact I.
Qed.

Lemma cls_ops_good l : Forall good_op (map (fun c => ORegCls c (HBase c)) l).
Proof. induction l; cbn; constructor; [exact I | assumption]. Qed.

Lemma init_ok fb : Inv W C (init_st [] [] fb) /\ consistent (preds (init_st [] [] fb)).
Proof. split; [apply inv_cleared; reflexivity | intros p hd []]. Qed.

Lemma build_ok full o d :
  Inv W C (cdisp (build W C S full o) d) /\ consistent (preds (cdisp (build W C S full o) d)).
Proof.
  destruct d; cbn [cdisp build c_un c_st].
  - destruct full.
    + apply run_ok; auto using entry_ops_good.
      * apply run_ok; auto using entry_ops_good; try apply init_ok.
        apply Forall_app; auto using cls_ops_good, entry_ops_good.
      * apply run_ok; auto using entry_ops_good; try apply init_ok.
        apply Forall_app; auto using cls_ops_good, entry_ops_good.
    + apply run_ok; auto using entry_ops_good; try apply init_ok.
      apply Forall_app; auto using cls_ops_good, entry_ops_good.
  - destruct full.
    + apply run_ok; auto using entry_ops_good.
      * apply run_ok; auto using entry_ops_good; try apply init_ok.
        apply Forall_app; auto using cls_ops_good, entry_ops_good.
      * apply run_ok; auto using entry_ops_good; try apply init_ok.
        apply Forall_app; auto using cls_ops_good, entry_ops_good.
    + apply run_ok; auto using entry_ops_good; try apply init_ok.
      apply Forall_app; auto using cls_ops_good, entry_ops_good.
Qed.

Lemma conv_lookup_cdisp c d t : conv_lookup W C c d t = fst (dispatch_c W C (cdisp c d) t).
Proof. destruct d; reflexivity. Qed.

(* C08 at converter level: get-hook / structure / unstructure calls interleaved
   with registrations never change a later lookup *)
Theorem conv_cache_transparent full o us d t :
  Forall good_uop us ->
  conv_lookup W C (urun W C S (build W C S full o) us) d t =
  conv_lookup W C (urun W C S (build W C S full o) (filter is_ureg_op us)) d t.
Proof.
  intros Hg. rewrite !conv_lookup_cdisp, !urun_disp, <- dops_filter.
  destruct (build_ok full o d) as [HI Hc].
  apply cache_transparent; auto using dops_good.
Qed.

(* C07 at converter level: the lookup is the documented rule over the
   registrations made through the public API *)
Theorem conv_lookup_is_doc_choice full o us d t :
  Forall good_uop us ->
  conv_lookup W C (urun W C S (build W C S full o) us) d t =
  doc_choice W C (cdisp (build W C S full o) d) (filter is_reg (dops W S d us)) t.
Proof.
  intros Hg. rewrite conv_lookup_cdisp, urun_disp.
  destruct (build_ok full o d) as [HI Hc].
  apply lookup_is_doc_choice; auto using dops_good.
Qed.

(* ---- C18: copy() ---- *)
Hypothesis H_copy_suffix : copy_drops_suffix C = true.
Hypothesis H_copy_single : copy_copies_single C = true.
Hypothesis H_copy_cd : has_eff EClearDirect (copy_final C) = true.
Hypothesis H_copy_cc : has_eff ECacheClear (copy_final C) = true.

(* no register_*_hook route goes through a side registry *)
Definition route_plain (r : list (rcond * raction)) : bool :=
  forallb (fun ca => match snd ca with ARegistry _ => false | _ => true end) r.
Hypothesis H_plain_un : route_plain (r_un S) = true.
Hypothesis H_plain_st : route_plain (r_st S) = true.
Hypothesis H_no_ureg_copy : copy_base_ureg S = false /\ copy_full_ureg S = false.
(* the first entry a converter is born with is registered under every strategy *)
Definition first_always (l : list ientry) : bool :=
  match l with e :: _ => negb (ie_asdict_only e) | [] => false end.
Hypothesis H_first_un : first_always (base_un S) = true.
Hypothesis H_first_st : first_always (base_st S) = true.

Definition no_ureg_op (o : op) : bool := match o with ORegUnion _ _ _ => false | _ => true end.

Lemma route_action_plain r isu isn a :
  route_plain r = true -> route_action r isu isn = Some a -> match a with ARegistry _ => False | _ => True end.
Proof.
  induction r as [|[c a'] r IH]; cbn [route_action]; [discriminate|]. intros H E.
  cbn in H. apply andb_true_iff in H. destruct H as [Ha Hr].
  assert (Hhere : Some a' = Some a -> match a with ARegistry _ => False | _ => True end).
  { intros X. inversion X; subst. destruct a; auto. discriminate Ha. }
  destruct c.
  - destruct isu; [exact (Hhere E) | exact (IH Hr E)].
  - destruct isn; [exact (Hhere E) | exact (IH Hr E)].
  - exact (Hhere E).
Qed.

Lemma dops_no_ureg d us : forallb no_ureg_op (dops W S d us) = true.
Proof.
  induction us as [|u us IH]; [reflexivity|]. cbn [dops flat_map]. rewrite forallb_app. fold (dops W S d us). rewrite IH, andb_true_r.
  destruct u as [d' t h|d' p h|d' p f ext w|d' t uc]; cbn [dop].
  - destruct (dir_eqb d d'); [|reflexivity]. unfold hook_reg_op.
    destruct (route_action _ _ _) as [[| |effs]|] eqn:E; try reflexivity.
    exfalso. eapply (route_action_plain _ _ _ _ _ E). Unshelve. destruct d; assumption.
  - destruct (dir_eqb d d'); reflexivity.
  - destruct (dir_eqb d d'); reflexivity.
  - destruct uc; destruct (dir_eqb d d'); reflexivity.
Qed.

Lemma forallb_filter {A} (f g : A -> bool) l : forallb f l = true -> forallb f (filter g l) = true.
Proof.
  induction l as [|x l IH]; cbn; [auto|]. intros H. apply andb_true_iff in H. destruct H as [Hx Hl].
  destruct (g x); cbn; rewrite ?Hx; auto.
Qed.

(* facts about a freshly built dispatcher *)
Lemma entry_ops_reg start asdict l : forall ix, forallb is_reg (entry_ops start ix asdict l) = true.
Proof.
  induction l as [|e l IH]; intros ix; cbn; [reflexivity|].
  destruct (ie_asdict_only e && negb asdict); [apply IH|]. cbn. rewrite IH, andb_true_r.
  unfold entry_op. destruct (ie_ureg e); reflexivity.
Qed.
Lemma entry_ops_cls start asdict l : forall ix, cls_regs (entry_ops start ix asdict l) = [].
Proof.
  induction l as [|e l IH]; intros ix; cbn; [reflexivity|].
  destruct (ie_asdict_only e && negb asdict); [apply IH|]. cbn. rewrite IH. unfold entry_op. destruct (ie_ureg e); reflexivity.
Qed.
Lemma entry_ops_union start asdict l : forall ix, union_regs (entry_ops start ix asdict l) = [].
Proof.
  induction l as [|e l IH]; intros ix; cbn; [reflexivity|].
  destruct (ie_asdict_only e && negb asdict); [apply IH|]. cbn. rewrite IH. unfold entry_op. destruct (ie_ureg e); reflexivity.
Qed.
Lemma cops_reg l : forallb is_reg (map (fun c => ORegCls c (HBase c)) l) = true.
Proof. induction l; cbn; auto. Qed.
Lemma cops_union l : union_regs (map (fun c => ORegCls c (HBase c)) l) = [].
Proof. induction l as [|c l IH]; cbn; [reflexivity|]. rewrite IH. reflexivity. Qed.
Lemma cops_func l : func_regs (map (fun c => ORegCls c (HBase c)) l) = [].
Proof. induction l as [|c l IH]; cbn; [reflexivity|]. rewrite IH. reflexivity. Qed.

Lemma cls_regs_app a b : cls_regs (a ++ b) = cls_regs b ++ cls_regs a.
Proof. induction a as [|o a IH]; cbn; [now rewrite app_nil_r|]. rewrite IH, app_assoc. reflexivity. Qed.
Lemma func_regs_app a b : func_regs (a ++ b) = func_regs b ++ func_regs a.
Proof. induction a as [|o a IH]; cbn; [now rewrite app_nil_r|]. rewrite IH, app_assoc. reflexivity. Qed.
Lemma union_regs_app a b : union_regs (a ++ b) = union_regs b ++ union_regs a.
Proof. induction a as [|o a IH]; cbn; [now rewrite app_nil_r|]. rewrite IH, app_assoc. reflexivity. Qed.

Lemma entry_ops_first_func start asdict l :
  first_always l = true -> func_regs (entry_ops start 0 asdict l) <> [].
Proof.
  destruct l as [|e l]; cbn; [discriminate|]. intros H. apply negb_true_iff in H. rewrite H. cbn.
  unfold entry_op. destruct (ie_ureg e); intros X; apply app_eq_nil in X; destruct X as [_ X]; discriminate.
Qed.

(* the ops build runs for dispatcher d *)
Definition build_ops (full : bool) (o : optmap) (d : dir) : list op :=
  let asdict := N.eqb (opt_val o OStrat) 0 in
  let cops := map (fun c => ORegCls c (HBase c)) in
  match d with
  | DUn => (cops (cls_un S) ++ entry_ops 0 0 asdict (base_un S)) ++
           (if full then entry_ops (length (base_un S)) 0 asdict (conv_un S) else [])
  | DSt => (entry_ops 0 0 asdict (base_st S) ++ cops (cls_st S)) ++
           (if full then entry_ops (length (base_st S)) 0 asdict (conv_st S) else [])
  end.

Definition build_fb (o : optmap) (d : dir) : tag :=
  match d with DUn => opt_val o OUnstructFallback | DSt => opt_val o OStructFallback end.

Lemma build_cdisp full o d :
  cdisp (build W C S full o) d = run W C (init_st [] [] (build_fb o d)) (build_ops full o d).
Proof.
  destruct d; cbn [cdisp build c_un c_st build_ops build_fb]; destruct full; rewrite ?run_app, ?app_nil_r; reflexivity.
Qed.

Lemma build_ops_reg full o d : forallb is_reg (build_ops full o d) = true.
Proof.
  destruct d; unfold build_ops; rewrite !forallb_app, ?entry_ops_reg, ?cops_reg; destruct full; cbn; rewrite ?entry_ops_reg; reflexivity.
Qed.

Lemma build_facts full o d :
  let s := cdisp (build W C S full o) d in
  ureg s = [] /\ preds s <> [] /\
  single s = cls_regs (map (fun c => ORegCls c (HBase c)) (match d with DUn => cls_un S | DSt => cls_st S end)) /\
  fallback s = build_fb o d.
Proof.
  cbn. rewrite build_cdisp.
  destruct (run_reg_core W C H_func_cd H_func_cc H_cls_cc H_front (build_ops full o d) (init_st [] [] (build_fb o d)) (build_ops_reg full o d))
    as (H1 & H2 & H3 & H4).
  rewrite H1, H2, H3, H4. cbn [init_st single preds ureg fallback]. rewrite !app_nil_r.
  split; [|split; [|split; [|reflexivity]]].
  - destruct d; unfold build_ops; rewrite !union_regs_app, ?entry_ops_union, ?cops_union; destruct full; cbn; rewrite ?entry_ops_union; reflexivity.
  - destruct d; unfold build_ops; rewrite !func_regs_app, ?cops_func; intros X.
    + apply app_eq_nil in X. destruct X as [_ X]. apply app_eq_nil in X. destruct X as [X _].
      exact (entry_ops_first_func 0 _ _ H_first_un X).
    + apply app_eq_nil in X. destruct X as [_ X]. rewrite app_nil_l in X.
      exact (entry_ops_first_func 0 _ _ H_first_st X).
  - destruct d; unfold build_ops; rewrite !cls_regs_app, ?entry_ops_cls; destruct full; cbn; rewrite ?entry_ops_cls, ?app_nil_r; reflexivity.
Qed.

Lemma urun_skip us : forall c, c_un_skip (urun W C S c us) = c_un_skip c /\ c_st_skip (urun W C S c us) = c_st_skip c /\ c_full (urun W C S c us) = c_full c /\ c_opts (urun W C S c us) = c_opts c.
Proof.
  induction us as [|u us IH]; intros c; cbn [urun fold_left]; [repeat split|].
  fold (urun W C S (ustep W C S c u) us). destruct (IH (ustep W C S c u)) as (A & B & D & E).
  rewrite A, B, D, E. repeat split.
Qed.

Definition cskip (c : conv) (d : dir) : nat := match d with DUn => c_un_skip c | DSt => c_st_skip c end.

Lemma copy_cdisp c ov d :
  cdisp (copy_conv W C S c ov) d =
  copy_to C (cdisp c d) (cdisp (build W C S (c_full c) (copy_opts (if c_full c then copy_full S else copy_base S) (c_opts c) ov)) d) (cskip c d).
Proof.
  destruct H_no_ureg_copy as [A B].
  destruct d; cbn [cdisp copy_conv c_un c_st cskip]; [reflexivity|].
  destruct (c_full c); rewrite ?A, ?B; reflexivity.
Qed.

(* C18: at the moment of copying, the copy answers every lookup exactly like a
   converter freshly built from the forwarded options that then received the
   original's registrations *)
Theorem conv_copy_is_replay full o us ov d t :
  Forall good_uop us ->
  conv_lookup W C (copy_conv W C S (urun W C S (build W C S full o) us) ov) d t =
  conv_lookup W C (urun W C S (build W C S full (copy_opts (if full then copy_full S else copy_base S) o ov)) (filter is_ureg_op us)) d t.
Proof.
  intros Hg.
  set (c := urun W C S (build W C S full o) us).
  destruct (urun_skip us (build W C S full o)) as (K1 & K2 & K3 & K4). fold c in K1, K2, K3, K4.
  rewrite !conv_lookup_cdisp, copy_cdisp, urun_disp, K3, K4. cbn [c_full c_opts build].
  set (o' := copy_opts (if full then copy_full S else copy_base S) o ov).
  set (s0 := cdisp (build W C S full o) d). set (other := cdisp (build W C S full o') d).
  assert (Hskip : cskip c d = length (preds s0)).
  { subst s0. destruct d; cbn [cskip]; rewrite ?K1, ?K2; reflexivity. }
  rewrite Hskip. subst c. rewrite urun_disp. fold s0.
  destruct (build_ok full o d) as [HI0 Hc0]. fold s0 in HI0, Hc0.
  destruct (build_ok full o' d) as [HIo Hco]. fold other in HIo, Hco.
  destruct (build_facts full o d) as (U0 & P0 & S0 & _). fold s0 in U0, P0, S0.
  destruct (build_facts full o' d) as (Uo & _ & So & _). fold other in Uo, So.
  pose proof (dops_good d us Hg) as Hgood.
  (* the copy only reads the registration content of its source *)
  rewrite (copy_to_core C _ (run W C s0 (filter is_reg (dops W S d us))) other (length (preds s0))).
  2:{ apply (run_core W C H_order H_func_cd H_func_cc H_cls_cc); auto using same_core_refl. }
  rewrite dops_filter.
  set (h := dops W S d (filter is_ureg_op us)).
  assert (Hreg : forallb is_reg h = true).
  { subst h. rewrite <- dops_filter. apply filter_is_reg_all. }
  assert (Hnu : forallb no_ureg_op h = true) by (subst h; apply dops_no_ureg).
  destruct (copy_to_is_replay W C H_order H_func_cd H_func_cc H_cls_cc H_front H_copy_suffix H_copy_single H_copy_cd H_copy_cc
              s0 other h t Hreg Hnu P0 (eq_trans S0 (eq_sym So)) U0 Uo) as (D1 & D2 & D3 & D4).
  assert (Hgh : Forall good_op h).
  { subst h. apply dops_good. clear - Hg. induction Hg as [|u us Hu Hr IH]; cbn; [constructor|].
    destruct (is_ureg_op u); [constructor; assumption | assumption]. }
  destruct (run_ok W C H_order H_func_cd H_func_cc H_cls_cc h other HIo Hco Hgh) as [HIr Hcr].
  destruct (dispatch_c_ok W C H_order _ t HIr Hcr) as (E2 & _).
  rewrite E2, <- D4.
  apply dispatch_c_ok; [exact H_order | apply inv_cleared; assumption | rewrite D3; exact Hcr].
Qed.

End Conv.
