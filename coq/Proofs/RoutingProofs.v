(* RoutingProofs.v -- lifting Core A to whole converters driven through the
   public API (C07, C08), and copy() as a replay of the user registrations (C18). *)
From V.Model Require Import Base Dispatch Routing.
From V.Proofs Require Import DispatchProofs.
From Coq Require Import Lia.

Section Conv.
Variable W : world.
Variable C : dcfg.
Variable S : csrc.

Hypothesis H_order : lookup_order C = [TSingle; TDirect; TFunc].
Hypothesis H_func_cd : has_eff EClearDirect (func_reg_final C) = true.
Hypothesis H_func_cc : has_eff ECacheClear (func_reg_final C) = true.
Hypothesis H_cls_cc : has_eff ECacheClear (cls_reg_each C ++ cls_reg_final C) = true.
Hypothesis H_front : insert_front C = true.
Hypothesis H_exc : pred_exc_continues C = true.

(* every ARegistry route clears both the direct table and the cache *)
Definition route_ok (r : list (rcond * raction)) : bool :=
  forallb (fun ca => match snd ca with
                     | ARegistry effs => has_eff EClearDirect effs && has_eff ECacheClear effs
                     | _ => true end) r.
Hypothesis H_route_un : route_ok (r_un S) = true.
Hypothesis H_route_st : route_ok (r_st S) = true.

Lemma run_app s a b : run W C s (a ++ b) = run W C (run W C s a) b.
Proof. unfold run. apply fold_left_app. Qed.

Definition cdisp (c : conv) (d : dir) : st := match d with DUn => c_un c | DSt => c_st c end.

Lemma urun_disp us : forall c d, cdisp (urun W C S c us) d = run W C (cdisp c d) (dops W S d us).
Proof.
  induction us as [|u us IH]; intros c d; cbn [urun fold_left dops flat_map]; [reflexivity|].
  fold (urun W C S (ustep W C S c u) us). rewrite IH. fold (dops W S d us). rewrite run_app.
  f_equal. destruct d; reflexivity.
Qed.

Definition good_uop (u : uop) : Prop :=
  match u with URegFactory _ _ _ _ (WOther _) => False | _ => True end.

Lemma route_action_ok r isu isn effs :
  route_ok r = true -> route_action r isu isn = Some (ARegistry effs) ->
  has_eff EClearDirect effs = true /\ has_eff ECacheClear effs = true.
Proof.
  induction r as [|[c a] r IH]; cbn; [discriminate|]. intros H E.
  apply andb_true_iff in H. destruct H as [Ha Hr].
  assert (Hhere : Some a = Some (ARegistry effs) ->
                  has_eff EClearDirect effs = true /\ has_eff ECacheClear effs = true).
  { intros X. inversion X; subst. cbn in Ha. now apply andb_true_iff in Ha. }
  destruct c; [destruct isu | destruct isn |]; auto.
Qed.

Lemma dop_good d u : good_uop u -> Forall (good_op) (dop W S d u).
Proof.
  intros Hg. destruct u as [d' t h|d' p h|d' p f ext w|d' t uc]; cbn [dop].
  - destruct (dir_eqb d d'); [|constructor]. unfold hook_reg_op.
    destruct (route_action _ _ _) as [[| |effs]|] eqn:E; repeat constructor.
    + eapply route_action_ok; [|exact E]. destruct d; assumption.
    + eapply route_action_ok; [|exact E]. destruct d; assumption.
  - destruct (dir_eqb d d'); repeat constructor.
  - destruct (dir_eqb d d'); repeat constructor. destruct w; cbn in *; auto.
  - destruct uc; destruct (dir_eqb d d'); repeat constructor.
Qed.

Lemma dops_good d us : Forall good_uop us -> Forall good_op (dops W S d us).
Proof.
  induction 1 as [|u us Hu Hr IH]; cbn; [constructor|].
  apply Forall_app. split; [now apply dop_good | exact IH].
Qed.

Lemma dops_filter d us : filter is_reg (dops W S d us) = dops W S d (filter is_ureg_op us).
Proof.
  induction us as [|u us IH]; cbn [dops flat_map filter]; [reflexivity|].
  rewrite filter_app. fold (dops W S d us). rewrite IH.
  destruct u as [d' t h|d' p h|d' p f ext w|d' t uc]; cbn [is_ureg_op dop].
  - cbn [dops flat_map dop]. f_equal.
    destruct (dir_eqb d d'); [|reflexivity]. unfold hook_reg_op.
    destruct (route_action _ _ _) as [[| |effs]|]; reflexivity.
  - cbn [dops flat_map dop]. f_equal. destruct (dir_eqb d d'); reflexivity.
  - cbn [dops flat_map dop]. f_equal. destruct (dir_eqb d d'); reflexivity.
  - destruct uc; destruct (dir_eqb d d'); reflexivity.
Qed.

(* a freshly constructed converter *)
Lemma entry_ops_good start asdict l : forall ix, Forall good_op (entry_ops start ix asdict l).
Proof.
  induction l as [|e l IH]; intros ix; cbn; [constructor|].
  destruct (ie_asdict_only e && negb asdict); [apply IH|].
  constructor; [|apply IH]. unfold entry_op. destruct (ie_ureg e); cbn; [exact I|].
  destruct (ie_writes e); exact I.
Qed.

Lemma cls_ops_good l : Forall good_op (map (fun c => ORegCls c (HBase c)) l).
Proof. induction l; cbn; constructor; [exact I | assumption]. Qed.

Lemma init_ok fb : Inv W C (init_st [] [] fb) /\ consistent (preds (init_st [] [] fb)).
Proof. split; [apply inv_cleared; reflexivity | intros p hd []]. Qed.

Lemma build_ok full o d :
  Inv W C (cdisp (build W C S full o) d) /\ consistent (preds (cdisp (build W C S full o) d)).
Proof.
  destruct d; cbn [cdisp build c_un c_st].
  - destruct full.
    + apply run_ok; auto using entry_ops_good.
      * apply run_ok; auto using entry_ops_good; try apply init_ok.
        apply Forall_app; auto using cls_ops_good, entry_ops_good.
      * apply run_ok; auto using entry_ops_good; try apply init_ok.
        apply Forall_app; auto using cls_ops_good, entry_ops_good.
    + apply run_ok; auto using entry_ops_good; try apply init_ok.
      apply Forall_app; auto using cls_ops_good, entry_ops_good.
  - destruct full.
    + apply run_ok; auto using entry_ops_good.
      * apply run_ok; auto using entry_ops_good; try apply init_ok.
        apply Forall_app; auto using cls_ops_good, entry_ops_good.
      * apply run_ok; auto using entry_ops_good; try apply init_ok.
        apply Forall_app; auto using cls_ops_good, entry_ops_good.
    + apply run_ok; auto using entry_ops_good; try apply init_ok.
      apply Forall_app; auto using cls_ops_good, entry_ops_good.
Qed.

Lemma conv_lookup_cdisp c d t : conv_lookup W C c d t = fst (dispatch_c W C (cdisp c d) t).
Proof. destruct d; reflexivity. Qed.

(* C08 at converter level: get-hook / structure / unstructure calls interleaved
   with registrations never change a later lookup *)
Theorem conv_cache_transparent full o us d t :
  Forall good_uop us ->
  conv_lookup W C (urun W C S (build W C S full o) us) d t =
  conv_lookup W C (urun W C S (build W C S full o) (filter is_ureg_op us)) d t.
Proof.
  intros Hg. rewrite !conv_lookup_cdisp, !urun_disp, <- dops_filter.
  destruct (build_ok full o d) as [HI Hc].
  apply cache_transparent; auto using dops_good.
Qed.

(* C07 at converter level: the lookup is the documented rule over the
   registrations made through the public API *)
Theorem conv_lookup_is_doc_choice full o us d t :
  Forall good_uop us ->
  conv_lookup W C (urun W C S (build W C S full o) us) d t =
  doc_choice W C (cdisp (build W C S full o) d) (filter is_reg (dops W S d us)) t.
Proof.
  intros Hg. rewrite conv_lookup_cdisp, urun_disp.
  destruct (build_ok full o d) as [HI Hc].
  apply lookup_is_doc_choice; auto using dops_good.
Qed.

End Conv.
