(* SrcObligationsHooks.v -- the registration tables of the current source (Gen/HooksSrc.v) select, for every type
   constructor of the nested universe, each converter class and each strategy, exactly the hook Model/Conv.v
   implements for it.  Closed by computation: an edit to BaseConverter.__init__ / Converter.__init__ that
   reorders the tables, swaps a handler or adds a shadowing entry breaks this obligation. *)
From V.Model Require Import Base HookTable.
From V.Gen Require Import HooksSrc.

Lemma src_hook_tables_select_the_modelled_hooks :
  tables_ok src_st_cls src_st_base src_st_conv src_un_cls src_un_base src_un_conv = true.
Proof. vm_compute. reflexivity. Qed.
