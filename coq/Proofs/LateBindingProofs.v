(* LateBindingProofs.v -- when the late-bound call keeps the declared class, a generated hook computes the documented encoding
   whatever working set it was generated under: the entry point of the first use (and the thread that got there first) does not
   matter.  With a runtime-class late binding it does. *)
From V.Model Require Import Base LateBinding.

Lemma omap_impl {A B} (f g : A -> option B) l : (forall x y, In x l -> f x = Some y -> g x = Some y) ->
  forall ys, omap f l = Some ys -> omap g l = Some ys.
Proof.
  induction l as [|x l IH]; intros H ys E; cbn [omap] in *; [exact E|].
  destruct (f x) as [y|] eqn:Ef; [|discriminate]. destruct (omap f l) as [r|] eqn:Er; [|discriminate].
  rewrite (H x y (or_introl eq_refl) Ef). rewrite (IH (fun a b Ha => H a b (or_intror Ha)) r eq_refl). exact E.
Qed.

Section LBP.
Variable classes : N -> option (list (N * N)).

Theorem hook_is_spec : forall k ws c n v r, hook_sem classes true k ws c n v = Some r -> spec classes n c v = Some r.
Proof.
  induction k as [|k IH]; intros ws c n v r H; [discriminate|].
  destruct n as [|n]; [discriminate|]. cbn [hook_sem] in H. cbn [spec].
  destruct v as [|rc fs]; [exact H|].
  destruct (classes c) as [flds|]; [|discriminate].
  match type of H with match omap ?f flds with _ => _ end = _ => destruct (omap f flds) as [kvs|] eqn:Eo; [|discriminate] end.
  erewrite omap_impl; [exact H | | exact Eo].
  intros [nm d] y _ Ey. cbn [fst snd] in *. destruct (assoc fs nm) as [fv|]; [|discriminate].
  destruct (mem_N d (c :: ws)).
  - unfold late in Ey. exact Ey.
  - destruct (hook_sem classes true k (c :: ws) d n fv) as [o|] eqn:Eh; [|discriminate]. rewrite (IH _ _ _ _ _ Eh). exact Ey.
Qed.

(* the entry point does not matter: hooks for the same class generated under any two working sets agree wherever both answer *)
Corollary entry_point_irrelevant k1 k2 ws1 ws2 c n v r1 r2 :
  hook_sem classes true k1 ws1 c n v = Some r1 -> hook_sem classes true k2 ws2 c n v = Some r2 -> r1 = r2.
Proof. intros H1 H2. apply hook_is_spec in H1. apply hook_is_spec in H2. congruence. Qed.
End LBP.

(* with a late binding that dispatches on the class of the VALUE the entry point matters: classes A(1){bs: B}, B(2){as_: A},
   A2(3) = A + {more: leaf(9)}; the hook for A generated on its own and the one generated while B's hook is in progress
   disagree on an A holding a B holding an A2 *)
Local Open Scope N_scope.
Definition lb_classes (c : N) : option (list (N * N)) :=
  match c with 1 => Some [(10, 2)] | 2 => Some [(20, 1)] | 3 => Some [(10, 2); (30, 9)] | 9 => Some [] | _ => None end.
Definition lb_value : lval := LInst 1 [(10, LInst 2 [(20, LInst 3 [(10, LNone); (30, LInst 9 [])])])].

Theorem runtime_class_late_binding_refuted :
  exists ws1 ws2, exists r1 r2, hook_sem lb_classes false 9 ws1 1 9 lb_value = Some r1 /\ hook_sem lb_classes false 9 ws2 1 9 lb_value = Some r2 /\ r1 <> r2.
Proof.
  exists [], [2]. eexists. eexists. split; [vm_compute; reflexivity|]. split; [vm_compute; reflexivity|]. discriminate.
Qed.

Example declared_class_late_binding_agrees :
  hook_sem lb_classes true 9 [] 1 9 lb_value = hook_sem lb_classes true 9 [2] 1 9 lb_value
  /\ hook_sem lb_classes true 9 [] 1 9 lb_value = Some (ODict [(10, ODict [(20, ODict [(10, ONone)])])]).
Proof. vm_compute. split; reflexivity. Qed.
