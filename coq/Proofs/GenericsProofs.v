(* GenericsProofs.v -- rewriting annotations by TypeVar NAME equals substitution by TypeVar
   identity when names are unambiguous (C17). *)
From V.Model Require Import Base Generics.
From Coq Require Import Lia.

(* induction principle for the nested type *)
Section Ind.
Variable P : gty -> Prop.
Hypothesis Hvar : forall i n, P (GVar i n).
Hypothesis Hcls : forall n, P (GCls n).
Hypothesis Hopq : forall k, P (GOpaque k).
Hypothesis Happ : forall c args, Forall P args -> P (GApp c args).
Hypothesis Hann : forall t m, P t -> P (GAnnot t m).
Fixpoint gty_ind' (t : gty) : P t :=
  match t with
  | GVar i n => Hvar i n
  | GCls n => Hcls n
  | GOpaque k => Hopq k
  | GApp c args => Happ c args ((fix go (l : list gty) : Forall P l :=
                                  match l with [] => Forall_nil P | x :: r => Forall_cons x (gty_ind' x) (go r) end) args)
  | GAnnot t' m => Hann t' m (gty_ind' t')
  end.
End Ind.

Definition concrete (a : gty) : Prop := match a with GVar _ _ => False | _ => True end.

(* every TypeVar occurring in t is one of [params]; no class is named like one of them *)
Fixpoint scoped (params : list (N * N)) (t : gty) : Prop :=
  match t with
  | GVar i n => In (i, n) params
  | GCls n => ~ In n (map snd params)
  | GOpaque _ => True
  | GApp _ args => (fix all (l : list gty) : Prop := match l with [] => True | x :: r => scoped params x /\ all r end) args
  | GAnnot t' _ => scoped params t'
  end.

Lemma assoc_dict_set_eq {B} (d : list (N * B)) k v : assoc (dict_set d k v) k = Some v.
Proof.
  induction d as [|[k' v'] d IH]; cbn; [now rewrite N.eqb_refl|].
  destruct (N.eqb k' k) eqn:E; cbn; rewrite E; [reflexivity | exact IH].
Qed.
Lemma assoc_dict_set_neq {B} (d : list (N * B)) k v k' : k' <> k -> assoc (dict_set d k v) k' = assoc d k'.
Proof.
  intros H. induction d as [|[a b] d IH]; cbn.
  - destruct (N.eqb k k') eqn:E; [apply N.eqb_eq in E; congruence | reflexivity].
  - destruct (N.eqb a k) eqn:E; cbn.
    + apply N.eqb_eq in E. subst a. destruct (N.eqb k k') eqn:E2; [apply N.eqb_eq in E2; congruence | reflexivity].
    + destruct (N.eqb a k'); [reflexivity | exact IH].
Qed.

(* the name-keyed mapping and the identity-keyed environment agree on every parameter *)
Lemma mapping_agrees params : forall args old i n,
  NoDup (map snd params) -> NoDup (map fst params) -> Forall concrete args ->
  In (i, n) params ->
  assoc (zip_mapping params args old) n =
  match assoc (zip_env params args) i with Some r => Some r | None => assoc old n end.
Proof.
  induction params as [|[pi pn] ps IH]; intros args old i n Hn Hi Hc Hin; [contradiction|].
  cbn [map] in Hn, Hi. inversion Hn as [|? ? Hn1 Hn2]; subst. inversion Hi as [|? ? Hi1 Hi2]; subst.
  destruct args as [|a rest]; cbn [zip_mapping zip_env]; [reflexivity|].
  inversion Hc as [|? ? Ha Hrest]; subst.
  destruct Hin as [E|Hin].
  - inversion E; subst pi pn. clear E.
    (* the parameter itself: later parameters have other names and other ids *)
    assert (Hlater_m : forall args' old', assoc (zip_mapping ps args' old') n = assoc old' n).
    { clear -Hn1. induction ps as [|[qi qn] ps IHp]; intros args' old'; cbn; [reflexivity|].
      destruct args' as [|b rest']; [reflexivity|].
      assert (qn <> n) by (intros X; apply Hn1; subst; now left).
      rewrite IHp by (intros X; apply Hn1; now right).
      destruct b; try (apply assoc_dict_set_neq; congruence); reflexivity. }
    assert (Hlater_e : forall args', assoc (zip_env ps args') i = None).
    { clear -Hi1. induction ps as [|[qi qn] ps IHp]; intros args'; cbn; [reflexivity|].
      destruct args' as [|b rest']; [reflexivity|].
      assert (Hne : qi <> i) by (intros X; apply Hi1; subst; now left).
      assert (IH' := IHp (fun X => Hi1 (or_intror X)) rest').
      destruct b; cbn; try exact IH'; apply N.eqb_neq in Hne; rewrite Hne; exact IH'. }
    rewrite Hlater_m. destruct a; cbn in Ha; try contradiction; cbn [assoc]; rewrite N.eqb_refl, ?assoc_dict_set_eq; reflexivity.
  - assert (Hne_n : pn <> n) by (intros X; apply Hn1; subst; change n with (snd (i, n)); now apply in_map).
    assert (Hne_i : pi <> i) by (intros X; apply Hi1; subst; change i with (fst (i, n)); now apply in_map).
    rewrite (IH rest _ i n Hn2 Hi2 Hrest Hin).
    destruct a; cbn in Ha; try contradiction; cbn [assoc];
      apply N.eqb_neq in Hne_i; rewrite Hne_i; rewrite ?assoc_dict_set_neq by congruence; reflexivity.
Qed.

Lemma mapping_other params : forall args old n,
  ~ In n (map snd params) -> assoc (zip_mapping params args old) n = assoc old n.
Proof.
  induction params as [|[pi pn] ps IH]; intros args old n Hn; cbn; [reflexivity|].
  destruct args as [|a rest]; [reflexivity|].
  assert (pn <> n) by (intros X; apply Hn; subst; now left).
  rewrite IH by (intros X; apply Hn; now right).
  destruct a; try (apply assoc_dict_set_neq; congruence); reflexivity.
Qed.

Section Mono.
Variable params : list (N * N).
Variable args : list gty.
Hypothesis Hn : NoDup (map snd params).
Hypothesis Hi : NoDup (map fst params).
Hypothesis Hc : Forall concrete args.

Let M := zip_mapping params args [].
Let E := zip_env params args.

Lemma var_agrees i n : In (i, n) params -> assoc M n = assoc E i.
Proof.
  intros H. unfold M, E. rewrite (mapping_agrees params args [] i n Hn Hi Hc H). cbn.
  destruct (assoc (zip_env params args) i); reflexivity.
Qed.

(* an argument position of deep_copy_with behaves like the substitution *)
Lemma sub_arg_agrees a :
  scoped params a -> (is_generic a = true -> deep_copy_with M a = subst_id E a) ->
  match name_of a with
  | Some n => match assoc M n with Some r => r | None => a end
  | None => if is_generic a then deep_copy_with M a else a
  end = subst_id E a.
Proof.
  intros Hs Hrec. destruct a as [i n|n|k|c l|t m]; cbn [name_of is_generic subst_id].
  - cbn in Hs. rewrite (var_agrees i n Hs). reflexivity.
  - cbn in Hs. unfold M. rewrite (mapping_other params args [] n Hs). reflexivity.
  - reflexivity.
  - apply Hrec. reflexivity.
  - apply Hrec. reflexivity.
Qed.

Theorem deep_copy_is_subst t : scoped params t -> is_generic t = true -> deep_copy_with M t = subst_id E t.
Proof.
  induction t as [i n|n|k|c l IH|t m IH] using gty_ind'; intros Hs Hg; try discriminate.
  - cbn [deep_copy_with subst_id]. f_equal.
    induction l as [|a l IHl]; [reflexivity|]. cbn [map]. inversion IH as [|? ? Ha Hl]; subst.
    cbn in Hs. destruct Hs as [Hsa Hsl]. f_equal.
    + apply sub_arg_agrees; [exact Hsa|]. intros G. now apply Ha.
    + apply IHl; assumption.
  - cbn [deep_copy_with subst_id]. f_equal. cbn in Hs.
    apply sub_arg_agrees; [exact Hs|]. intros G. now apply IH.
Qed.

(* what the generators do with an attribute's annotation = the monomorphised annotation, except for
   an annotation that IS an Annotated[...] (not rewritten at all) or a bare generic *)
Theorem resolve_field_is_subst t :
  scoped params t -> (forall t' m, t <> GAnnot t' m) ->
  resolve_field M t = subst_id E t.
Proof.
  intros Hs Hna. destruct t as [i n|n|k|c [|a l]|t' m]; cbn [resolve_field subst_id].
  - cbn in Hs. rewrite (var_agrees i n Hs). reflexivity.
  - reflexivity.
  - reflexivity.
  - reflexivity.
  - now apply deep_copy_is_subst.
  - exfalso. eapply Hna. reflexivity.
Qed.

End Mono.
