(* SrcObligations.v -- the side-conditions of the generic Core A theorems,
   discharged for the configuration translator T1 read off /repo's source
   (Gen/DispatchSrc.v, Gen/ConvSrc.v).  Each is closed by computation: when an
   edit to dispatch.py / converters.py flips one of them, the *named* lemma below
   is the proof obligation that no longer checks. *)
From V.Model Require Import Base Dispatch Routing.
From V.Gen Require Import DispatchSrc ConvSrc.
From V.Proofs Require Import DispatchProofs RoutingProofs.

(* dispatch_without_caching consults: class registry, direct table, predicate list, fallback *)
Lemma src_lookup_order : lookup_order src_cfg = [TSingle; TDirect; TFunc].
Proof. reflexivity. Qed.
(* register_func_list clears the direct table ... *)
Lemma src_func_reg_clears_direct : has_eff EClearDirect (func_reg_final src_cfg) = true.
Proof. reflexivity. Qed.
(* ... and the lru cache *)
Lemma src_func_reg_clears_cache : has_eff ECacheClear (func_reg_final src_cfg) = true.
Proof. reflexivity. Qed.
(* register_cls_list clears the lru cache *)
Lemma src_cls_reg_clears_cache : has_eff ECacheClear (cls_reg_each src_cfg ++ cls_reg_final src_cfg) = true.
Proof. reflexivity. Qed.
(* FunctionDispatch.register puts the newest entry first *)
Lemma src_insert_front : insert_front src_cfg = true.
Proof. reflexivity. Qed.
(* a raising predicate is skipped *)
Lemma src_pred_exc_continues : pred_exc_continues src_cfg = true.
Proof. reflexivity. Qed.
(* register_(un)structure_hook for a union clears direct table and cache *)
Lemma src_route_un_ok : route_ok (r_un src_csrc) = true.
Proof. reflexivity. Qed.
Lemma src_route_st_ok : route_ok (r_st src_csrc) = true.
Proof. reflexivity. Qed.
(* copy(): FunctionDispatch.copy_to keeps everything but the entries the source was born with *)
Lemma src_copy_drops_suffix : copy_drops_suffix src_cfg = true.
Proof. reflexivity. Qed.
Lemma src_copy_copies_single : copy_copies_single src_cfg = true.
Proof. reflexivity. Qed.
Lemma src_copy_final_clears : has_eff EClearDirect (copy_final src_cfg) = true /\ has_eff ECacheClear (copy_final src_cfg) = true.
Proof. split; reflexivity. Qed.
(* register_(un)structure_hook never goes through a side registry (fixed finding F9) *)
Lemma src_route_un_plain : route_plain (r_un src_csrc) = true.
Proof. reflexivity. Qed.
Lemma src_route_st_plain : route_plain (r_st src_csrc) = true.
Proof. reflexivity. Qed.
Lemma src_copy_no_ureg : copy_base_ureg src_csrc = false /\ copy_full_ureg src_csrc = false.
Proof. split; reflexivity. Qed.
Lemma src_first_un : first_always (base_un src_csrc) = true.
Proof. reflexivity. Qed.
Lemma src_first_st : first_always (base_st src_csrc) = true.
Proof. reflexivity. Qed.
Lemma src_copy_clears_direct : has_eff EClearDirect (copy_final src_cfg) = true.
Proof. reflexivity. Qed.
Lemma src_copy_clears_cache : has_eff ECacheClear (copy_final src_cfg) = true.
Proof. reflexivity. Qed.
(* copy() forwards every construction option of each class (fixed finding F5a: the fallback factories) *)
Definition all_base_opts : list copt := [ODictFactory; OStrat; OPrefer; ODetailed; OUnstructFallback; OStructFallback].
Definition all_full_opts : list copt := all_base_opts ++ [OOmit; OForbid; OTypeOv; OCollOv].
Definition covers (passes all : list copt) : bool := forallb (fun o => existsb (copt_eqb o) passes) all.
Lemma src_copy_base_forwards_all : covers (copy_base src_csrc) all_base_opts = true.
Proof. reflexivity. Qed.
Lemma src_copy_full_forwards_all : covers (copy_full src_csrc) all_full_opts = true.
Proof. reflexivity. Qed.

