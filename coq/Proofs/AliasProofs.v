(* AliasProofs.v -- C11: a hook that starts from a copy of its argument cannot modify the argument,
   whatever edits follow and wherever they stop; a hook that edits its argument directly can. *)
From Coq Require Import Lia.
From V.Model Require Import Base Alias.
From V.Proofs Require Import ClassSound.

Lemma max_acc l : forall b, (b <= fold_left N.max l b)%N.
Proof.
  induction l as [|z l IH]; intros b; cbn; [apply N.le_refl|].
  eapply N.le_trans; [apply (N.le_max_l b z) | apply IH].
Qed.

Lemma max_ge l : forall a x, In x l -> (x <= fold_left N.max l a)%N.
Proof.
  induction l as [|y l IH]; intros a x H; [contradiction|]. cbn. destruct H as [<-|H].
  - eapply N.le_trans; [apply (N.le_max_r a y) | apply max_acc].
  - now apply IH.
Qed.

Lemma fresh_not_in s r o : assoc s r = Some o -> r <> fresh s.
Proof.
  intros H Heq. apply assoc_in in H. assert (Hin : In r (map fst s)) by (apply in_map_iff; exists (r, o); auto).
  pose proof (max_ge _ 0%N _ Hin) as Hle. unfold fresh in Heq. rewrite Heq in Hle. apply N.nle_succ_diag_l in Hle. exact Hle.
Qed.

(* the argument -- and every other object that existed before the call -- is left exactly as it was,
   for EVERY sequence of edits, whether the hook returns or raises part-way *)
Theorem copy_first_frames : forall ops s arg r o,
  assoc s r = Some o -> assoc (fst (inplace true ops s arg)) r = Some o.
Proof.
  intros ops s arg r o Hr. unfold inplace. destruct (assoc s arg) as [oa|] eqn:Ea; [|exact Hr].
  destruct (run_ops oa ops) as [o' err]. cbn [fst]. rewrite !assoc_dict_set.
  pose proof (fresh_not_in s r o Hr) as Hne. destruct (N.eqb (fresh s) r) eqn:E; [apply N.eqb_eq in E; congruence|]. exact Hr.
Qed.

(* ... and what it returns is a new object, not the argument nor anything reachable before *)
Theorem copy_first_result_is_new : forall ops s arg t,
  snd (inplace true ops s arg) = Ok t -> assoc s t = None /\ t <> arg.
Proof.
  intros ops s arg t. unfold inplace. destruct (assoc s arg) as [oa|] eqn:Ea; [|discriminate].
  destruct (run_ops oa ops) as [o' [e|]]; cbn [snd]; [discriminate|]. intros H. inversion H; subst t. split.
  - destruct (assoc s (fresh s)) eqn:E; [|reflexivity]. exfalso. exact (fresh_not_in _ _ _ E eq_refl).
  - intros Heq. rewrite <- Heq in Ea. exact (fresh_not_in _ _ _ Ea eq_refl).
Qed.

(* a hook that performs no edit leaves everything alone even without copying (the tagged-union hooks of a
   converter without forbid_extra_keys read the tag and pass the payload on) *)
Theorem no_edit_frames : forall s arg r o, assoc s r = Some o -> assoc (fst (inplace false [] s arg)) r = Some o.
Proof.
  intros s arg r o Hr. unfold inplace. destruct (assoc s arg) as [oa|] eqn:Ea; [|exact Hr]. cbn [run_ops fst].
  rewrite assoc_dict_set. destruct (N.eqb arg r) eqn:E; [|exact Hr]. apply N.eqb_eq in E. subst r. congruence.
Qed.

(* without the copy the argument IS modified: popping the tag from the caller's own dict *)
Theorem edit_without_copy_mutates : exists ops s arg, assoc (fst (inplace false ops s arg)) arg <> assoc s arg.
Proof. exists [IPop 1%N], [(1%N, [(1%N, CAtom 5%N)])], 1%N. vm_compute. discriminate. Qed.

(* the copy is shallow: the values of keys the hook does not touch are the same cells, so containers they
   refer to are shared between argument and result (TypedDict payloads with unknown keys: finding F4) *)
Theorem untouched_values_are_shared : forall s arg o t,
  assoc s arg = Some o -> snd (inplace true [] s arg) = Ok t -> assoc (fst (inplace true [] s arg)) t = Some o.
Proof.
  intros s arg o t Ha. unfold inplace. rewrite Ha. cbn [run_ops fst snd]. intros H. inversion H; subst t.
  rewrite assoc_dict_set, N.eqb_refl. reflexivity.
Qed.
