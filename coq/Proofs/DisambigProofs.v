(* DisambigProofs.v -- the unique-required-key disambiguator never picks the wrong class (C12):
   for ANY processing order, ANY set-iteration order [choose], and any payload whose keys lie
   between the usable keys of a member and all of its attribute names. *)
From V.Model Require Import Base Disambig.
From Coq Require Import Lia.

Section DP.
Variable choose : list N -> list N.
Variable skip : bool.
Hypothesis choose_sub : forall l x, In x (choose l) -> In x l.

Definition ids (l : list dclass) : list N := map dc_id l.

(* the payload of an instance of c: at least the keys that may discriminate, at most c's attributes *)
Definition payload_of (c : dclass) (keys : list N) : Prop :=
  (forall n, usable_key skip c n = true -> In n keys) /\ (forall n, In n keys -> In n (names c)).

Lemma mem_N_In k l : mem_N k l = true <-> In k l.
Proof.
  unfold mem_N. rewrite existsb_exists. split.
  - intros (x & Hx & E). apply N.eqb_eq in E. now subst.
  - intros H. exists k. split; [exact H | apply N.eqb_refl].
Qed.

Lemma mem_N_false k l : mem_N k l = false <-> ~ In k l.
Proof. rewrite <- mem_N_In. destruct (mem_N k l); split; intros; try discriminate; try reflexivity; exfalso; auto. Qed.

Lemma usable_in_names c n : usable_key skip c n = true -> In n (names c).
Proof.
  unfold usable_key, names. intros H. apply existsb_exists in H. destruct H as (f & Hf & E).
  apply andb_true_iff in E. destruct E as [E _]. apply andb_true_iff in E. destruct E as [E _].
  apply N.eqb_eq in E. subst. now apply in_map.
Qed.

(* the invariant of the greedy loop *)
Record inv (all : list dclass) (done : list N) (assigned : list (N * N)) (fb : option N) : Prop := {
  (* every assigned class was processed, is a member, and its key is usable for it *)
  i_assigned : forall k c, In (k, c) assigned -> In c done /\ exists cl, In cl all /\ dc_id cl = c /\ usable_key skip cl k = true;
  (* a key assigned at some point is not an attribute of any class that was unassigned then (and is another class) *)
  i_unique : forall pre k c post, assigned = pre ++ (k, c) :: post ->
             forall cl, In cl all -> dc_id cl <> c -> ~ In (dc_id cl) (map snd pre) -> ~ In k (names cl);
  (* processed classes are assigned or the fallback *)
  i_done : forall c, In c done -> In c (map snd assigned) \/ fb = Some c;
  i_fb : forall f, fb = Some f -> In f done /\ ~ In f (map snd assigned);
  i_nodup : NoDup (map snd assigned)
}.

Lemma find_some_usable cl l k : find (usable_key skip cl) (choose l) = Some k -> In k l /\ usable_key skip cl k = true.
Proof. intros H. apply find_some in H. destruct H as [H1 H2]. split; [now apply choose_sub | exact H2]. Qed.

Lemma key_loop_inv all : NoDup (ids all) -> forall todo done assigned fb res,
  (forall cl, In cl todo -> In cl all) ->
  NoDup (ids todo) -> (forall cl, In cl todo -> ~ In (dc_id cl) done) ->
  inv all done assigned fb ->
  key_loop choose skip todo all assigned fb = Ok res ->
  inv all (done ++ ids todo) (fst res) (snd res).
Proof.
  intros Hall. induction todo as [|cl rest IH]; intros done assigned fb res Hsub Hnd Hfresh Hinv Hrun.
  - cbn in Hrun. inversion Hrun; subst. cbn. now rewrite app_nil_r.
  - cbn [key_loop] in Hrun.
    set (others := filter (fun c => negb (N.eqb (dc_id c) (dc_id cl)) && negb (mem_N (dc_id c) (map snd assigned))) all) in *.
    set (uniq := filter (fun n => negb (mem_N n (flat_map names others))) (names cl)) in *.
    assert (Hcl : In cl all) by (apply Hsub; now left).
    inversion Hnd as [|? ? Hn Hr]; subst.
    assert (Hcl_fresh : ~ In (dc_id cl) done) by (apply Hfresh; now left).
    assert (Hcl_unassigned : ~ In (dc_id cl) (map snd assigned)).
    { intros X. apply in_map_iff in X. destruct X as ([k c] & E & Hin). cbn in E. subst c.
      destruct (i_assigned _ _ _ _ Hinv k (dc_id cl) Hin) as [Hd _]. contradiction. }
    replace (done ++ ids (cl :: rest)) with ((done ++ [dc_id cl]) ++ ids rest) by (cbn; now rewrite <- app_assoc).
    destruct (find (usable_key skip cl) (choose uniq)) as [k|] eqn:Ef.
    + (* a unique usable key: assign it *)
      destruct (find_some_usable cl uniq k Ef) as [Hku Husable].
      apply (IH (done ++ [dc_id cl]) (assigned ++ [(k, dc_id cl)]) fb res); auto.
      * intros c Hc. apply Hsub. now right.
      * intros c Hc X. apply in_app_or in X. destruct X as [X|[X|[]]].
        -- revert X. apply Hfresh. now right.
        -- apply Hn. rewrite X. unfold ids. now apply in_map.
      * destruct Hinv as [A U D F ND]. constructor.
        -- intros k' c' Hin. apply in_app_or in Hin. destruct Hin as [Hin|[E|[]]].
           ++ destruct (A k' c' Hin) as [H1 H2]. split; [apply in_or_app; now left | exact H2].
           ++ inversion E; subst. split; [apply in_or_app; right; now left|]. exists cl. auto.
        -- intros pre k' c' post E c0 Hc0 Hne Hnot.
           (* either the entry is an old one, or it is the new last one *)
           destruct post as [|p post'].
           ++ apply app_inj_tail in E. destruct E as [E1 E2]. inversion E2; subst k' c'. subst pre.
              (* k is in uniq: not an attribute of any other unassigned class *)
              unfold uniq in Hku. apply filter_In in Hku. destruct Hku as [_ Hk]. apply negb_true_iff, mem_N_false in Hk.
              intros X. apply Hk. apply in_flat_map. exists c0. split; [|exact X].
              unfold others. apply filter_In. split; [exact Hc0|].
              apply andb_true_iff. split.
              ** apply negb_true_iff, N.eqb_neq. exact Hne.
              ** apply negb_true_iff, mem_N_false. exact Hnot.
           ++ assert (E' : assigned = pre ++ (k', c') :: removelast (p :: post')).
              { assert (Hl : (p :: post') <> []) by discriminate.
                rewrite (app_removelast_last (k, dc_id cl) Hl) in E.
                change (pre ++ (k', c') :: removelast (p :: post') ++ [last (p :: post') (k, dc_id cl)])
                  with (pre ++ ((k', c') :: removelast (p :: post')) ++ [last (p :: post') (k, dc_id cl)]) in E.
                rewrite app_assoc in E. apply app_inj_tail in E. destruct E as [E _]. exact E. }
              exact (U pre k' c' _ E' c0 Hc0 Hne Hnot).
        -- intros c Hc. apply in_app_or in Hc. rewrite map_app. destruct Hc as [Hc|[Hc|[]]].
           ++ destruct (D c Hc) as [X|X]; [left; apply in_or_app; now left | now right].
           ++ subst c. left. apply in_or_app. right. now left.
        -- intros f Hf. destruct (F f Hf) as [F1 F2]. split; [apply in_or_app; now left|].
           rewrite map_app. intros X. apply in_app_or in X. destruct X as [X|[X|[]]]; [contradiction|].
           cbn in X. subst f. contradiction.
        -- rewrite map_app. cbn. clear -ND Hcl_unassigned. induction (map snd assigned) as [|x l IHl]; cbn.
           ++ constructor; [intros []|constructor].
           ++ inversion ND; subst. constructor.
              ** intros X. apply in_app_or in X. destruct X as [X|[X|[]]]; [contradiction|]. subst. apply Hcl_unassigned. now left.
              ** apply IHl; auto. intros X. apply Hcl_unassigned. now right.
    + destruct fb as [f|]; [discriminate|].
      (* no usable unique key: cl becomes the fallback *)
      apply (IH (done ++ [dc_id cl]) assigned (Some (dc_id cl)) res); auto.
      * intros c Hc. apply Hsub. now right.
      * intros c Hc X. apply in_app_or in X. destruct X as [X|[X|[]]].
        -- revert X. apply Hfresh. now right.
        -- apply Hn. rewrite X. unfold ids. now apply in_map.
      * destruct Hinv as [A U D F ND]. constructor; auto.
        -- intros k' c' Hin. destruct (A k' c' Hin) as [H1 H2]. split; [apply in_or_app; now left | exact H2].
        -- intros c Hc. apply in_app_or in Hc. destruct Hc as [Hc|[Hc|[]]].
           ++ destruct (D c Hc) as [X|X]; [now left | discriminate].
           ++ subst c. now right.
        -- intros f Hf. inversion Hf; subst f. split; [apply in_or_app; right; now left | exact Hcl_unassigned].
Qed.

Lemma inv_init all : inv all [] [] None.
Proof.
  constructor; cbn; try (intros; contradiction); try discriminate.
  - intros pre k c post E. destruct pre; discriminate.
  - constructor.
Qed.

(* the disambiguator built from any successful run of the loop identifies every member *)
Theorem keys_correct all todo res :
  NoDup (ids all) -> NoDup (ids todo) ->
  (forall cl, In cl todo <-> In cl all) ->
  key_loop choose skip todo all [] None = Ok res ->
  forall cl keys, In cl all -> payload_of cl keys ->
  dis_keys (fst res) (snd res) keys = Ok (dc_id cl).
Proof.
  intros Hall Htodo Hperm Hrun cl keys Hcl [Hsup Hsub].
  pose proof (key_loop_inv all Hall todo [] [] None res (fun c Hc => proj1 (Hperm c) Hc) Htodo (fun _ _ X => X) (inv_init all) Hrun) as I.
  cbn [app] in I. destruct res as [assigned fb]. cbn [fst snd] in *.
  destruct I as [A U D F ND].
  assert (Hdone : In (dc_id cl) (ids todo)) by (unfold ids; apply in_map; now apply Hperm).
  unfold dis_keys.
  destruct (D _ Hdone) as [Has|Hfb].
  - (* cl was assigned a key: it is in the payload, and no earlier key is *)
    apply in_map_iff in Has. destruct Has as ([k c] & E & Hin). cbn in E. subst c.
    destruct (A k (dc_id cl) Hin) as [_ (cl' & Hcl' & Eid & Hus)].
    assert (cl' = cl).
    { clear -Hall Hcl Hcl' Eid. unfold ids in Hall. induction all as [|x l IH]; [contradiction|].
      cbn in Hall. inversion Hall as [|? ? Hn Hr]; subst.
      destruct Hcl as [Hc|Hc], Hcl' as [Hc'|Hc']; subst; auto.
      - exfalso. apply Hn. rewrite <- Eid. now apply in_map.
      - exfalso. apply Hn. rewrite Eid. now apply in_map. }
    subst cl'.
    apply in_split in Hin. destruct Hin as (pre & post & E). subst assigned.
    assert (Hpre : forall kc, In kc pre -> mem_N (fst kc) keys = false).
    { intros [k' c'] Hkc. apply mem_N_false. intros X. cbn in X.
      apply in_split in Hkc. destruct Hkc as (p1 & p2 & Ep). subst pre.
      refine (U p1 k' c' (p2 ++ (k, dc_id cl) :: post) _ cl Hcl _ _ (Hsub _ X)).
      - now rewrite <- app_assoc.
      - (* c' <> dc_id cl: ids of assigned classes are distinct *)
        intros Eq. rewrite map_app in ND. cbn in ND. rewrite map_app in ND. cbn in ND. subst.
        rewrite <- app_assoc in ND. cbn in ND. apply NoDup_remove_2 in ND. apply ND.
        apply in_or_app. right. apply in_or_app. right. now left.
      - intros Y. rewrite map_app in ND. cbn in ND. rewrite map_app in ND. cbn in ND. rewrite <- app_assoc in ND. cbn in ND.
        assert (ND2 : NoDup (map snd p1 ++ (c' :: map snd p2) ++ dc_id cl :: map snd post)) by exact ND.
        clear -ND2 Y. induction (map snd p1) as [|x l IH]; [contradiction|]. cbn in ND2. inversion ND2 as [|? ? Hn Hr]; subst.
        destruct Y as [Y|Y]; [|auto]. subst x. apply Hn. apply in_or_app. right. cbn. right. apply in_or_app. right. now left. }
    assert (Hfind : find (fun kc => mem_N (fst kc) keys) (pre ++ (k, dc_id cl) :: post) = Some (k, dc_id cl)).
    { clear -Hpre Hsup Hus. induction pre as [|x pre IH]; cbn.
      - assert (Hk : mem_N k keys = true) by (apply mem_N_In, Hsup, Hus). now rewrite Hk.
      - rewrite (Hpre x (or_introl eq_refl)). apply IH. intros kc H. apply Hpre. now right. }
    rewrite Hfind. reflexivity.
  - (* cl is the fallback: none of the keys is among its attributes *)
    destruct (F _ Hfb) as [_ Hna].
    assert (Hnone : find (fun kc => mem_N (fst kc) keys) assigned = None).
    { destruct (find (fun kc => mem_N (fst kc) keys) assigned) as [[k c]|] eqn:E; [|reflexivity].
      exfalso. apply find_some in E. destruct E as [Hin Hk]. cbn in Hk. apply mem_N_In in Hk.
      apply in_split in Hin. destruct Hin as (pre & post & Ea).
      refine (U pre k c post Ea cl Hcl _ _ (Hsub _ Hk)).
      - intros Eq. apply Hna. rewrite Ea, map_app. apply in_or_app. right. cbn. now left.
      - intros Y. apply Hna. rewrite Ea, map_app. apply in_or_app. now left. }
    rewrite Hnone, Hfb. reflexivity.
Qed.


(* ---- sorting is a permutation ---- *)
Lemma insert_desc_in c l x : In x (insert_desc c l) <-> x = c \/ In x l.
Proof.
  induction l as [|y l IH]; cbn.
  - split; [intros [H|[]]; auto | intros [H|[]]; auto].
  - destruct (Nat.leb _ _); cbn.
    + split; [intros [H|H]; auto | intros [H|H]; auto].
    + rewrite IH. split; [intros [H|[H|H]]; auto | intros [H|[H|H]]; auto].
Qed.

Lemma sort_desc_in l x : In x (sort_desc l) <-> In x l.
Proof.
  unfold sort_desc. induction l as [|y l IH]; cbn; [tauto|]. rewrite insert_desc_in, IH. split; intros [H|H]; auto.
Qed.

Lemma insert_desc_ids c l : NoDup (ids l) -> ~ In (dc_id c) (ids l) -> NoDup (ids (insert_desc c l)).
Proof.
  unfold ids. induction l as [|y l IH]; cbn; intros Hnd Hn.
  - constructor; [intros [] | constructor].
  - destruct (Nat.leb _ _); cbn.
    + constructor; [exact Hn | exact Hnd].
    + inversion Hnd as [|? ? Hy Hr]; subst. constructor.
      * intros X. apply in_map_iff in X. destruct X as (z & E & Hz). apply insert_desc_in in Hz. destruct Hz as [Hz|Hz].
        -- subst z. apply Hn. left. now symmetry.
        -- apply Hy. rewrite <- E. now apply in_map.
      * apply IH; auto.
Qed.

Lemma sort_desc_ids l : NoDup (ids l) -> NoDup (ids (sort_desc l)).
Proof.
  unfold sort_desc. induction l as [|y l IH]; cbn; intros H; [constructor|]. inversion H as [|? ? Hn Hr]; subst.
  apply insert_desc_ids; [now apply IH|].
  intros X. apply Hn. unfold ids in *. apply in_map_iff in X. destruct X as (z & E & Hz).
  apply (proj1 (sort_desc_in l z)) in Hz. rewrite <- E. now apply in_map.
Qed.

(* the key-based disambiguator, as create_dis builds it *)
Theorem create_dis_keys_correct classes a fb :
  NoDup (ids classes) ->
  key_loop choose skip (sort_desc classes) (sort_desc classes) [] None = Ok (a, fb) ->
  forall cl keys, In cl classes -> payload_of cl keys -> dis_keys a fb keys = Ok (dc_id cl).
Proof.
  intros Hnd Hrun cl keys Hcl Hp.
  apply (keys_correct (sort_desc classes) (sort_desc classes) (a, fb)); auto using sort_desc_ids.
  - intros c. tauto.
  - now apply sort_desc_in.
Qed.

(* ---- literal discriminators: the bucket of an instance's value contains its class ---- *)
Lemma add_to_keeps m v c v' c' : (exists cs, assoc m v' = Some cs /\ In c' cs) ->
  exists cs, assoc (add_to m v c) v' = Some cs /\ In c' cs.
Proof.
  induction m as [|[w cs0] m IH]; intros (cs & E & Hin); cbn in *; [discriminate|].
  destruct (N.eqb w v) eqn:Ew; cbn.
  - destruct (N.eqb w v') eqn:Ew'.
    + inversion E; subst. exists (cs ++ [c]). split; [reflexivity | apply in_or_app; now left].
    + exists cs. auto.
  - destruct (N.eqb w v') eqn:Ew'.
    + exists cs. auto.
    + apply IH. exists cs. auto.
Qed.

Lemma add_to_adds m v c : exists cs, assoc (add_to m v c) v = Some cs /\ In c cs.
Proof.
  induction m as [|[w cs0] m IH]; cbn.
  - rewrite N.eqb_refl. exists [c]. split; [reflexivity | now left].
  - destruct (N.eqb w v) eqn:Ew; cbn; rewrite Ew.
    + exists (cs0 ++ [c]). split; [reflexivity | apply in_or_app; right; now left].
    + exact IH.
Qed.

Lemma fold_values_keeps vs c : forall m v' c', (exists cs, assoc m v' = Some cs /\ In c' cs) ->
  exists cs, assoc (fold_left (fun m' v => add_to m' v c) vs m) v' = Some cs /\ In c' cs.
Proof. induction vs as [|v vs IH]; intros m v' c' H; cbn; [exact H|]. apply IH. now apply add_to_keeps. Qed.

Lemma fold_values_adds vs c v : In v vs -> forall m,
  exists cs, assoc (fold_left (fun m' v => add_to m' v c) vs m) v = Some cs /\ In c cs.
Proof.
  induction vs as [|w vs IH]; intros Hin m; [contradiction|]. cbn. destruct Hin as [E|Hin].
  - subst w. apply fold_values_keeps. apply add_to_adds.
  - now apply IH.
Qed.

Theorem lit_mapping_contains classes disc cl v :
  In cl classes -> In v (lit_values cl disc) ->
  exists cs, assoc (lit_mapping classes disc) v = Some cs /\ In (dc_id cl) cs.
Proof.
  unfold lit_mapping. generalize (@nil (N * list N)) as m.
  induction classes as [|c classes IH]; intros m Hcl Hv; [contradiction|]. cbn [fold_left].
  destruct Hcl as [E|Hcl].
  - subst c.
    assert (H0 := fold_values_adds (lit_values cl disc) (dc_id cl) v Hv m).
    clear IH. revert H0. generalize (fold_left (fun m' v0 => add_to m' v0 (dc_id cl)) (lit_values cl disc) m) as m1.
    induction classes as [|c2 classes IH2]; intros m1 H0; cbn [fold_left]; [exact H0|].
    apply IH2. now apply fold_values_keeps.
  - now apply IH.
Qed.

End DP.
