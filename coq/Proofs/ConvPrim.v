(* ConvPrim.v -- C03 for the nested universe: what Converter unstructures from a value of T contains
   nothing but dict / list / tuple / set / frozenset / None / atoms, at every depth, under both strategies. *)
From Coq Require Import Lia.
From V.Model Require Import Base Templates Conv ConvSpec.
From V.Proofs Require Import ConvSound.

(* ---- class level: every value a generated / interpretive unstructure hook emits is what a handler returned ---- *)
Section UP.
Variable V : Type.
Variable veq : V -> V -> bool.
Variable opt : topts.
Variable ov : N -> fov.
Variable hs : N -> V -> result V.
Variable i : inst V.

Definition from_handler (w : V) : Prop := exists nm v, assoc i nm = Some v /\ hs nm v = Ok w.

Lemma dict_set_vals (P : V -> Prop) (l : list (N * V)) k v : Forall (fun kv => P (snd kv)) l -> P v -> Forall (fun kv => P (snd kv)) (dict_set l k v).
Proof.
  induction l as [|[k' v'] l IH]; cbn; intros Hl Hv; [repeat constructor; exact Hv|].
  inversion Hl; subst. destruct (N.eqb k' k); constructor; auto.
Qed.

Lemma un_literal_vals l : forall lit, un_literal V opt ov hs l i = Ok lit -> Forall (fun kv => from_handler (snd kv)) lit.
Proof.
  induction l as [|f l IH]; intros lit H; cbn [un_literal] in H; [inversion H; constructor|].
  destruct (omit_default V opt ov f); [now apply IH|]. unfold getattr in H.
  destruct (assoc i (f_name f)) as [v|] eqn:Ea; cbn [bind] in H; try discriminate.
  destruct (hs (f_name f) v) as [w| |] eqn:Eh; cbn [bind] in H; try discriminate.
  destruct (un_literal V opt ov hs l i) as [rest| |]; cbn [bind] in H; try discriminate. inversion H; subst.
  constructor; [cbn; exists (f_name f), v; auto | now apply IH].
Qed.

Lemma dict_of_vals (P : V -> Prop) l : forall acc, Forall (fun kv => P (snd kv)) l -> Forall (fun kv => P (snd kv)) acc ->
  Forall (fun kv => P (snd kv)) (dict_of V l acc).
Proof.
  induction l as [|[k v] l IH]; intros acc Hl Ha; cbn [dict_of]; [exact Ha|]. inversion Hl; subst.
  apply IH; [assumption|]. now apply dict_set_vals.
Qed.

Lemma un_cond_vals l : forall res d, un_cond V veq opt ov hs l i res = Ok d ->
  Forall (fun kv => from_handler (snd kv)) res -> Forall (fun kv => from_handler (snd kv)) d.
Proof.
  induction l as [|f l IH]; intros res d H Hr; cbn [un_cond] in H; [now inversion H; subst|].
  destruct (omit_default V opt ov f); [|now apply (IH res)]. unfold getattr in H.
  destruct (assoc i (f_name f)) as [v|] eqn:Ea; cbn [bind] in H; try discriminate.
  destruct (f_dflt f) as [dv|]; [|now apply (IH res)].
  destruct (veq v dv); [now apply (IH res)|].
  destruct (hs (f_name f) v) as [w| |] eqn:Eh; cbn [bind] in H; try discriminate.
  apply (IH _ _ H). apply dict_set_vals; [exact Hr|]. exists (f_name f), v. auto.
Qed.

Theorem un_gen_vals fs d : un_gen V veq opt ov hs fs i = Ok d -> Forall (fun kv => from_handler (snd kv)) d.
Proof.
  unfold un_gen. destruct (un_literal V opt ov hs _ i) as [lit| |] eqn:El; cbn [bind]; try discriminate.
  intros H. apply (un_cond_vals _ _ _ H). apply dict_of_vals; [now apply (un_literal_vals _ _ El) | constructor].
Qed.

Theorem un_interp_dict_vals fs : forall d, un_interp_dict V hs fs i = Ok d -> Forall (fun kv => from_handler (snd kv)) d.
Proof.
  induction fs as [|f l IH]; intros d H; cbn [un_interp_dict] in H; [inversion H; constructor|]. unfold getattr in H.
  destruct (assoc i (f_name f)) as [v|] eqn:Ea; cbn [bind] in H; try discriminate.
  destruct (hs (f_name f) v) as [w| |] eqn:Eh; cbn [bind] in H; try discriminate.
  destruct (un_interp_dict V hs l i) as [rest| |]; cbn [bind] in H; try discriminate. inversion H; subst.
  constructor; [cbn; exists (f_name f), v; auto | now apply IH].
Qed.

Theorem un_interp_tuple_vals fs : forall d, un_interp_tuple V hs fs i = Ok d -> Forall from_handler d.
Proof.
  induction fs as [|f l IH]; intros d H; cbn [un_interp_tuple] in H; [inversion H; constructor|]. unfold getattr in H.
  destruct (assoc i (f_name f)) as [v|] eqn:Ea; cbn [bind] in H; try discriminate.
  destruct (hs (f_name f) v) as [w| |] eqn:Eh; cbn [bind] in H; try discriminate.
  destruct (un_interp_tuple V hs l i) as [rest| |]; cbn [bind] in H; try discriminate. inversion H; subst.
  constructor; [exists (f_name f), v; auto | now apply IH].
Qed.
End UP.

Section Prim.
Variable E : env.
Variable cfg : ccfg.
Hypothesis H_gen : c_gen cfg = true.
(* enum members have primitive values *)
Hypothesis H_enum : forall en v, In v (e_enum E en) -> primitive v = true.

Notation un := (unstructure E cfg).

Lemma map_res_f2 {A B} (f : A -> result B) l : forall r, map_res f l = Ok r -> Forall2 (fun x y => f x = Ok y) l r.
Proof.
  induction l as [|x l IHl]; intros r H; cbn [map_res] in H; [inversion H; constructor|].
  destruct (f x) as [y| |] eqn:Ef; cbn [bind] in H; try discriminate.
  destruct (map_res f l) as [ys| |]; cbn [bind] in H; try discriminate. inversion H; subst. constructor; auto.
Qed.

Lemma forall2_prim (P : val -> val -> Prop) l r : Forall2 P l r -> (forall x y, In x l -> P x y -> primitive y = true) -> forallb primitive r = true.
Proof.
  induction 1 as [|x y l r Hxy _ IH]; intros H; [reflexivity|]. cbn. rewrite (H x y) by (auto; now left). cbn. apply IH. intros a b Ha. apply H. now right.
Qed.

Lemma dict_of_pairs_ok (PK PV : val -> Prop) l : forall acc d, dict_of_pairs acc l = Ok d ->
  Forall (pair_ok PK PV) acc -> Forall (pair_ok PK PV) l -> Forall (pair_ok PK PV) d.
Proof.
  induction l as [|[k v] l IH]; intros acc d H Ha Hl; cbn [dict_of_pairs] in H; [now inversion H; subst|].
  destruct (dict_put acc k v) as [acc'| |] eqn:Ep; cbn [bind] in H; try discriminate. inversion Hl as [|? ? [H1 H2] Hr]; subst.
  eapply IH; [exact H | | exact Hr]. eapply dict_put_ok; eauto.
Qed.

Theorem unstructure_primitive : forall n t x u, uval E x t -> un n t x = Ok u -> primitive u = true.
Proof.
  induction n as [|n IH]; intros t x u Hv Hu; [discriminate|].
  inversion Hv; subst; clear Hv; cbn [unstructure] in Hu; rewrite H_gen in Hu.
  - inversion Hu. reflexivity.
  - destruct x; try contradiction; eapply IH; eassumption.
  - inversion Hu. reflexivity.
  - unfold member_value in Hu. destruct (nth_error (e_enum E en) (N.to_nat i)) eqn:En; inversion Hu; subst.
    eapply H_enum. eapply nth_error_In. exact En.
  - inversion Hu; subst. assumption.
  - cbn [iter_val bind] in Hu. destruct (map_res (un n t0) l) as [r| |] eqn:Em; cbn [bind] in Hu; try discriminate. inversion Hu; subst. cbn.
    apply map_res_f2 in Em. eapply forall2_prim; [exact Em|]. intros a b Ha Hab. rewrite Forall_forall in H. eapply IH; [apply H; exact Ha | exact Hab].
  - cbn [iter_val bind] in Hu. destruct (map_res (un n t0) l) as [r| |] eqn:Em; cbn [bind] in Hu; try discriminate. inversion Hu; subst. cbn.
    apply map_res_f2 in Em. eapply forall2_prim; [exact Em|]. intros a b Ha Hab. rewrite Forall_forall in H. eapply IH; [apply H; exact Ha | exact Hab].
  - destruct (Nat.ltb _ _); [discriminate|]. destruct (zip_fast (un n) ts l) as [r| |] eqn:Ez; cbn [bind] in Hu; try discriminate. inversion Hu; subst. cbn.
    clear Hu. revert r Ez. induction H as [|a t0 l ts Hat _ IHf]; intros r Ez; cbn [zip_fast] in Ez; [inversion Ez; reflexivity|].
    destruct (un n t0 a) as [b| |] eqn:Eb; cbn [bind] in Ez; try discriminate.
    destruct (zip_fast (un n) ts l) as [bs| |] eqn:Ebs; cbn [bind] in Ez; try discriminate. inversion Ez; subst. cbn.
    rewrite (IH _ _ _ Hat Eb). cbn. now apply IHf.
  - cbn [iter_val bind] in Hu. destruct (map_res (un n t0) l) as [r| |] eqn:Em; cbn [bind] in Hu; try discriminate.
    destruct (set_of_list [] r) as [s| |] eqn:Es; cbn [bind] in Hu; try discriminate. inversion Hu; subst. cbn.
    apply map_res_f2 in Em. apply forallb_forall. intros y Hy. destruct (set_of_list_in _ _ _ Es y Hy) as [[]|Hr].
    rewrite Forall_forall in H. clear -Em Hr H IH. induction Em as [|a b l r Hab _ IHm]; [contradiction|].
    destruct Hr as [<-|Hr]; [eapply IH; [apply H; now left | exact Hab]|]. apply IHm; [|exact Hr]. intros z Hz. apply H. now right.
  - cbn [iter_val bind] in Hu. destruct (map_res (un n t0) l) as [r| |] eqn:Em; cbn [bind] in Hu; try discriminate.
    destruct (set_of_list [] r) as [s| |] eqn:Es; cbn [bind] in Hu; try discriminate. inversion Hu; subst. cbn.
    apply map_res_f2 in Em. apply forallb_forall. intros y Hy. destruct (set_of_list_in _ _ _ Es y Hy) as [[]|Hr].
    rewrite Forall_forall in H. clear -Em Hr H IH. induction Em as [|a b l r Hab _ IHm]; [contradiction|].
    destruct Hr as [<-|Hr]; [eapply IH; [apply H; now left | exact Hab]|]. apply IHm; [|exact Hr]. intros z Hz. apply H. now right.
  - cbn [items_val bind] in Hu. unfold un_pairs in Hu. destruct (map_res _ kvs) as [ps| |] eqn:Em; cbn [bind] in Hu; try discriminate.
    destruct (dict_of_pairs [] ps) as [d| |] eqn:Ed; cbn [bind] in Hu; try discriminate. inversion Hu; subst. cbn.
    apply map_res_f2 in Em.
    assert (Hps : Forall (pair_ok (fun k => primitive k = true) (fun v => primitive v = true)) ps).
    { clear -Em H IH. induction Em as [|kv p kvs ps Hp _ IHm]; [constructor|]. inversion H as [|? ? [Hk Hv] Hr]; subst.
      constructor; [|now apply IHm]. cbn in Hp.
      destruct (un n kt (fst kv)) as [k'| |] eqn:Ek; cbn [bind] in Hp; try discriminate.
      destruct (un n vt (snd kv)) as [v'| |] eqn:Ev; cbn [bind] in Hp; try discriminate. inversion Hp; subst. split; cbn; [eapply (IH kt); [exact Hk | exact Ek] | eapply (IH vt); [exact Hv | exact Ev]]. }
    pose proof (dict_of_pairs_ok _ _ _ _ _ Ed (Forall_nil _) Hps) as Hd.
    apply forallb_forall. intros kv Hkv. rewrite Forall_forall in Hd. destruct (Hd kv Hkv) as [H1 H2]. now rewrite H1, H2.
  - inversion Hu. reflexivity.
  - destruct x; try (eapply IH; eassumption). inversion Hu. reflexivity.
  - (* class *)
    rewrite H in Hu. cbn [inst_fields] in Hu.
    match type of Hu with context [un_interp_tuple _ ?h _ _] => set (hs := h) in Hu end.
    assert (HH : forall w, from_handler val hs i w -> primitive w = true).
    { intros w (nm & v & Ea & Eh). unfold hs in Eh. specialize (H0 nm v Ea). unfold field_ty in H0.
      destruct (assoc (cd_types cd) nm) as [ft|]; [eapply IH; eassumption|].
      inversion H0; subst; [inversion Eh; reflexivity|]. destruct v; try contradiction; eapply IH; eassumption. }
    destruct (c_tuple cfg).
    + destruct (un_interp_tuple val hs (cd_fields cd) i) as [l| |] eqn:El; cbn [bind] in Hu; try discriminate. inversion Hu; subst. cbn.
      apply forallb_forall. intros w Hw. apply HH. pose proof (un_interp_tuple_vals _ _ _ _ _ El) as F. rewrite Forall_forall in F. now apply F.
    + destruct (un_gen val val_eqb (topt cfg c) nov hs (cd_fields cd) i) as [d| |] eqn:Eg; cbn [bind] in Hu; try discriminate. inversion Hu; subst. cbn.
      apply forallb_forall. intros kv Hkv. apply in_map_iff in Hkv. destruct Hkv as ([k w] & <- & Hin). cbn.
      apply HH. pose proof (un_gen_vals _ _ _ _ _ _ _ _ Eg) as F. rewrite Forall_forall in F. exact (F _ Hin).
  - eapply IH; eassumption.
  - eapply IH; eassumption.
Qed.

End Prim.

(* ================= BaseConverter: collections go by the runtime class of their elements ================= *)
Section RuntimeView.
Variable E : env.

(* a primitive value is a value of Any (seen through its runtime class) *)
Lemma prim_uval : forall v, primitive v = true -> uval E v TAny.
Proof.
  fix IH 1. intros v Hp. destruct v as [|p e|en i|l|l|l|l|kvs|c fs]; cbn [primitive] in Hp; try discriminate.
  - constructor.
  - apply UAny; [discriminate|]. cbn. constructor.
  - apply UAny; [discriminate|]. cbn. constructor. induction l as [|x l IHl]; constructor; cbn in Hp; apply andb_true_iff in Hp; destruct Hp; auto.
  - apply UAny; [discriminate|]. cbn. constructor. induction l as [|x l IHl]; constructor; cbn in Hp; apply andb_true_iff in Hp; destruct Hp; auto.
  - apply UAny; [discriminate|]. cbn. constructor. induction l as [|x l IHl]; constructor; cbn in Hp; apply andb_true_iff in Hp; destruct Hp; auto.
  - apply UAny; [discriminate|]. cbn. constructor. induction l as [|x l IHl]; constructor; cbn in Hp; apply andb_true_iff in Hp; destruct Hp; auto.
  - apply UAny; [discriminate|]. cbn. constructor. induction kvs as [|[k x] kvs IHl]; constructor; cbn in Hp; apply andb_true_iff in Hp; destruct Hp as [Hkx Hr].
    + apply andb_true_iff in Hkx. destruct Hkx. cbn. split; auto.
    + auto.
Qed.

(* every value of a type is a value of Any: what the type announces is what the runtime classes show *)
Lemma uval_any : forall x t, uval E x t -> uval E x TAny.
Proof.
  fix IH 3. intros x t H. destruct H as [|v Hne H'|p e|en i|v vs Hp|l t HF|l t HF|l ts HF|l t HF|l t HF|kvs kt vt HF| t|v t H'|c cd i Hc Hf|n t v H'|t v H'].
  - constructor.
  - now apply UAny.
  - apply UAny; [discriminate|]. cbn. constructor.
  - apply UAny; [discriminate|]. cbn. constructor.
  - now apply prim_uval.
  - apply UAny; [discriminate|]. cbn. constructor. induction HF as [|a l' Ha _ IHf]; constructor; [exact (IH _ _ Ha) | exact IHf].
  - apply UAny; [discriminate|]. cbn. constructor. induction HF as [|a l' Ha _ IHf]; constructor; [exact (IH _ _ Ha) | exact IHf].
  - apply UAny; [discriminate|]. cbn. constructor. induction HF as [|a t0 l' ts' Ha _ IHf]; constructor; [exact (IH _ _ Ha) | exact IHf].
  - apply UAny; [discriminate|]. cbn. constructor. induction HF as [|a l' Ha _ IHf]; constructor; [exact (IH _ _ Ha) | exact IHf].
  - apply UAny; [discriminate|]. cbn. constructor. induction HF as [|a l' Ha _ IHf]; constructor; [exact (IH _ _ Ha) | exact IHf].
  - apply UAny; [discriminate|]. cbn. constructor. induction HF as [|a l' [Hk Hv] _ IHf]; constructor; [split; [exact (IH _ _ Hk) | exact (IH _ _ Hv)] | exact IHf].
  - constructor.
  - exact (IH _ _ H').
  - apply UAny; [discriminate|]. cbn. econstructor; eassumption.
  - exact (IH _ _ H').
  - exact (IH _ _ H').
Qed.

Lemma uval_rt x t : uval E x t -> x <> VNone -> uval E x (rt_type x).
Proof. intros H Hne. apply uval_any in H. inversion H; subst; [contradiction | assumption]. Qed.
End RuntimeView.

Section PrimBase.
Variable E : env.
Variable cfg : ccfg.
Hypothesis H_base : c_gen cfg = false.
Hypothesis H_enum : forall en v, In v (e_enum E en) -> primitive v = true.

(* the types BaseConverter has unstructure hooks for: no heterogeneous tuples, NewTypes or Annotated (the fallback
   returns such values unchanged) -- at top level and as declared attribute types; inside collections the declared
   element type plays no part (elements go by their runtime class) *)
Definition base_ty (t : ty) : bool := match t with TTuple _ | TNewType _ _ | TAnnot _ => false | _ => true end.
Hypothesis H_env : forall c cd nm ft, e_class E c = Some cd -> assoc (cd_types cd) nm = Some ft -> base_ty ft = true.

Notation un := (unstructure E cfg).

Lemma rt_base (x : val) : base_ty (rt_type x) = true.
Proof. destruct x; reflexivity. Qed.

Theorem base_unstructure_primitive : forall n t x u, base_ty t = true -> uval E x t -> un n t x = Ok u -> primitive u = true.
Proof.
  induction n as [|n IH]; intros t x u Hb Hv Hu; [discriminate|].
  assert (BY : forall y w, uval E y TAny -> match y with VNone => Ok VNone | _ => un n (rt_type y) y end = Ok w -> primitive w = true).
  { intros y w Hy Hw. assert (Hd : y = VNone \/ y <> VNone) by (destruct y; [left; reflexivity | right; discriminate ..]).
    destruct Hd as [->|Hne]; [inversion Hw; reflexivity|].
    assert (Hw' : un n (rt_type y) y = Ok w) by (destruct y; try exact Hw; contradiction).
    eapply IH; [apply rt_base | eapply uval_rt; [exact Hy | exact Hne] | exact Hw']. }
  assert (COLL : forall l r, Forall (fun y => uval E y TAny) l ->
            map_res (fun y => match y with VNone => Ok VNone | _ => un n (rt_type y) y end) l = Ok r -> forallb primitive r = true).
  { intros l r HF Em. apply map_res_f2 in Em. eapply forall2_prim; [exact Em|]. intros a b Ha Hab. rewrite Forall_forall in HF. eapply BY; [apply HF; exact Ha | exact Hab]. }
  assert (ANY : forall l t0, Forall (fun y => uval E y t0) l -> Forall (fun y => uval E y TAny) l).
  { intros l t0 HF. eapply Forall_impl; [|exact HF]. intros a Ha. eapply uval_any; exact Ha. }
  inversion Hv; subst; clear Hv; cbn [unstructure] in Hu; rewrite H_base in Hu; try discriminate Hb.
  - (* Any: None *) inversion Hu. reflexivity.
  - (* Any: by runtime class *) eapply BY; [apply UAny; eassumption | exact Hu].
  - (* prim *) inversion Hu. reflexivity.
  - (* enum *) unfold member_value in Hu. destruct (nth_error (e_enum E en) (N.to_nat i)) eqn:En; inversion Hu; subst.
    eapply H_enum. eapply nth_error_In. exact En.
  - (* literal *) inversion Hu; subst. assumption.
  - (* list *) cbn [iter_val bind] in Hu. destruct (map_res _ l) as [r| |] eqn:Em; cbn [bind same_class] in Hu; try discriminate. inversion Hu; subst. cbn.
    eapply COLL; [eapply ANY; eassumption | exact Em].
  - (* homogeneous tuple *) cbn [iter_val bind] in Hu. destruct (map_res _ l) as [r| |] eqn:Em; cbn [bind same_class] in Hu; try discriminate. inversion Hu; subst. cbn.
    eapply COLL; [eapply ANY; eassumption | exact Em].
  - (* set *) cbn [iter_val bind] in Hu. destruct (map_res _ l) as [r| |] eqn:Em; cbn [bind same_class] in Hu; try discriminate.
    destruct (set_of_list [] r) as [s| |] eqn:Es; cbn [bind] in Hu; try discriminate. inversion Hu; subst. cbn.
    pose proof (COLL l r (ANY _ _ H) Em) as Hr. rewrite forallb_forall in Hr. apply forallb_forall. intros y Hy.
    destruct (set_of_list_in _ _ _ Es y Hy) as [[]|Hin]. now apply Hr.
  - (* frozenset *) cbn [iter_val bind] in Hu. destruct (map_res _ l) as [r| |] eqn:Em; cbn [bind same_class] in Hu; try discriminate.
    destruct (set_of_list [] r) as [s| |] eqn:Es; cbn [bind] in Hu; try discriminate. inversion Hu; subst. cbn.
    pose proof (COLL l r (ANY _ _ H) Em) as Hr. rewrite forallb_forall in Hr. apply forallb_forall. intros y Hy.
    destruct (set_of_list_in _ _ _ Es y Hy) as [[]|Hin]. now apply Hr.
  - (* mapping *) cbn [items_val bind] in Hu. unfold un_pairs in Hu. destruct (map_res _ kvs) as [ps| |] eqn:Em; cbn [bind] in Hu; try discriminate.
    destruct (dict_of_pairs [] ps) as [d| |] eqn:Ed; cbn [bind] in Hu; try discriminate. inversion Hu; subst. cbn.
    apply map_res_f2 in Em.
    assert (Hps : Forall (pair_ok (fun k => primitive k = true) (fun v => primitive v = true)) ps).
    { clear -Em H BY. induction Em as [|kv p kvs ps Hp _ IHm]; [constructor|]. inversion H as [|? ? [Hk Hv] Hr]; subst.
      constructor; [|now apply IHm]. cbn in Hp.
      match type of Hp with (do k <- ?A; _) = _ => destruct A as [k'| |] eqn:Ek; cbn [bind] in Hp; try discriminate end.
      match type of Hp with (do v <- ?A; _) = _ => destruct A as [v'| |] eqn:Ev; cbn [bind] in Hp; try discriminate end.
      inversion Hp; subst. split; cbn; [eapply BY; [eapply uval_any; exact Hk | exact Ek] | eapply BY; [eapply uval_any; exact Hv | exact Ev]]. }
    pose proof (dict_of_pairs_ok _ _ _ _ _ Ed (Forall_nil _) Hps) as Hd.
    apply forallb_forall. intros kv Hkv. rewrite Forall_forall in Hd. destruct (Hd kv Hkv) as [H1 H2]. now rewrite H1, H2.
  - (* Optional: None *) inversion Hu. reflexivity.
  - (* Optional: a value, by runtime class *) eapply BY; [eapply uval_any; eassumption | exact Hu].
  - (* class *)
    rewrite H in Hu. cbn [inst_fields] in Hu.
    match type of Hu with context [un_interp_tuple _ ?h _ _] => set (hs := h) in Hu end.
    assert (HH : forall w, from_handler val hs i w -> primitive w = true).
    { intros w (nm & v & Ea & Eh). unfold hs in Eh. specialize (H0 nm v Ea). unfold field_ty in H0.
      destruct (assoc (cd_types cd) nm) as [ft|] eqn:Et; [eapply IH; [eapply H_env; eassumption | exact H0 | exact Eh]|].
      eapply BY; [exact H0 | exact Eh]. }
    destruct (c_tuple cfg).
    + destruct (un_interp_tuple val hs (cd_fields cd) i) as [l| |] eqn:El; cbn [bind] in Hu; try discriminate. inversion Hu; subst. cbn.
      apply forallb_forall. intros w Hw. apply HH. pose proof (un_interp_tuple_vals _ _ _ _ _ El) as F. rewrite Forall_forall in F. now apply F.
    + destruct (un_interp_dict val hs (cd_fields cd) i) as [d| |] eqn:Eg; cbn [bind] in Hu; try discriminate. inversion Hu; subst. cbn.
      apply forallb_forall. intros kv Hkv. apply in_map_iff in Hkv. destruct Hkv as ([k w] & <- & Hin). cbn.
      apply HH. pose proof (un_interp_dict_vals _ _ _ _ _ Eg) as F. rewrite Forall_forall in F. exact (F _ Hin).
Qed.

End PrimBase.
