(* TdRoundtrip.v -- TypedDict round trip at the template level (gen/typeddicts.py, no overrides):
   unstructuring an instance and structuring the result, with either template, gives the instance back --
   every key, declared or not, in its original position. *)
From Coq Require Import List NArith Bool Lia.
From V.Model Require Import Base Templates TdTemplates.
From V.Proofs Require Import TemplatesProofs TdProofs.
Import ListNotations.

Section TdRt.
Variable V : Type.
Variable opt : tdopts.
Variable hu hs : N -> V -> result V.        (* per-key unstructure / structure handlers *)
Variable idh : N -> bool.                   (* the unstructure handler of key n is the identity *)
Let ov : N -> fov := fun _ => neutral.
Variable d : list (N * V).                  (* the instance *)
Hypothesis Hnd : NoDup (keys d).

Definition nonid (f : tdfield) : bool := negb (idh (d_name f)).
Definition ugood (f : tdfield) : bool := idh (d_name f) || tgood V hu d f.
Definition mU (fs : list tdfield) (k : N) : bool := mem_N k (map d_name (filter nonid fs)).

Lemma un_loop_good l : forall m,
  forallb ugood l = true ->
  td_un_loop V ov hu idh d l (curS V hu d m) = Ok (curS V hu d (fun k => mU l k || m k)).
Proof.
  induction l as [|f l IH]; intros m Hg; [reflexivity|].
  cbn [forallb] in Hg. apply andb_true_iff in Hg as [Hf Hl]. unfold ugood in Hf.
  cbn [td_un_loop]. change (ov_omit (ov (d_name f))) with (@None bool).
  change (ov_rename (ov (d_name f))) with (@None N). cbv iota. rewrite andb_true_r.
  unfold mU. cbn [filter]. unfold nonid at 1.
  destruct (idh (d_name f)) eqn:Hi; cbn [negb].
  - apply IH. exact Hl.
  - cbn [orb] in Hf. unfold tgood in Hf. unfold td_key. cbn [ov_rename ov neutral].
    destruct (assoc d (d_name f)) as [v|] eqn:Ha.
    + destruct (hu (d_name f) v) as [w| |] eqn:Hh; try discriminate.
      assert (E : td_un_loop V ov hu idh d l (dict_set (curS V hu d m) (d_name f) w)
                  = Ok (curS V hu d (fun k => mem_N k (map d_name (f :: filter nonid l)) || m k))).
      { rewrite (set_cur V hu d Hnd m _ v w Ha Hh). rewrite (IH _ Hl). f_equal. apply curS_ext. intros k _.
        unfold mU, mem_N. cbn. rewrite (N.eqb_sym k (d_name f)).
        destruct (N.eqb (d_name f) k), (existsb (N.eqb k) (map d_name (filter nonid l))), (m k); reflexivity. }
      cbn [bind]. rewrite (proj2 (mem_N_in _ _) (assoc_in_keys _ _ _ Ha)).
      destruct (d_required f); exact E.
    + destruct (d_required f); [discriminate|].
      rewrite (mem_N_false _ _ (assoc_notin_keys _ _ Ha)).
      rewrite (IH m Hl). f_equal. apply curS_ext. intros k Hk. unfold mU, mem_N. cbn.
      destruct (N.eqb_spec k (d_name f)) as [->|]; [|reflexivity].
      exfalso. eapply assoc_notin_keys; eassumption.
Qed.

Lemma mU_of_field fs f : In f fs -> mU fs (d_name f) = negb (idh (d_name f)).
Proof.
  intros Hin. unfold mU. destruct (idh (d_name f)) eqn:Hi; cbn.
  - apply mem_N_false. intros X. apply in_map_iff in X as [g [E Hg]]. apply filter_In in Hg as [_ Hg].
    unfold nonid in Hg. rewrite E, Hi in Hg. discriminate.
  - apply mem_N_in. apply in_map_iff. exists f. split; [reflexivity|]. apply filter_In. split; [exact Hin|].
    unfold nonid. now rewrite Hi.
Qed.

Lemma mU_sub fs k : mU fs k = true -> mem_N k (map d_name fs) = true.
Proof.
  unfold mU. intros H. apply mem_N_in in H. apply mem_N_in. apply in_map_iff in H as [g [E Hg]].
  apply filter_In in Hg as [Hg _]. apply in_map_iff. now exists g.
Qed.

Lemma assoc_curS (h : N -> V -> result V) m k :
  assoc (curS V h d m) k = option_map (fun v => if m k then nv V h k v else v) (assoc d k).
Proof.
  unfold curS. clear Hnd. induction d as [|[k' x] l IH]; cbn; [reflexivity|].
  destruct (N.eqb_spec k' k) as [->|Hne]; [reflexivity | exact IH].
Qed.

Lemma keys_curS (h : N -> V -> result V) m : keys (curS V h d m) = keys d.
Proof. unfold curS, keys. rewrite map_map. reflexivity. Qed.

Lemma in_assoc_nodup k x : In (k, x) d -> assoc d k = Some x.
Proof.
  intros Hin. destruct (assoc d k) as [v|] eqn:Ha.
  - f_equal. symmetry. eapply assoc_nodup_in; eassumption.
  - exfalso. eapply assoc_notin_keys; [exact Ha|]. unfold keys. apply in_map_iff. now exists (k, x).
Qed.

Variable fs : list tdfield.
Hypothesis Hreq : forall f, In f fs -> d_required f = true -> In (d_name f) (keys d).
Hypothesis Hinv : forall f v, In f fs -> assoc d (d_name f) = Some v ->
  if idh (d_name f) then hs (d_name f) v = Ok v
  else exists w, hu (d_name f) v = Ok w /\ hs (d_name f) w = Ok v.
Hypothesis Hforbid : td_forbid opt = true -> forall k, In k (keys d) -> In k (map d_name fs).

Let d' := curS V hu d (mU fs).

Lemma back f v : In f fs -> assoc d (d_name f) = Some v ->
  hs (d_name f) (if mU fs (d_name f) then nv V hu (d_name f) v else v) = Ok v.
Proof.
  intros Hin Ha. rewrite (mU_of_field fs f Hin). pose proof (Hinv f v Hin Ha) as H.
  destruct (idh (d_name f)); cbn; [exact H|]. destruct H as [w [H1 H2]]. unfold nv. now rewrite H1.
Qed.

Lemma ugood_all : forallb ugood fs = true.
Proof.
  apply forallb_forall. intros f Hin. unfold ugood, tgood.
  destruct (idh (d_name f)) eqn:Hi; [reflexivity|]. cbn.
  destruct (assoc d (d_name f)) as [v|] eqn:Ha.
  - pose proof (Hinv f v Hin Ha) as H. rewrite Hi in H. destruct H as [w [H _]]. now rewrite H.
  - destruct (d_required f) eqn:Hr; [|reflexivity]. exfalso.
    eapply assoc_notin_keys; [exact Ha|]. now apply Hreq.
Qed.

Lemma spec_back : td_spec V opt hs d' fs = Some d.
Proof.
  unfold td_spec.
  assert (Hg : forallb (tgood V hs d') fs = true).
  { apply forallb_forall. intros f Hin. unfold tgood, d'. rewrite assoc_curS.
    destruct (assoc d (d_name f)) as [v|] eqn:Ha; cbn.
    - now rewrite (back f v Hin Ha).
    - destruct (d_required f) eqn:Hr; [|reflexivity]. exfalso.
      eapply assoc_notin_keys; [exact Ha|]. now apply Hreq. }
  assert (Hf : td_forbid_ok V opt d' fs = true).
  { unfold td_forbid_ok. destruct (td_forbid opt) eqn:Hfb; [|reflexivity]. cbn.
    unfold d'. rewrite keys_curS. unfold td_unknown, td_allowed. rewrite td_included_all.
    assert (X : filter (fun k => negb (mem_N k (map (td_key ov) fs))) (keys d) = []).
    { specialize (Hforbid eq_refl). clear -Hforbid. induction (keys d) as [|k l IH]; [reflexivity|]. cbn.
      assert (Y : mem_N k (map (td_key ov) fs) = true) by (apply mem_N_in; apply Hforbid; now left).
      rewrite Y. cbn. apply IH. intros k' Hk'. apply Hforbid. now right. }
    fold ov. now rewrite X. }
  rewrite Hg, Hf. cbn. f_equal.
  unfold curS at 1. unfold d', curS. rewrite map_map. rewrite <- (map_id d) at 2.
  apply map_ext_in. intros [k x] Hin. cbn. f_equal.
  pose proof (in_assoc_nodup k x Hin) as Ha.
  destruct (mem_N k (map d_name fs)) eqn:Hm.
  - apply mem_N_in, in_map_iff in Hm as [f [E Hfin]]. subst k.
    unfold nv at 1. now rewrite (back f x Hfin Ha).
  - destruct (mU fs k) eqn:Hu; [|reflexivity]. apply mU_sub in Hu. congruence.
Qed.

Lemma nodup_d' : NoDup (keys d').
Proof. unfold d'. now rewrite keys_curS. Qed.

Theorem td_roundtrip :
  exists u, td_unstruct V ov hu idh fs d = Ok u /\
    let p := match u with Some x => x | None => d end in
    to_opt (td_detailed V opt ov hs fs (dict_obj p)) = Some (Some d) /\
    to_opt (td_fast V opt ov hs fs (dict_obj p)) = Some (Some d).
Proof.
  assert (Hp : forall p, p = d' ->
    to_opt (td_detailed V opt ov hs fs (dict_obj p)) = Some (Some d) /\
    to_opt (td_fast V opt ov hs fs (dict_obj p)) = Some (Some d)).
  { intros p ->. unfold ov. rewrite (td_detailed_refines_spec V opt hs d' nodup_d' fs), (td_fast_refines_spec V opt hs d' nodup_d' fs).
    rewrite spec_back. split; reflexivity. }
  unfold td_unstruct.
  destruct (forallb (fun f => fov_neutral (ov (d_name f)) && idh (d_name f)) fs) eqn:Hall.
  - exists None. split; [reflexivity|]. apply Hp.
    unfold d'. rewrite <- (curS_none V hu d) at 1. apply curS_ext. intros k _.
    unfold mU. replace (filter nonid fs) with (@nil tdfield); [reflexivity|].
    symmetry. clear -Hall. induction fs as [|f l IH]; [reflexivity|]. cbn in Hall.
    apply andb_true_iff in Hall as [Hf Hl]. cbn. unfold nonid at 1. cbn in Hf. rewrite Hf. cbn. now apply IH.
  - pose proof (un_loop_good fs (fun _ => false) ugood_all) as E. rewrite curS_none in E. rewrite E. cbn [bind].
    eexists. split; [reflexivity|]. apply Hp. unfold d'. apply curS_ext. intros k _. now rewrite orb_false_r.
Qed.

End TdRt.
