(* ConvMono.v -- fuel is only a bound: once unstructure returns a value with some fuel, it returns the same value with any
   larger fuel (both converter classes, both strategies).  This turns the same-fuel theorems into statements about every
   sufficiently large fuel. *)
From Coq Require Import Lia.
From V.Model Require Import Base Templates Conv.

Section HandlerMono.
Variable V : Type.
Variable veq : V -> V -> bool.
Variable opt : topts.
Variable ov : N -> fov.
Variables hs hs' : N -> V -> result V.
Hypothesis H_hs : forall nm v w, hs nm v = Ok w -> hs' nm v = Ok w.

Lemma un_literal_mono fs i : forall lit, un_literal V opt ov hs fs i = Ok lit -> un_literal V opt ov hs' fs i = Ok lit.
Proof.
  induction fs as [|f fs IH]; intros lit H; cbn [un_literal] in *; [exact H|].
  destruct (omit_default V opt ov f); [now apply IH|].
  destruct (getattr V i (f_name f)) as [v| |]; cbn [bind] in *; try discriminate.
  destruct (hs (f_name f) v) as [w| |] eqn:Eh; cbn [bind] in H; try discriminate. rewrite (H_hs _ _ _ Eh). cbn [bind].
  destruct (un_literal V opt ov hs fs i) as [rest| |]; cbn [bind] in H; try discriminate. rewrite (IH rest eq_refl). exact H.
Qed.

Lemma un_cond_mono fs i : forall res d, un_cond V veq opt ov hs fs i res = Ok d -> un_cond V veq opt ov hs' fs i res = Ok d.
Proof.
  induction fs as [|f fs IH]; intros res d H; cbn [un_cond] in *; [exact H|].
  destruct (omit_default V opt ov f); [|now apply IH].
  destruct (getattr V i (f_name f)) as [v| |]; cbn [bind] in *; try discriminate.
  destruct (f_dflt f) as [dv|]; [|now apply IH].
  destruct (veq v dv); [now apply IH|].
  destruct (hs (f_name f) v) as [w| |] eqn:Eh; cbn [bind] in H; try discriminate. rewrite (H_hs _ _ _ Eh). cbn [bind]. now apply IH.
Qed.

Lemma un_gen_mono fs i d : un_gen V veq opt ov hs fs i = Ok d -> un_gen V veq opt ov hs' fs i = Ok d.
Proof.
  unfold un_gen. intros H. destruct (un_literal V opt ov hs _ i) as [lit| |] eqn:El; cbn [bind] in H; try discriminate.
  rewrite (un_literal_mono _ _ _ El). cbn [bind]. now apply un_cond_mono.
Qed.

Lemma un_interp_dict_mono fs i : forall d, un_interp_dict V hs fs i = Ok d -> un_interp_dict V hs' fs i = Ok d.
Proof.
  induction fs as [|f fs IH]; intros d H; cbn [un_interp_dict] in *; [exact H|].
  destruct (getattr V i (f_name f)) as [v| |]; cbn [bind] in *; try discriminate.
  destruct (hs (f_name f) v) as [w| |] eqn:Eh; cbn [bind] in H; try discriminate. rewrite (H_hs _ _ _ Eh). cbn [bind].
  destruct (un_interp_dict V hs fs i) as [rest| |]; cbn [bind] in H; try discriminate. rewrite (IH rest eq_refl). exact H.
Qed.

Lemma un_interp_tuple_mono fs i : forall d, un_interp_tuple V hs fs i = Ok d -> un_interp_tuple V hs' fs i = Ok d.
Proof.
  induction fs as [|f fs IH]; intros d H; cbn [un_interp_tuple] in *; [exact H|].
  destruct (getattr V i (f_name f)) as [v| |]; cbn [bind] in *; try discriminate.
  destruct (hs (f_name f) v) as [w| |] eqn:Eh; cbn [bind] in H; try discriminate. rewrite (H_hs _ _ _ Eh). cbn [bind].
  destruct (un_interp_tuple V hs fs i) as [rest| |]; cbn [bind] in H; try discriminate. rewrite (IH rest eq_refl). exact H.
Qed.
End HandlerMono.

Lemma map_res_mono {A B} (f g : A -> result B) l : (forall x y, f x = Ok y -> g x = Ok y) ->
  forall r, map_res f l = Ok r -> map_res g l = Ok r.
Proof.
  intros Hfg. induction l as [|x l IH]; intros r H; cbn [map_res] in *; [exact H|].
  destruct (f x) as [y| |] eqn:Ef; cbn [bind] in H; try discriminate. rewrite (Hfg _ _ Ef). cbn [bind].
  destruct (map_res f l) as [ys| |]; cbn [bind] in H; try discriminate. rewrite (IH ys eq_refl). exact H.
Qed.

Lemma zip_fast_mono (f g : ty -> val -> result val) ts : (forall t x y, f t x = Ok y -> g t x = Ok y) ->
  forall l r, zip_fast f ts l = Ok r -> zip_fast g ts l = Ok r.
Proof.
  intros Hfg. induction ts as [|t ts IH]; intros l r H; cbn [zip_fast] in *; [exact H|].
  destruct l as [|x l]; [exact H|].
  destruct (f t x) as [y| |] eqn:Ef; cbn [bind] in H; try discriminate. rewrite (Hfg _ _ _ Ef). cbn [bind].
  destruct (zip_fast f ts l) as [ys| |] eqn:Ez; cbn [bind] in H; try discriminate. rewrite (IH _ _ Ez). exact H.
Qed.

Section Mono.
Variable E : env.
Variable cfg : ccfg.
Notation un := (unstructure E cfg).

Theorem un_mono : forall n t x u, un n t x = Ok u -> un (S n) t x = Ok u.
Proof.
  induction n as [|n IH]; intros t x u H; [discriminate|].
  assert (BY : forall y w, match y with VNone => Ok VNone | _ => un n (rt_type y) y end = Ok w ->
                           match y with VNone => Ok VNone | _ => un (S n) (rt_type y) y end = Ok w).
  { intros y w Hy. destruct y; try exact Hy; now apply IH. }
  assert (PAIRS : forall (f g : val -> result val), (forall a b, f a = Ok b -> g a = Ok b) ->
            forall kvs d, un_pairs f f kvs = Ok d -> un_pairs g g kvs = Ok d).
  { intros f g Hfg kvs d Hp. unfold un_pairs in *. destruct (map_res _ kvs) as [ps| |] eqn:Em; cbn [bind] in Hp; try discriminate.
    erewrite map_res_mono; [cbn [bind]; exact Hp | | exact Em].
    intros kv p Hkv. cbn in *. destruct (f (fst kv)) as [k'| |] eqn:Ek; cbn [bind] in Hkv; try discriminate.
    destruct (f (snd kv)) as [v'| |] eqn:Ev; cbn [bind] in Hkv; try discriminate. now rewrite (Hfg _ _ Ek), (Hfg _ _ Ev). }
  assert (PAIRS2 : forall (fk fv gk gv : val -> result val), (forall a b, fk a = Ok b -> gk a = Ok b) -> (forall a b, fv a = Ok b -> gv a = Ok b) ->
            forall kvs d, un_pairs fk fv kvs = Ok d -> un_pairs gk gv kvs = Ok d).
  { intros fk fv gk gv Hk Hv kvs d Hp. unfold un_pairs in *. destruct (map_res _ kvs) as [ps| |] eqn:Em; cbn [bind] in Hp; try discriminate.
    erewrite map_res_mono; [cbn [bind]; exact Hp | | exact Em].
    intros kv p Hkv. cbn in *. destruct (fk (fst kv)) as [k'| |] eqn:Ek; cbn [bind] in Hkv; try discriminate.
    destruct (fv (snd kv)) as [v'| |] eqn:Ev; cbn [bind] in Hkv; try discriminate. now rewrite (Hk _ _ Ek), (Hv _ _ Ev). }
  assert (CLASS : forall c,
            match e_class E c, inst_fields x with
            | Some cd, Some fs =>
                let hs := fun fname v => match assoc (cd_types cd) fname with Some ft => un n ft v | None => match v with VNone => Ok VNone | _ => un n (rt_type v) v end end in
                if c_tuple cfg then do l <- un_interp_tuple val hs (cd_fields cd) fs; Ok (VTuple l)
                else if c_gen cfg then do d <- un_gen val val_eqb (topt cfg c) nov hs (cd_fields cd) fs; Ok (VDict (map (fun kv => (skey (fst kv), snd kv)) d))
                else do d <- un_interp_dict val hs (cd_fields cd) fs; Ok (VDict (map (fun kv => (skey (fst kv), snd kv)) d))
            | None, _ => Ok x
            | _, None => Err EAttr
            end = Ok u ->
            match e_class E c, inst_fields x with
            | Some cd, Some fs =>
                let hs := fun fname v => match assoc (cd_types cd) fname with Some ft => un (S n) ft v | None => match v with VNone => Ok VNone | _ => un (S n) (rt_type v) v end end in
                if c_tuple cfg then do l <- un_interp_tuple val hs (cd_fields cd) fs; Ok (VTuple l)
                else if c_gen cfg then do d <- un_gen val val_eqb (topt cfg c) nov hs (cd_fields cd) fs; Ok (VDict (map (fun kv => (skey (fst kv), snd kv)) d))
                else do d <- un_interp_dict val hs (cd_fields cd) fs; Ok (VDict (map (fun kv => (skey (fst kv), snd kv)) d))
            | None, _ => Ok x
            | _, None => Err EAttr
            end = Ok u).
  { intros c Hc. destruct (e_class E c) as [cd|]; [|exact Hc]. destruct (inst_fields x) as [fs|]; [|exact Hc]. cbn zeta in *.
    set (hs := fun fname v => match assoc (cd_types cd) fname with Some ft => un n ft v | None => match v with VNone => Ok VNone | _ => un n (rt_type v) v end end) in *.
    set (hs' := fun fname v => match assoc (cd_types cd) fname with Some ft => un (S n) ft v | None => match v with VNone => Ok VNone | _ => un (S n) (rt_type v) v end end).
    assert (HH : forall nm v w, hs nm v = Ok w -> hs' nm v = Ok w).
    { intros nm v w Hw. unfold hs, hs' in *. destruct (assoc (cd_types cd) nm); [now apply IH | now apply BY]. }
    destruct (c_tuple cfg).
    - destruct (un_interp_tuple val hs (cd_fields cd) fs) as [l| |] eqn:El; cbn [bind] in Hc; try discriminate.
      rewrite (un_interp_tuple_mono val hs hs' HH _ _ _ El). exact Hc.
    - destruct (c_gen cfg).
      + destruct (un_gen val val_eqb (topt cfg c) nov hs (cd_fields cd) fs) as [d| |] eqn:Eg; cbn [bind] in Hc; try discriminate.
        rewrite (un_gen_mono val val_eqb (topt cfg c) nov hs hs' HH _ _ _ Eg). exact Hc.
      + destruct (un_interp_dict val hs (cd_fields cd) fs) as [d| |] eqn:Eg; cbn [bind] in Hc; try discriminate.
        rewrite (un_interp_dict_mono val hs hs' HH _ _ _ Eg). exact Hc. }
  remember (S n) as m eqn:Em. cbn [unstructure]. rewrite Em in H. cbn [unstructure] in H. subst m.
  destruct (c_gen cfg) eqn:Eg.
  - destruct t as [|p|en|vs|t|t|ts|t|t|kt vt|t|c|nt t|t]; try exact H.
    + now apply BY.
    + destruct (iter_val E x) as [l| |]; cbn [bind] in *; try discriminate.
      destruct (map_res (un n t) l) as [r| |] eqn:Er; cbn [bind] in H; try discriminate. now rewrite (map_res_mono _ _ l (IH t) _ Er).
    + destruct (iter_val E x) as [l| |]; cbn [bind] in *; try discriminate.
      destruct (map_res (un n t) l) as [r| |] eqn:Er; cbn [bind] in H; try discriminate. now rewrite (map_res_mono _ _ l (IH t) _ Er).
    + destruct x; try exact H.
      * destruct (Nat.ltb _ _); [exact H|]. destruct (zip_fast (un n) ts l) as [r| |] eqn:Er; cbn [bind] in H; try discriminate.
        now rewrite (zip_fast_mono _ _ ts IH _ _ Er).
      * destruct (Nat.ltb _ _); [exact H|]. destruct (zip_fast (un n) ts l) as [r| |] eqn:Er; cbn [bind] in H; try discriminate.
        now rewrite (zip_fast_mono _ _ ts IH _ _ Er).
    + destruct (iter_val E x) as [l| |]; cbn [bind] in *; try discriminate.
      destruct (map_res (un n t) l) as [r| |] eqn:Er; cbn [bind] in H; try discriminate. now rewrite (map_res_mono _ _ l (IH t) _ Er).
    + destruct (iter_val E x) as [l| |]; cbn [bind] in *; try discriminate.
      destruct (map_res (un n t) l) as [r| |] eqn:Er; cbn [bind] in H; try discriminate. now rewrite (map_res_mono _ _ l (IH t) _ Er).
    + destruct (items_val x) as [kvs| |]; cbn [bind] in *; try discriminate.
      destruct (un_pairs (un n kt) (un n vt) kvs) as [d| |] eqn:Ed; cbn [bind] in H; try discriminate.
      now rewrite (PAIRS2 _ _ _ _ (IH kt) (IH vt) _ _ Ed).
    + destruct x; try exact H; now apply IH.
    + now apply CLASS.
    + now apply IH.
    + now apply IH.
  - destruct t as [|p|en|vs|t|t|ts|t|t|kt vt|t|c|nt t|t]; try exact H.
    + now apply BY.
    + destruct (iter_val E x) as [l| |]; cbn [bind] in *; try discriminate.
      destruct (map_res _ l) as [r| |] eqn:Er; cbn [bind] in H; try discriminate. now rewrite (map_res_mono _ _ l BY _ Er).
    + destruct (iter_val E x) as [l| |]; cbn [bind] in *; try discriminate.
      destruct (map_res _ l) as [r| |] eqn:Er; cbn [bind] in H; try discriminate. now rewrite (map_res_mono _ _ l BY _ Er).
    + destruct (iter_val E x) as [l| |]; cbn [bind] in *; try discriminate.
      destruct (map_res _ l) as [r| |] eqn:Er; cbn [bind] in H; try discriminate. now rewrite (map_res_mono _ _ l BY _ Er).
    + destruct (iter_val E x) as [l| |]; cbn [bind] in *; try discriminate.
      destruct (map_res _ l) as [r| |] eqn:Er; cbn [bind] in H; try discriminate. now rewrite (map_res_mono _ _ l BY _ Er).
    + destruct (items_val x) as [kvs| |]; cbn [bind] in *; try discriminate.
      destruct (un_pairs _ _ kvs) as [d| |] eqn:Ed; cbn [bind] in H; try discriminate. now rewrite (PAIRS _ _ BY _ _ Ed).
    + now apply BY.
    + now apply CLASS.
Qed.

Corollary un_mono_le : forall n m t x u, n <= m -> un n t x = Ok u -> un m t x = Ok u.
Proof. intros n m t x u Hle H. induction Hle; [exact H | now apply un_mono]. Qed.

End Mono.
