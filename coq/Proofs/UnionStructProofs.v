(* UnionStructProofs.v -- the union structure hook hands a member's payload to that member's hook (so the round trip of a
   class union is the round trip of the member), and None to nobody. *)
From Coq Require Import List NArith Bool.
From V.Model Require Import Base Disambig UnionStruct.
From V.Proofs Require Import DisambigProofs.
Import ListNotations.

Section USP.
Variable V I : Type.
Variable choose : list N -> list N.
Variable skip : bool.
Hypothesis Hchoose : forall l x, In x (choose l) -> In x l.
Variable classes : list dclass.
Hypothesis Hnd : NoDup (ids classes).
Variables (a : list (N * N)) (fb : option N).
Hypothesis Hcreate : key_loop choose skip (sort_desc classes) (sort_desc classes) [] None = Ok (a, fb).
Variable st : N -> list (N * V) -> result I.

(* a member's own payload reaches the member's own hook, whatever the union says about None *)
Theorem union_structure_member has_none cl d :
  In cl classes -> payload_of skip cl (keys d) ->
  union_structure V I has_none true (dis_keys a fb) st (Some d) = do i <- st (dc_id cl) d; Ok (Some i).
Proof.
  intros Hcl Hp. unfold union_structure. cbn [goes_to_none]. rewrite andb_false_r.
  rewrite (create_dis_keys_correct choose skip Hchoose classes a fb Hnd Hcreate cl (keys d) Hcl Hp). reflexivity.
Qed.

Theorem union_structure_none : union_structure V I true true (dis_keys a fb) st None = Ok None.
Proof. reflexivity. Qed.

Theorem union_structure_none_rejected guard : union_structure V I false guard (dis_keys a fb) st None = Err EValue.
Proof. reflexivity. Qed.

End USP.

(* with a truthiness test in place of `is None`, the empty payload of a member without attributes is structured to None *)
Theorem union_structure_truthiness_refuted :
  exists (classes : list dclass) (a : list (N * N)) (fb : option N) (cl : dclass) (d : list (N * N)),
    key_loop (fun l => l) true (sort_desc classes) (sort_desc classes) [] None = Ok (a, fb) /\
    In cl classes /\ payload_of true cl (keys d) /\
    union_structure N N true false (dis_keys a fb) (fun c _ => Ok c) (Some d) = Ok None.
Proof.
  exists [ {| dc_id := 1; dc_fields := [ {| df_name := 10; df_required := true; df_init := true; df_lit := None |} ] |};
           {| dc_id := 2; dc_fields := [] |} ]%N, [(10, 1)]%N, (Some 2%N), {| dc_id := 2; dc_fields := [] |}%N, [].
  split; [vm_compute; reflexivity|]. split; [right; left; reflexivity|]. split.
  - split; cbn; [intros n H; discriminate H | intros n []].
  - reflexivity.
Qed.
