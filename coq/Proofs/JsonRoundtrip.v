(* JsonRoundtrip.v -- C16 for the JSON preconfigured converter, inside the model: what the converter unstructures from a
   value of T, pushed through dumps and the library's loads ([wire]: bytes -> base85 text, sets / tuples -> lists, mapping keys
   -> the strings json writes), is structured back to THE SAME value by the converter's structure side (a Converter whose
   bytes hook decodes base85).  Same-fuel form, induction on the fuel, parallel to ConvRoundtrip.roundtrip; the class
   case reuses ClassRoundtrip.v with the per-attribute encoder composed with [wire]. *)
From Coq Require Import Lia.
From V.Model Require Import Base Templates Conv ConvSpec Preconf PreconfSpec.
From V.Proofs Require Import TemplatesProofs UnstructProofs ClassSound ClassRoundtrip ConvRoundtrip.

Section JRT.
Variable E : env.                      (* the JSON converter's environment: e_coerce PBytes is its bytes structure hook *)
Variable cfgU cfgS : ccfg.
Variable b85 : val -> option val.
Variable keystr : val -> option val.

Hypothesis HU_gen : c_gen cfgU = true.
Hypothesis HS_gen : c_gen cfgS = true.                   (* JsonConverter is a Converter *)
Hypothesis H_tuple : c_tuple cfgU = c_tuple cfgS.
Hypothesis H_tuple_kw : c_tuple cfgS = true -> c_tuple_kw cfgS = true.
Hypothesis HU_forbid : c_forbid cfgU = false.
Hypothesis HS_forbid : c_forbid cfgS = false.
Hypothesis HS_recheck : c_recheck cfgS = true.
Hypothesis HS_kw : c_kw_last cfgS = true.

(* int(5) is 5, str("a") is "a" ... for every class but bytes, whose hook is the base85 decoder *)
Hypothesis H_coerce_id : forall p e, p <> PBytes -> e_coerce E p (VAtom p e) = Ok (VAtom p e).
(* b85decode(b85encode(b)) == b, and base85 text is text *)
Hypothesis H_b85 : forall e, exists s, b85 (VAtom PBytes e) = Some (VAtom PStr s) /\ e_coerce E PBytes (VAtom PStr s) = Ok (VAtom PBytes e).
(* int(str-json-wrote-for(5)) is 5, float(...) likewise *)
Hypothesis H_keys : forall p e, p = PInt \/ p = PFloat ->
  exists s, keystr (VAtom p e) = Some (VAtom PStr s) /\ e_coerce E p (VAtom PStr s) = Ok (VAtom p e).

Hypothesis H_env : forall c cd, e_class E c = Some cd -> rt_class_ok cfgS c cd.

Notation un := (unstructure E cfgU).
Notation st := (structure E cfgS).
Notation wire := (wire b85 keystr).
Notation wire_key := (wire_key b85 keystr).

(* ---------------- jvalue is a special case of rt_value ---------------- *)
Lemma jatomic_atomic v : jatomic v = true -> atomic v = true.
Proof. destruct v as [|k e| | | | | | |]; cbn; try discriminate; auto. Qed.

Lemma jkey_key t : jkey_ty t = true -> key_ty t = true.
Proof. induction t; cbn; try discriminate; auto. Qed.

Lemma jvalue_rt_sized : forall n m x t, vsize x <= n -> tw t <= m -> jvalue E x t -> rt_value E true x t.
Proof.
  induction n as [|n IHn]; [intros m x t Hn; destruct x; cbn in Hn; lia|].
  induction m as [|m IHm]; intros x t Hn Hm H; [destruct t; cbn in Hm; lia|].
  assert (IH : forall y ty, vsize y <= n -> jvalue E y ty -> rt_value E true y ty) by (intros y ty Hy; apply (IHn (tw ty)); [exact Hy | lia]).
  inversion H; subst; clear H.
  - constructor. now apply jatomic_atomic.
  - constructor.
  - econstructor; eassumption.
  - constructor; [assumption | now apply jatomic_atomic].
  - constructor. apply Forall_forall. intros y Hy. apply IH; [pose proof (lsum_in y l Hy); cbn in Hn; fold (lsum l) in Hn; lia|].
    match goal with X : Forall _ l |- _ => rewrite Forall_forall in X; now apply X end.
  - constructor. apply Forall_forall. intros y Hy. apply IH; [pose proof (lsum_in y l Hy); cbn in Hn; fold (lsum l) in Hn; lia|].
    match goal with X : Forall _ l |- _ => rewrite Forall_forall in X; now apply X end.
  - constructor. match goal with X : Forall2 _ l ts |- _ => eapply forall2_in; [exact X|] end.
    intros y ty Hy _ Hj. apply IH; [pose proof (lsum_in y l Hy); cbn in Hn; fold (lsum l) in Hn; lia | exact Hj].
  - constructor; try assumption. apply Forall_forall. intros y Hy. apply IH; [pose proof (lsum_in y l Hy); cbn in Hn; fold (lsum l) in Hn; lia|].
    match goal with X : Forall _ l |- _ => rewrite Forall_forall in X; now apply X end.
  - constructor; try assumption. apply Forall_forall. intros y Hy. apply IH; [pose proof (lsum_in y l Hy); cbn in Hn; fold (lsum l) in Hn; lia|].
    match goal with X : Forall _ l |- _ => rewrite Forall_forall in X; now apply X end.
  - constructor; try assumption; [now apply jkey_key|]. apply Forall_forall. intros [k y] Hy.
    match goal with X : Forall _ kvs |- _ => rewrite Forall_forall in X; destruct (X _ Hy) as [Hk Hv] end.
    pose proof (dsum_in k y kvs Hy). cbn in Hn. fold (dsum kvs) in Hn. cbn [fst snd] in *. split; apply IH; try assumption; lia.
  - constructor.
  - constructor. apply IHm; [exact Hn | cbn in Hm; lia | assumption].
  - econstructor; try eassumption. apply Forall_forall. intros [nm y] Hy.
    match goal with X : Forall _ i |- _ => rewrite Forall_forall in X; pose proof (X _ Hy) as Hv end.
    pose proof (fsum_in nm y i Hy). cbn in Hn. fold (fsum i) in Hn. cbn [fst snd] in *. apply IH; [lia | exact Hv].
  - constructor. apply IHm; [exact Hn | cbn in Hm; lia | assumption].
  - constructor; [reflexivity|]. apply IHm; [exact Hn | cbn in Hm; lia | assumption].
Qed.

Lemma jvalue_rt x t : jvalue E x t -> rt_value E true x t.
Proof. apply (jvalue_rt_sized (vsize x) (tw t)); lia. Qed.

(* ---------------- what [wire] does, constructor by constructor ---------------- *)
Lemma wire_jatomic v : jatomic v = true -> wire v = v.
Proof. destruct v as [|k e| | | | | | |]; cbn; try discriminate; [reflexivity|]. destruct k; try discriminate; reflexivity. Qed.

Lemma wire_atom k e : k <> PBytes -> wire (VAtom k e) = VAtom k e.
Proof. intros H. destruct k; try reflexivity. contradiction. Qed.

Lemma wire_bytes e : exists s, wire (VAtom PBytes e) = VAtom PStr s /\ e_coerce E PBytes (VAtom PStr s) = Ok (VAtom PBytes e).
Proof. destruct (H_b85 e) as (s & Hb & Hc). exists s. split; [|exact Hc]. unfold PreconfSpec.wire. cbn [jsonify]. rewrite Hb. reflexivity. Qed.

Lemma wire_list l : wire (VList l) = VList (map wire l).
Proof. unfold PreconfSpec.wire. cbn [jsonify json_rt]. now rewrite map_map. Qed.
Lemma wire_tuple l : wire (VTuple l) = VList (map wire l).
Proof. unfold PreconfSpec.wire. cbn [jsonify json_rt]. now rewrite map_map. Qed.
Lemma wire_set l : wire (VSet l) = VList (map wire l).
Proof. unfold PreconfSpec.wire. cbn [jsonify json_rt]. now rewrite map_map. Qed.
Lemma wire_frozenset l : wire (VFrozenSet l) = VList (map wire l).
Proof. unfold PreconfSpec.wire. cbn [jsonify json_rt]. now rewrite map_map. Qed.

Lemma wire_not_none u : u <> VNone -> wire u <> VNone.
Proof.
  destruct u as [|k e| | | | | | |]; intros H; try contradiction; try (unfold PreconfSpec.wire; cbn [jsonify json_rt]; discriminate).
  destruct k; try (cbn; discriminate). destruct (wire_bytes e) as (s & -> & _). discriminate.
Qed.

Definition wkv (kv : val * val) : val * val := (wire_key (fst kv), wire (snd kv)).

(* a dict whose wire keys stay pairwise distinct is mapped entry by entry *)
Lemma wire_fold kvs : forall acc,
  dict_of_pairs acc (map wkv kvs) = Ok (acc ++ map wkv kvs) ->
  fold_left (fun d kv => vdict_set d (jkey keystr (fst kv)) (json_rt keystr (snd kv)))
            (map (fun kv => (jsonify b85 (fst kv), jsonify b85 (snd kv))) kvs) acc = acc ++ map wkv kvs.
Proof.
  induction kvs as [|[k v] kvs IH]; intros acc H; cbn [map fold_left]; [now rewrite app_nil_r|].
  cbn [map] in H. destruct (dict_step _ _ _ _ H) as (Hh & Hm & Hr). cbn [fst snd].
  change (jkey keystr (jsonify b85 k)) with (wire_key k). change (json_rt keystr (jsonify b85 v)) with (wire v).
  rewrite (proj1 (vdict_set_cases acc (wire_key k) (wire v)) Hm). rewrite IH by exact Hr. now rewrite <- app_assoc.
Qed.

Lemma wire_dict kvs : dict_of_pairs [] (map wkv kvs) = Ok (map wkv kvs) -> wire (VDict kvs) = VDict (map wkv kvs).
Proof. intros H. unfold PreconfSpec.wire. cbn [jsonify json_rt]. f_equal. exact (wire_fold kvs [] H). Qed.

(* ---------------- mapping keys ---------------- *)
Fixpoint kprim (t : ty) : prim := match t with TPrim p => p | TNewType _ t' | TAnnot t' => kprim t' | _ => PStr end.
Definition jkp (p : prim) : Prop := p = PStr \/ p = PInt \/ p = PFloat.

Lemma jkey_prim t : jkey_ty t = true -> jkp (kprim t).
Proof. induction t; cbn; try discriminate; auto. destruct p; try discriminate; unfold jkp; auto. Qed.

Lemma jkey_atom : forall t k, jkey_ty t = true -> jvalue E k t -> exists e, k = VAtom (kprim t) e.
Proof.
  induction t; intros k Hk Hj; cbn in Hk; try discriminate.
  - inversion Hj; subst. eauto.
  - inversion Hj; subst. cbn. now apply IHt.
  - inversion Hj; subst. cbn. now apply IHt.
Qed.

Lemma wk_atom p e : jkp p -> exists s, wire_key (VAtom p e) = VAtom PStr s /\ e_coerce E p (VAtom PStr s) = Ok (VAtom p e).
Proof.
  intros [Hp|[Hp|Hp]]; subst p.
  - exists e. split; [reflexivity|]. apply H_coerce_id. discriminate.
  - destruct (H_keys PInt e (or_introl eq_refl)) as (s & Hs & Hc). exists s. split; [|exact Hc]. unfold PreconfSpec.wire_key. cbn. now rewrite Hs.
  - destruct (H_keys PFloat e (or_intror eq_refl)) as (s & Hs & Hc). exists s. split; [|exact Hc]. unfold PreconfSpec.wire_key. cbn. now rewrite Hs.
Qed.

Lemma wk_eqb p e1 e2 : jkp p -> val_eqb (wire_key (VAtom p e1)) (wire_key (VAtom p e2)) = N.eqb e1 e2.
Proof.
  intros Hp. destruct (wk_atom p e1 Hp) as (s1 & W1 & C1). destruct (wk_atom p e2 Hp) as (s2 & W2 & C2). rewrite W1, W2. cbn [val_eqb].
  destruct (N.eqb s1 s2) eqn:Es.
  - apply N.eqb_eq in Es. subst s2. rewrite C1 in C2. inversion C2; subst. symmetry. apply N.eqb_refl.
  - destruct (N.eqb e1 e2) eqn:Ee; [|reflexivity]. apply N.eqb_eq in Ee. subst e2. rewrite W1 in W2. inversion W2; subst. rewrite N.eqb_refl in Es. discriminate.
Qed.

Lemma wkv_pair k v : wkv (k, v) = (wire_key k, wire v).
Proof. reflexivity. Qed.

Lemma has_key_wire p e acc : jkp p -> Forall (fun kv : val * val => exists e', fst kv = VAtom p e') acc ->
  has_key (wire_key (VAtom p e)) (map wkv acc) = has_key (VAtom p e) acc.
Proof.
  intros Hp H. unfold has_key. induction H as [|[k v] acc (e' & Hk) _ IH]; [reflexivity|]. cbn [map existsb wkv fst snd] in *. subst k.
  rewrite (wk_eqb p e' e Hp), IH. reflexivity.
Qed.

Lemma dict_wire p l : jkp p -> forall acc,
  Forall (fun kv : val * val => exists e, fst kv = VAtom p e) acc -> Forall (fun kv : val * val => exists e, fst kv = VAtom p e) l ->
  dict_of_pairs acc l = Ok (acc ++ l) -> dict_of_pairs (map wkv acc) (map wkv l) = Ok (map wkv acc ++ map wkv l).
Proof.
  intros Hp. induction l as [|[k v] l IH]; intros acc Hacc Hl H; cbn [map]; [cbn [dict_of_pairs]; now rewrite app_nil_r|].
  inversion Hl as [|? ? (e & Hk) Hl']; subst. cbn [fst] in Hk. subst k. destruct (dict_step _ _ _ _ H) as (Hh & Hm & Hr).
  rewrite wkv_pair. cbn [dict_of_pairs]. rewrite dict_put_fresh.
  - cbn [bind]. specialize (IH (acc ++ [(VAtom p e, v)])). rewrite map_app in IH. cbn [map] in IH. rewrite wkv_pair in IH.
    rewrite IH; [now rewrite <- app_assoc | | exact Hl' | exact Hr].
    apply Forall_app. split; [exact Hacc|]. constructor; [|constructor]. cbn. eauto.
  - destruct (wk_atom p e Hp) as (s & -> & _). reflexivity.
  - rewrite (has_key_wire p e acc Hp Hacc). exact Hm.
Qed.

Lemma key_structure : forall n t k k', jkey_ty t = true -> jvalue E k t -> un n t k = Ok k' -> st n t (wire_key k') = Ok k.
Proof.
  induction n as [|n IH]; intros t k k' Hk Hj Hu; [discriminate|].
  destruct t; cbn in Hk; try discriminate; cbn [unstructure] in Hu; rewrite HU_gen in Hu; cbn [structure].
  - inversion Hj; subst. inversion Hu; subst. assert (Hp : jkp p) by (destruct p; try discriminate; unfold jkp; auto).
    destruct (wk_atom p e Hp) as (s & -> & Hc). exact Hc.
  - inversion Hj; subst. eapply IH; eassumption.
  - inversion Hj; subst. rewrite HS_gen. eapply IH; eassumption.
Qed.

(* ---------------- the dict / tuple a class is unstructured to ---------------- *)
Definition sk (d : list (N * val)) : list (val * val) := map (fun kv => (skey (fst kv), snd kv)) d.

Definition wsk (d : list (N * val)) : list (val * val) := map (fun kv => (skey (fst kv), wire (snd kv))) d.

Lemma wkv_sk d : map wkv (sk d) = wsk d.
Proof. unfold sk, wsk. rewrite map_map. apply map_ext. intros [k v]. reflexivity. Qed.
Lemma wsk_app a b : wsk (a ++ b) = wsk a ++ wsk b.
Proof. apply map_app. Qed.

Lemma has_key_wsk k acc : has_key (skey k) (wsk acc) = mem_N k (map fst acc).
Proof.
  unfold has_key, mem_N, wsk. induction acc as [|[k' v] acc IH]; [reflexivity|]. cbn [map existsb fst]. rewrite IH. f_equal.
  unfold skey. cbn [val_eqb]. apply N.eqb_sym.
Qed.

Lemma wsk_dict_like d : forall acc, NoDup (map fst (acc ++ d)) -> dict_of_pairs (wsk acc) (wsk d) = Ok (wsk acc ++ wsk d).
Proof.
  induction d as [|[k v] d IH]; intros acc Hnd; [cbn; now rewrite app_nil_r|].
  change (wsk ((k, v) :: d)) with ((skey k, wire v) :: wsk d). cbn [dict_of_pairs]. rewrite dict_put_fresh.
  - cbn [bind]. specialize (IH (acc ++ [(k, v)])). rewrite wsk_app in IH. change (wsk [(k, v)]) with [(skey k, wire v)] in IH.
    rewrite IH; [now rewrite <- app_assoc | now rewrite <- app_assoc].
  - reflexivity.
  - rewrite has_key_wsk. rewrite map_app in Hnd. apply NoDup_remove_2 in Hnd.
    destruct (mem_N k (map fst acc)) eqn:Em; [|reflexivity]. exfalso. apply Hnd. apply in_or_app. left.
    unfold mem_N in Em. apply existsb_exists in Em. destruct Em as (x & Hx & Ex). apply N.eqb_eq in Ex. now subst.
Qed.

Lemma wire_class_dict (d : list (N * val)) : NoDup (map fst d) -> wire (VDict (sk d)) = VDict (sk (map (fun kv => (fst kv, wire (snd kv))) d)).
Proof.
  intros Hnd. rewrite wire_dict; rewrite wkv_sk.
  - f_equal. unfold sk, wsk. rewrite map_map. reflexivity.
  - exact (wsk_dict_like d [] Hnd).
Qed.

Lemma zip_fast_wire (fu : ty -> val -> result val) ts : forall l r, zip_fast fu ts l = Ok r ->
  zip_fast (fun t x => do u <- fu t x; Ok (wire u)) ts l = Ok (map wire r).
Proof.
  induction ts as [|t ts IH]; intros l r H; cbn [zip_fast] in *; [inversion H; reflexivity|].
  destruct l as [|x l]; [inversion H; reflexivity|].
  destruct (fu t x) as [u| |]; cbn [bind] in *; try discriminate.
  destruct (zip_fast fu ts l) as [us| |] eqn:Ez; cbn [bind] in *; try discriminate. inversion H; subst.
  rewrite (IH l us Ez). reflexivity.
Qed.

Lemma forall2_map_r {A B C} (P : A -> C -> Prop) (g : B -> C) l r : Forall2 (fun x y => P x (g y)) l r -> Forall2 P l (map g r).
Proof. induction 1; cbn; constructor; auto. Qed.

Lemma forall_jrt t l : Forall (fun x => jvalue E x t) l -> Forall (fun x => rt_value E true x t) l.
Proof. intros H. eapply Forall_impl; [|exact H]. intros a. apply jvalue_rt. Qed.

Let A_ann : true = true -> c_gen cfgS = true := fun _ => HS_gen.

(* ---------------- the theorem ---------------- *)
Theorem json_roundtrip : forall n t x u, jvalue E x t -> un n t x = Ok u -> st n t (wire u) = Ok x.
Proof.
  induction n as [|n IH]; intros t x u Hj Hu; [discriminate|].
  inversion Hj; subst; clear Hj; cbn [unstructure] in Hu; rewrite HU_gen in Hu; cbn [structure].
  - (* Any *) match goal with H : jatomic _ = true |- _ => rename H into Ha end.
    apply (by_class_atomic E cfgU HU_gen n _ _ (jatomic_atomic _ Ha)) in Hu. subst u. now rewrite (wire_jatomic _ Ha).
  - (* prim *) inversion Hu; subst. destruct p; try (rewrite wire_atom by discriminate; apply H_coerce_id; discriminate).
    destruct (wire_bytes e) as (s & -> & Hc). exact Hc.
  - (* enum *) unfold member_value in Hu. match goal with H : nth_error _ _ = Some _ |- _ => rewrite H in Hu end. inversion Hu; subst.
    rewrite wire_atom by assumption.
    match goal with H : find_member _ _ = Some _ |- _ => rewrite H end. reflexivity.
  - (* literal *) inversion Hu; subst. match goal with H : jatomic _ = true |- _ => rewrite (wire_jatomic _ H) end.
    match goal with H : vmem _ _ = true |- _ => rewrite H end. reflexivity.
  - (* list *)
    cbn [iter_val] in Hu. cbn [bind] in Hu. destruct (map_res (un n t0) l) as [r| |] eqn:Em; cbn [bind] in Hu; try discriminate. inversion Hu; subst.
    rewrite wire_list. cbn [iter_val bind]. apply map_res_forall2 in Em.
    assert (F : Forall2 (fun x y => st n t0 y = Ok x) l (map wire r)).
    { apply forall2_map_r. eapply forall_forall2; [eassumption | exact Em |]. intros a b Ha Hab. eapply IH; eassumption. }
    destruct (is_any t0) eqn:Ea.
    + destruct t0; try discriminate. f_equal. f_equal. apply forall2_eq. eapply forall2_impl; [|exact F]. intros a b Hab. now apply st_any in Hab.
    + rewrite (coll_rt _ _ _ _ F). reflexivity.
  - (* homogeneous tuple *)
    cbn [iter_val] in Hu. cbn [bind] in Hu. destruct (map_res (un n t0) l) as [r| |] eqn:Em; cbn [bind] in Hu; try discriminate. inversion Hu; subst.
    rewrite wire_list. cbn [iter_val bind]. apply map_res_forall2 in Em.
    assert (F : Forall2 (fun x y => st n t0 y = Ok x) l (map wire r)).
    { apply forall2_map_r. eapply forall_forall2; [eassumption | exact Em |]. intros a b Ha Hab. eapply IH; eassumption. }
    destruct (is_any t0) eqn:Ea.
    + destruct t0; try discriminate. f_equal. f_equal. apply forall2_eq. eapply forall2_impl; [|exact F]. intros a b Hab. now apply st_any in Hab.
    + rewrite (coll_rt _ _ _ _ F). reflexivity.
  - (* heterogeneous tuple *)
    match goal with H : Forall2 (jvalue E) _ _ |- _ => rename H into HF end.
    assert (Hlen : length l = length ts) by (eapply forall2_length; exact HF).
    rewrite Hlen, Nat.ltb_irrefl in Hu.
    destruct (zip_fast (un n) ts l) as [r| |] eqn:Ez; cbn [bind] in Hu; try discriminate. inversion Hu; subst.
    pose proof (zip_fast_wire (un n) ts l r Ez) as Ez'.
    destruct (zip_rt (jvalue E) (fun t x => do u <- un n t x; Ok (wire u)) (st n) l ts HF) with (r := map wire r) as (Z1 & Z2 & Z3); [|exact Ez'|].
    { intros a ta ua Ha Hua. destruct (un n ta a) as [w| |] eqn:Ew; cbn [bind] in Hua; try discriminate. inversion Hua; subst. eapply IH; eassumption. }
    rewrite wire_tuple. cbn [iter_val len_val bind]. rewrite Z2, Nat.eqb_refl. destruct (c_dv cfgS).
    + rewrite Z3. cbn [bind fst snd app]. reflexivity.
    + cbn [negb]. rewrite Z1. reflexivity.
  - (* set *)
    match goal with H : key_ty _ = true |- _ => rename H into Hk end.
    match goal with H : Forall _ l |- _ => rename H into HF end.
    match goal with H : set_like l |- _ => rename H into HS end.
    cbn [iter_val bind] in Hu. destruct (map_res (un n t0) l) as [r| |] eqn:Em; cbn [bind] in Hu; try discriminate.
    apply map_res_forall2 in Em.
    assert (Hr : r = map (key_enc E) l) by (eapply (key_map E cfgU cfgS true HU_gen A_ann); [exact Hk | exact (forall_jrt _ _ HF) | exact Em]).
    subst r. pose proof (set_enc E cfgS true A_ann t0 l Hk [] (Forall_nil _) (forall_jrt _ _ HF) HS) as Hse. cbn in Hse. rewrite Hse in Hu. cbn [bind] in Hu. inversion Hu; subst.
    rewrite wire_set. cbn [iter_val bind]. rewrite (key_not_any _ Hk).
    assert (F : Forall2 (fun x y => st n t0 y = Ok x) l (map wire (map (key_enc E) l))).
    { apply forall2_map_r. eapply forall_forall2; [exact HF | exact Em |]. intros a b Ha Hab. eapply IH; eassumption. }
    rewrite (set_coll_rt _ _ _ _ F HS). reflexivity.
  - (* frozenset *)
    match goal with H : key_ty _ = true |- _ => rename H into Hk end.
    match goal with H : Forall _ l |- _ => rename H into HF end.
    match goal with H : set_like l |- _ => rename H into HS end.
    cbn [iter_val bind] in Hu. destruct (map_res (un n t0) l) as [r| |] eqn:Em; cbn [bind] in Hu; try discriminate.
    apply map_res_forall2 in Em.
    assert (Hr : r = map (key_enc E) l) by (eapply (key_map E cfgU cfgS true HU_gen A_ann); [exact Hk | exact (forall_jrt _ _ HF) | exact Em]).
    subst r. pose proof (set_enc E cfgS true A_ann t0 l Hk [] (Forall_nil _) (forall_jrt _ _ HF) HS) as Hse. cbn in Hse. rewrite Hse in Hu. cbn [bind] in Hu. inversion Hu; subst.
    rewrite wire_frozenset. cbn [iter_val bind]. rewrite (key_not_any _ Hk).
    assert (F : Forall2 (fun x y => st n t0 y = Ok x) l (map wire (map (key_enc E) l))).
    { apply forall2_map_r. eapply forall_forall2; [exact HF | exact Em |]. intros a b Ha Hab. eapply IH; eassumption. }
    rewrite (set_coll_rt _ _ _ _ F HS). reflexivity.
  - (* mapping *)
    match goal with H : jkey_ty _ = true |- _ => rename H into Hjk end.
    match goal with H : Forall _ kvs |- _ => rename H into HF end.
    match goal with H : dict_like kvs |- _ => rename H into HD end.
    pose proof (jkey_key _ Hjk) as Hk.
    cbn [items_val bind] in Hu. unfold un_pairs in Hu.
    destruct (map_res _ kvs) as [ps| |] eqn:Em; cbn [bind] in Hu; try discriminate.
    apply map_res_forall2 in Em.
    assert (R : Forall2 (fun kv p => un n kt (fst kv) = Ok (fst p) /\ un n vt (snd kv) = Ok (snd p)) kvs ps).
    { eapply forall2_impl; [|exact Em]. intros kv p Hp. cbn in Hp.
      destruct (un n kt (fst kv)) as [k'| |]; cbn [bind] in Hp; try discriminate.
      destruct (un n vt (snd kv)) as [v'| |]; cbn [bind] in Hp; try discriminate. inversion Hp; subst. cbn. auto. }
    assert (Hps : dict_of_pairs [] ps = Ok ps).
    { apply (dict_enc E cfgS true A_ann kt kvs ps Hk) with (acc := []) (accp := []); [|constructor|exact HD].
      eapply forall_forall2; [exact HF | exact R|]. intros kv p [Hkr _] [Hku _]. split; [now apply jvalue_rt|].
      eapply (key_unstructure E cfgU cfgS true HU_gen A_ann); [exact Hk | now apply jvalue_rt | exact Hku]. }
    rewrite Hps in Hu. cbn [bind] in Hu. inversion Hu; subst.
    assert (Hat : Forall (fun kv : val * val => exists e, fst kv = VAtom (kprim kt) e) ps).
    { clear -HF R Hjk Hk HU_gen HS_gen. induction R as [|kv p kvs ps [Hku _] _ IHR]; [constructor|]. inversion HF as [|? ? [Hkj _] HF']; subst.
      constructor; [|now apply IHR]. destruct (jkey_atom kt (fst kv) Hjk Hkj) as (e & He).
      pose proof (key_unstructure E cfgU cfgS true HU_gen (fun _ => HS_gen) n kt (fst kv) (fst p) Hk (jvalue_rt _ _ Hkj) Hku) as X.
      rewrite He in X. cbn in X. eauto. }
    pose proof (dict_wire (kprim kt) ps (jkey_prim _ Hjk) [] (Forall_nil _) Hat Hps) as Hw. cbn [map app] in Hw.
    rewrite (wire_dict ps Hw).
    assert (Hna : is_any kt = false) by (apply key_not_any; exact Hk). rewrite Hna. cbn [andb items_val bind].
    assert (F : Forall2 (fun kv p => st n kt (fst p) = Ok (fst kv) /\ st n vt (snd p) = Ok (snd kv)) kvs (map wkv ps)).
    { apply forall2_map_r. eapply forall_forall2; [exact HF | exact R|]. intros kv p [Hkr Hvr] [Hku Hvu]. unfold wkv. cbn [fst snd].
      split; [eapply key_structure; eassumption | eapply IH; eassumption]. }
    rewrite (map_coll_rt _ _ _ _ _ F HD). reflexivity.
  - (* Optional: None *) inversion Hu; subst. reflexivity.
  - (* Optional: a value *)
    assert (Hc : x = VNone \/ x <> VNone) by (destruct x; [left; reflexivity | right; discriminate ..]).
    destruct Hc as [->|Hne]; [inversion Hu; subst; reflexivity|].
    assert (Hu' : un n t0 x = Ok u) by (destruct x; try exact Hu; contradiction).
    match goal with H : jvalue E x t0 |- _ => rename H into Hjx end.
    pose proof (un_not_none E cfgU cfgS true HU_gen H_tuple A_ann n t0 x u (jvalue_rt _ _ Hjx) Hne Hu') as Hnu. pose proof (IH _ _ _ Hjx Hu') as Hs.
    pose proof (wire_not_none u Hnu) as Hw.
    destruct (wire u); try exact Hs. contradiction.
  - (* class *)
    match goal with X : e_class E c = Some _ |- _ => rename X into Hc end.
    match goal with X : map fst i = _ |- _ => rename X into Hkeys end.
    match goal with X : Forall _ i |- _ => rename X into HF end.
    rewrite Hc in Hu |- *. cbn [inst_fields] in Hu. unfold nov in *.
    destruct (H_env c cd Hc) as (W & HA).
    assert (A_init : forall f, In f (cd_fields cd) -> f_init f = true) by (intros f Hf; now destruct (HA f Hf)).
    assert (A_conv : forall f, In f (cd_fields cd) -> f_conv f = false) by (intros f Hf; now destruct (HA f Hf)).
    assert (Ht : topt cfgU c = topt cfgS c) by (unfold topt; now rewrite HU_forbid, HS_forbid).
    rewrite Ht in Hu.
    match type of Hu with context [un_gen _ _ _ _ ?h _ _] => set (hs_u := h) in Hu end.
    match goal with |- context [tpl_interp_dict _ _ ?h _ _] => set (hs_s := h) end.
    pose (hu := fun nm v => match hs_u nm v with Ok w => w | _ => VNone end).
    pose (hw := fun nm v => wire (hu nm v)).
    assert (H_inv' : forall f, In f (cd_fields cd) -> hs_u (f_name f) (aval val VNone i f) = Ok (hu (f_name f) (aval val VNone i f)) ->
              hs_s (f_name f) (hw (f_name f) (aval val VNone i f)) = Ok (aval val VNone i f)).
    { intros f Hf Eh. pose proof (vals_ok val VNone (cd_fields cd) i Hkeys f Hf) as Ea. apply assoc_in in Ea.
      rewrite Forall_forall in HF. specialize (HF _ Ea). cbn [fst snd] in HF.
      unfold hs_u in Eh. unfold hs_s, hw. unfold field_ty in HF.
      destruct (assoc (cd_types cd) (f_name f)) as [ft|].
      - eapply IH; eassumption.
      - inversion HF; subst. match goal with X : jatomic _ = true |- _ => rename X into Ha end.
        rewrite (by_class_atomic E cfgU HU_gen n _ _ (jatomic_atomic _ Ha) Eh). now rewrite (wire_jatomic _ Ha). }
    rewrite H_tuple in Hu. destruct (c_tuple cfgS) eqn:Etup.
    { (* tuple strategy *)
      destruct (un_interp_tuple val hs_u (cd_fields cd) i) as [tt| |] eqn:Eg; cbn [bind] in Hu; try discriminate.
      inversion Hu; subst u. clear Hu.
      assert (H_hu : forall f, In f (cd_fields cd) ->
                hs_u (f_name f) (aval val VNone i f) = Ok (hu (f_name f) (aval val VNone i f))).
      { intros f Hf. pose proof (un_interp_tuple_handlers val hs_u (cd_fields cd) i tt Eg f Hf) as (v & w & Ea & Eh).
        rewrite (vals_ok val VNone (cd_fields cd) i Hkeys f Hf) in Ea. inversion Ea; subst v. unfold hu. now rewrite Eh. }
      rewrite (un_interp_tuple_all val (cd_fields cd) i Hkeys VNone hs_u hu H_hu) in Eg. inversion Eg; subst tt. clear Eg.
      assert (Hkw : c_tuple_kw cfgS = true) by (apply H_tuple_kw; first [exact Etup | reflexivity]). rewrite Hkw.
      rewrite wire_tuple.
      rewrite (class_rt_tuple val noK (cd_fields cd) (wf_alias _ _ _ _ W) (wf_name _ _ _ _ W) A_init A_conv i Hkeys VNone hs_s hw
                 (fun f Hf => H_inv' f Hf (H_hu f Hf))); [|cbn [seq_obj_of_val o_iter iter_val]; unfold T; now rewrite map_map].
      rewrite andb_false_r. reflexivity. }
    destruct (un_gen val val_eqb (topt cfgS c) (fun _ => neutral) hs_u (cd_fields cd) i) as [dd| |] eqn:Eg; cbn [bind] in Hu; try discriminate.
    inversion Hu; subst u. clear Hu.
    assert (H_hu : forall f, In f (cd_fields cd) ->
              hs_u (f_name f) (aval val VNone i f) = Ok (hu (f_name f) (aval val VNone i f))).
    { intros f Hf. unfold un_gen in Eg.
      destruct (un_literal val (topt cfgS c) (fun _ => neutral) hs_u (filter (un_included val (topt cfgS c) (fun _ => neutral)) (cd_fields cd)) i) as [lit| |] eqn:El; cbn [bind] in Eg; try discriminate.
      change (filter (un_included val (topt cfgS c) (fun _ => neutral)) (cd_fields cd))
        with (filter (included val (topt cfgS c) (fun _ : N => neutral)) (cd_fields cd)) in El.
      rewrite (inc_is_fs val (topt cfgS c) (cd_fields cd) A_init) in El.
      destruct (un_literal_handlers _ _ _ _ _ _ _ El (fun g _ => no_omit val (topt cfgS c) eq_refl g) f Hf) as (v & w & Ea & Eh).
      rewrite (vals_ok val VNone (cd_fields cd) i Hkeys f Hf) in Ea. inversion Ea; subst v. unfold hu. now rewrite Eh. }
    rewrite (un_gen_all val VNone (topt cfgS c) eq_refl eq_refl (cd_fields cd) W A_init i Hkeys hs_u hu H_hu val_eqb) in Eg.
    inversion Eg; subst dd. clear Eg.
    change (map (fun kv : N * val => (skey (fst kv), snd kv)) (D val VNone (cd_fields cd) i hu)) with (sk (D val VNone (cd_fields cd) i hu)).
    rewrite wire_class_dict.
    2:{ unfold D. rewrite map_map. cbn [fst]. exact (wf_name _ _ _ _ W). }
    assert (HD' : map (fun kv : N * val => (fst kv, wire (snd kv))) (D val VNone (cd_fields cd) i hu) = D val VNone (cd_fields cd) i hw).
    { unfold D. rewrite map_map. reflexivity. }
    rewrite HD'. unfold sk. cbn [obj_of_val]. rewrite nkeys_skey.
    assert (H_inv : forall f, In f (cd_fields cd) ->
              hs_s (f_name f) (hw (f_name f) (aval val VNone i f)) = Ok (aval val VNone i f)) by (intros f Hf; exact (H_inv' f Hf (H_hu f Hf))).
    rewrite HS_forbid. cbn [andb].
    assert (Of : t_forbid (topt cfgS c) = false) by (cbn; exact HS_forbid).
    rewrite HS_gen. destruct (c_dv cfgS).
    + rewrite HS_recheck.
      rewrite (class_rt_detailed val VNone noK (topt cfgS c) eq_refl eq_refl (cd_fields cd) W A_init A_conv i Hkeys hs_s hw H_inv Of). reflexivity.
    + rewrite HS_kw.
      rewrite (class_rt_fast val VNone noK (topt cfgS c) eq_refl eq_refl (cd_fields cd) W A_init A_conv i Hkeys hs_s hw H_inv Of). reflexivity.
  - (* NewType *) eapply IH; eassumption.
  - (* Annotated *) rewrite HS_gen. eapply IH; eassumption.
Qed.

(* ... and dumps always produces something: enough fuel exists for every value within the limits *)
Theorem json_roundtrip_total (M : nat) :
  (forall c cd nm ft, e_class E c = Some cd -> assoc (cd_types cd) nm = Some ft -> maxw ft <= M) -> 2 <= M ->
  forall t x, jvalue E x t -> maxw t <= M -> exists n u, un n t x = Ok u /\ st n t (wire u) = Ok x.
Proof.
  intros HM HM2 t x Hj Hw. exists (vsize x * S M + tw t).
  destruct (un_total E cfgU cfgS true HU_gen H_tuple HU_forbid HS_forbid A_ann H_env M HM HM2 (vsize x * S M + tw t) t x (jvalue_rt _ _ Hj) Hw (le_n _)) as (u & Hu).
  exists u. split; [exact Hu | exact (json_roundtrip _ _ _ _ Hj Hu)].
Qed.

End JRT.
