(* ConvErrProofs.v -- C05: under detailed validation every collecting loop reports EXACTLY the failing
   children: one entry per child whose hook failed, in order, annotated with that child's index / key /
   attribute name, and nothing for the children that succeeded.  Together with the defining equations
   of [paths] (transform_error) this fixes the reported paths at every depth. *)
From Coq Require Import Lia.
From V.Model Require Import Base Templates Conv ConvErr.
From V.Proofs Require Import TemplatesProofs.

Section Exact.
Variable cfg : ccfg.
Hypothesis H_dv : c_dv cfg = true.

(* ---------- sequences (list / Sequence / homogeneous tuple / deque-like loops) ---------- *)
Fixpoint oks (f : val -> result val) (l : list val) : list val :=
  match l with [] => [] | x :: r => match f x with Ok y => y :: oks f r | _ => oks f r end end.
Fixpoint errs_at (f : val -> result val) (l : list val) (ix : N) : list (option N * errkind) :=
  match l with
  | [] => []
  | x :: r => match f x with Err e => (Some ix, e) :: errs_at f r (N.succ ix) | _ => errs_at f r (N.succ ix) end
  end.

Lemma coll_det_exact (f : val -> result val) l : (forall x, In x l -> f x <> OutOfFuel) ->
  forall ix acc errs, coll_det f l ix acc errs = Ok (acc ++ oks f l, errs ++ errs_at f l ix).
Proof.
  induction l as [|x l IH]; intros Hf ix acc errs; cbn [coll_det oks errs_at]; [now rewrite !app_nil_r|].
  assert (Hl : forall y, In y l -> f y <> OutOfFuel) by (intros y Hy; apply Hf; now right).
  destruct (f x) as [y|e|] eqn:Ef.
  - rewrite IH by exact Hl. now rewrite <- app_assoc.
  - rewrite IH by exact Hl. now rewrite <- app_assoc.
  - exfalso. apply (Hf x); [now left | exact Ef].
Qed.

Theorem coll_exact (f : val -> result val) l : (forall x, In x l -> f x <> OutOfFuel) ->
  coll cfg f l = match errs_at f l 0 with [] => Ok (oks f l) | errs => Err (EIterVal errs) end.
Proof.
  intros Hf. unfold coll. rewrite H_dv, (coll_det_exact f l Hf 0%N [] []). cbn [bind fst snd app]. reflexivity.
Qed.

(* every reported entry is a child that failed, with that child's own error and position; every failing child is reported *)
Lemma errs_at_spec (f : val -> result val) l : forall ix k e,
  In (Some k, e) (errs_at f l ix) <-> exists j x, nth_error l j = Some x /\ f x = Err e /\ k = (ix + N.of_nat j)%N.
Proof.
  induction l as [|x l IH]; intros ix k e; cbn [errs_at].
  - split; [intros [] | intros (j & y & H & _); destruct j; discriminate].
  - assert (Hs : forall j : nat, (N.succ ix + N.of_nat j = ix + N.of_nat (S j))%N) by (intros; lia).
    split.
    + intros H. destruct (f x) as [y|e0|] eqn:Ef.
      * apply IH in H. destruct H as (j & y' & H1 & H2 & H3). exists (S j), y'. rewrite <- Hs. auto.
      * destruct H as [H|H].
        -- inversion H; subst. exists 0%nat, x. cbn. repeat split; auto. lia.
        -- apply IH in H. destruct H as (j & y' & H1 & H2 & H3). exists (S j), y'. rewrite <- Hs. auto.
      * apply IH in H. destruct H as (j & y' & H1 & H2 & H3). exists (S j), y'. rewrite <- Hs. auto.
    + intros (j & y & H1 & H2 & H3). destruct j as [|j].
      * cbn in H1. inversion H1; subst y. rewrite H2. left. f_equal. f_equal. lia.
      * cbn in H1. assert (X : In (Some k, e) (errs_at f l (N.succ ix))) by (apply IH; exists j, y; rewrite Hs; auto).
        destruct (f x); [exact X | right; exact X | exact X].
Qed.

Lemma errs_at_noted (f : val -> result val) l : forall ix ne, In ne (errs_at f l ix) -> exists k, fst ne = Some k.
Proof.
  induction l as [|x l IH]; intros ix ne H; cbn [errs_at] in H; [contradiction|].
  destruct (f x); [eauto | destruct H as [<-|H]; [cbn; eauto | eauto] | eauto].
Qed.

(* ---------- heterogeneous tuples ---------- *)
Fixpoint zoks (f : ty -> val -> result val) (ts : list ty) (l : list val) : list val :=
  match ts, l with t :: ts', x :: l' => match f t x with Ok y => y :: zoks f ts' l' | _ => zoks f ts' l' end | _, _ => [] end.
Fixpoint zerrs (f : ty -> val -> result val) (ts : list ty) (l : list val) (ix : N) : list (option N * errkind) :=
  match ts, l with
  | t :: ts', x :: l' => match f t x with Err e => (Some ix, e) :: zerrs f ts' l' (N.succ ix) | _ => zerrs f ts' l' (N.succ ix) end
  | _, _ => []
  end.

Lemma zip_det_exact (f : ty -> val -> result val) ts : forall l, (forall t x, f t x <> OutOfFuel) ->
  forall ix acc errs, zip_det f ts l ix acc errs = Ok (acc ++ zoks f ts l, errs ++ zerrs f ts l ix).
Proof.
  induction ts as [|t ts IH]; intros l Hf ix acc errs; cbn [zip_det zoks zerrs]; [now rewrite !app_nil_r|].
  destruct l as [|x l]; [now rewrite !app_nil_r|].
  destruct (f t x) as [y|e|] eqn:Ef.
  - rewrite IH by exact Hf. now rewrite <- app_assoc.
  - rewrite IH by exact Hf. now rewrite <- app_assoc.
  - exfalso. exact (Hf t x Ef).
Qed.

(* ---------- mappings: value first, then key and insertion; the note is the (input) key ---------- *)
Fixpoint merrs (fk fv : val -> result val) (kvs : list (val * val)) (acc : list (val * val)) : list (option N * errkind) :=
  match kvs with
  | [] => []
  | (k, v) :: r =>
      match fv v with
      | Err e => (Some (key_note k), e) :: merrs fk fv r acc
      | Ok v' => match (do k' <- fk k; dict_put acc k' v') with
                 | Err e => (Some (key_note k), e) :: merrs fk fv r acc
                 | Ok acc' => merrs fk fv r acc'
                 | OutOfFuel => []
                 end
      | OutOfFuel => []
      end
  end.
Fixpoint moks (fk fv : val -> result val) (kvs : list (val * val)) (acc : list (val * val)) : list (val * val) :=
  match kvs with
  | [] => acc
  | (k, v) :: r =>
      match fv v with
      | Ok v' => match (do k' <- fk k; dict_put acc k' v') with Ok acc' => moks fk fv r acc' | _ => moks fk fv r acc end
      | _ => moks fk fv r acc
      end
  end.

Lemma map_det_exact (fk fv : val -> result val) kvs :
  (forall x, fk x <> OutOfFuel) -> (forall x, fv x <> OutOfFuel) ->
  forall acc errs, map_det fk fv kvs acc errs = Ok (moks fk fv kvs acc, errs ++ merrs fk fv kvs acc).
Proof.
  intros Hk Hv. induction kvs as [|[k v] kvs IH]; intros acc errs; cbn [map_det moks merrs]; [now rewrite app_nil_r|].
  destruct (fv v) as [v'|e|] eqn:Ev.
  - destruct (fk k) as [k'|e|] eqn:Ek; cbn [bind].
    + destruct (dict_put acc k' v') as [acc'|e|] eqn:Ep.
      * apply IH.
      * rewrite IH. now rewrite <- app_assoc.
      * unfold dict_put in Ep. destruct (negb (hashable k')); discriminate.
    + rewrite IH. now rewrite <- app_assoc.
    + exfalso. exact (Hk k Ek).
  - rewrite IH. now rewrite <- app_assoc.
  - exfalso. exact (Hv v Ev).
Qed.

End Exact.

(* ---------- classes: the detailed template on a dict payload ---------- *)
Section ClassExact.
Variable V : Type.
Variable opt : topts.
Variable ov : N -> fov.
Variable hs : N -> V -> result V.
Notation field := (field V).
Variable d : list (N * V).

(* is attribute f looked at?  required ones always, optional ones when their key is present *)
Definition attempted (f : field) : bool :=
  match f_dflt f with None => true | Some _ => mem_N (key_of V opt ov f) (keys d) end.

Fixpoint field_errs (fs : list field) : list (option N * errkind) :=
  match fs with
  | [] => []
  | f :: r => (if attempted f then match fetch V opt ov hs (dict_obj d) f with Err e => [(Some (f_name f), e)] | _ => [] end else []) ++ field_errs r
  end.
Fixpoint field_oks (fs : list field) : list (N * V) :=
  match fs with
  | [] => []
  | f :: r => (if attempted f then match fetch V opt ov hs (dict_obj d) f with Ok w => [(f_alias f, w)] | _ => [] end else []) ++ field_oks r
  end.

Lemma det_loop_exact fs : (forall f, In f fs -> fetch V opt ov hs (dict_obj d) f <> OutOfFuel) ->
  forall res errs, det_loop V opt ov hs (dict_obj d) fs res errs = Ok (res ++ field_oks fs, errs ++ field_errs fs).
Proof.
  induction fs as [|f fs IH]; intros Hf res errs; cbn [det_loop field_oks field_errs]; [now rewrite !app_nil_r|].
  assert (Hr : forall g, In g fs -> fetch V opt ov hs (dict_obj d) g <> OutOfFuel) by (intros g Hg; apply Hf; now right).
  assert (Hat : forall res errs,
            match fetch V opt ov hs (dict_obj d) f with
            | Ok w => det_loop V opt ov hs (dict_obj d) fs (res ++ [(f_alias f, w)]) errs
            | Err e => det_loop V opt ov hs (dict_obj d) fs res (errs ++ [(Some (f_name f), e)])
            | OutOfFuel => OutOfFuel
            end = Ok (res ++ match fetch V opt ov hs (dict_obj d) f with Ok w => [(f_alias f, w)] | _ => [] end ++ field_oks fs,
                      errs ++ match fetch V opt ov hs (dict_obj d) f with Err e => [(Some (f_name f), e)] | _ => [] end ++ field_errs fs)).
  { intros res0 errs0. destruct (fetch V opt ov hs (dict_obj d) f) as [w|e|] eqn:Ef.
    - rewrite IH by exact Hr. now rewrite <- app_assoc.
    - rewrite IH by exact Hr. now rewrite <- app_assoc.
    - exfalso. apply (Hf f); [now left | exact Ef]. }
  unfold attempted. destruct (f_dflt f).
  - cbn [dict_obj o_in bind]. destruct (mem_N (key_of V opt ov f) (keys d)); [apply Hat|]. cbn [app]. apply IH. exact Hr.
  - apply Hat.
Qed.

End ClassExact.

(* ---------- the class-level group: exactly the failing attributes, then the forbidden extra keys ---------- *)
Section ClassGroup.
Variable V : Type.
Variable K : N -> V -> result V.
Variable opt : topts.
Variable ov : N -> fov.
Variable hs : N -> V -> result V.
Variable d : list (N * V).
Variable fs : list (field V).

Definition forbidden_entry : list (option N * errkind) :=
  if t_forbid opt then match unknown_keys V opt ov fs (keys d) with [] => [] | u => [(None, EForbidden (t_cl opt) u)] end else [].

Theorem detailed_errors rc :
  (forall f, In f fs -> fetch V opt ov hs (dict_obj d) f <> OutOfFuel) ->
  field_errs V opt ov hs d (filter (@f_init V) (filter (included V opt ov) fs)) ++ forbidden_entry <> [] ->
  tpl_detailed V K opt ov hs rc fs (dict_obj d)
  = Err (EClassVal (t_cl opt) (field_errs V opt ov hs d (filter (@f_init V) (filter (included V opt ov) fs)) ++ forbidden_entry)).
Proof.
  intros Hf Hne. unfold tpl_detailed. rewrite det_loop_exact.
  - cbn [bind app]. unfold forbidden_entry in *. destruct (t_forbid opt).
    + cbn [dict_obj o_keys bind]. destruct (unknown_keys V opt ov fs (keys d)) as [|u us]; cbn [bind].
      * rewrite app_nil_r in *. destruct (field_errs _ _ _ _ _ _); [contradiction | reflexivity].
      * destruct (field_errs _ _ _ _ _ _ ++ _) eqn:E; [apply app_eq_nil in E; destruct E; discriminate | reflexivity].
    + cbn [bind]. rewrite app_nil_r in *. destruct (field_errs _ _ _ _ _ _); [contradiction | reflexivity].
  - intros f Hin. apply Hf. apply filter_In in Hin. destruct Hin as [Hin _]. apply filter_In in Hin. tauto.
Qed.

(* the same with the fuel hypothesis for the attributes the loop goes through only *)
Theorem detailed_errors_weak rc :
  (forall f, In f (filter (@f_init V) (filter (included V opt ov) fs)) -> fetch V opt ov hs (dict_obj d) f <> OutOfFuel) ->
  field_errs V opt ov hs d (filter (@f_init V) (filter (included V opt ov) fs)) ++ forbidden_entry <> [] ->
  tpl_detailed V K opt ov hs rc fs (dict_obj d)
  = Err (EClassVal (t_cl opt) (field_errs V opt ov hs d (filter (@f_init V) (filter (included V opt ov) fs)) ++ forbidden_entry)).
Proof.
  intros Hf Hne. unfold tpl_detailed. rewrite det_loop_exact by exact Hf.
  cbn [bind app]. unfold forbidden_entry in *. destruct (t_forbid opt).
  - cbn [dict_obj o_keys bind]. destruct (unknown_keys V opt ov fs (keys d)) as [|u us]; cbn [bind].
    + rewrite app_nil_r in *. destruct (field_errs _ _ _ _ _ _); [contradiction | reflexivity].
    + destruct (field_errs _ _ _ _ _ _ ++ _) eqn:E; [apply app_eq_nil in E; destruct E; discriminate | reflexivity].
  - cbn [bind]. rewrite app_nil_r in *. destruct (field_errs _ _ _ _ _ _); [contradiction | reflexivity].
Qed.

End ClassGroup.

(* ---------- transform_error over such groups ---------- *)
Lemma paths_leaf e p : is_group e = false -> paths e p = [p].
Proof. destruct e; cbn; intros H; try discriminate; reflexivity. Qed.

Definition child_paths (mk : N -> step) (p : list step) (ne : option N * errkind) : list (list step) :=
  match ne with
  | (Some k, s) => if is_group s then paths s (p ++ [mk k]) else [p ++ [mk k]]
  | (None, _) => []
  end.
Definition own_paths (p : list step) (ne : option N * errkind) : list (list step) :=
  match fst ne with None => [p] | Some _ => [] end.

(* an iterable-level group reports, for every noted child in order, the child's own paths below [index];
   a class-level group the same below .name; entries without a note (forbidden extra keys, wrong tuple
   arity, a failing __init__) are reported at the group's own path, after the noted ones *)
Theorem paths_iter subs p : paths (EIterVal subs) p = flat_map (child_paths SIdx p) subs ++ flat_map (own_paths p) subs.
Proof.
  cbn [paths]. f_equal. induction subs as [|[[k|] s] r IH]; cbn [flat_map child_paths]; [reflexivity| |exact IH].
  rewrite IH. f_equal. destruct s; reflexivity.
Qed.
Theorem paths_class c subs p : paths (EClassVal c subs) p = flat_map (child_paths SField p) subs ++ flat_map (own_paths p) subs.
Proof.
  cbn [paths]. f_equal. induction subs as [|[[k|] s] r IH]; cbn [flat_map child_paths]; [reflexivity| |exact IH].
  rewrite IH. f_equal. destruct s; reflexivity.
Qed.

(* transform_error is prefix-compositional: the paths reported below a position are the paths the same tree
   reports at the root, each prefixed with that position *)
Lemma paths_prefix : forall e p, paths e p = map (fun s => p ++ s) (paths e []).
Proof.
  fix IH 1. intros e p.
  assert (G : forall (mk : N -> step) (subs : list (option N * errkind)),
            (forall ne, In ne subs -> forall q, paths (snd ne) q = map (fun s => q ++ s) (paths (snd ne) [])) ->
            flat_map (child_paths mk p) subs ++ flat_map (own_paths p) subs
            = map (fun s => p ++ s) (flat_map (child_paths mk []) subs ++ flat_map (own_paths []) subs)).
  { intros mk subs Hs. rewrite map_app. f_equal.
    - induction subs as [|[[k|] s] r IHr]; cbn [flat_map child_paths]; [reflexivity| |].
      + rewrite map_app. rewrite IHr by (intros ne Hne; apply Hs; now right). f_equal.
        destruct (is_group s).
        * pose proof (Hs (Some k, s) (or_introl eq_refl)) as Hk. cbn [snd] in Hk.
          rewrite (Hk (p ++ [mk k])), (Hk ([] ++ [mk k])). cbn [app]. rewrite map_map.
          apply map_ext. intros a. now rewrite <- app_assoc.
        * reflexivity.
      + apply IHr. intros ne Hne. apply Hs. now right.
    - induction subs as [|[[k|] s] r IHr]; cbn [flat_map own_paths fst app map]; [reflexivity| |].
      + apply IHr. intros ne Hne. apply Hs. now right.
      + rewrite app_nil_r. f_equal. apply IHr. intros ne Hne. apply Hs. now right. }
  destruct e as [| | | | |cl extra|cl subs|subs| | |]; try (cbn [paths map]; now rewrite app_nil_r).
  - rewrite !paths_class. apply G.
    induction subs as [|[n s] r IHr]; intros ne Hne q; [contradiction|].
    destruct Hne as [<-|Hne]; [cbn [snd]; apply IH | now apply IHr].
  - rewrite !paths_iter. apply G.
    induction subs as [|[n s] r IHr]; intros ne Hne q; [contradiction|].
    destruct Hne as [<-|Hne]; [cbn [snd]; apply IH | now apply IHr].
Qed.
