(* SrcObligationsGen.v -- side-conditions on the template flags translator T1 reads off
   gen/__init__.py (Gen/GenSrc.v); each closed by computation, named after what the source must do. *)
From V.Gen Require Import GenSrc.

(* gen/__init__.py: the detailed template raises the errors collected after instantiation (fixed finding F2) *)
Lemma src_detailed_rechecks_errors : src_recheck = true.
Proof. reflexivity. Qed.
(* gen/__init__.py: the fast template emits keyword-only arguments after the positional ones (fixed finding F1) *)
Lemma src_fast_kw_last : src_kw_last = true.
Proof. reflexivity. Qed.
(* converters.py: structure_attrs_fromtuple passes keyword-only attributes by keyword and leaves init=False attributes out of the call (fixed finding F27) *)
Lemma src_tuple_passes_kw_only_by_keyword : src_tuple_by_kw = true.
Proof. reflexivity. Qed.
