(* BaseRoundtrip.v -- C01 for data unstructured by BaseConverter: collections go by the RUNTIME class of their elements and keep
   their container class, classes go attribute by attribute by declared type.  What BaseConverter unstructures from a value of
   a type it has hooks for at every depth ([base_deep]), either converter class structures back to THE SAME value, in either
   validation mode, whenever it is given enough fuel (explicit bound, linear in the size of the value): the two directions do not
   spend fuel alike (unstructuring None or going through Optional costs nothing on BaseConverter's side), so the statement is
   "for every m above the bound", not "same fuel". *)
From Coq Require Import Lia.
From V.Model Require Import Base Templates Conv ConvSpec.
From V.Proofs Require Import TemplatesProofs UnstructProofs ClassSound ClassRoundtrip ConvRoundtrip ConvMono ConvUnAgree.

Section BR.
Variable E : env.
Variable cfgB cfgS : ccfg.
Hypothesis HB : c_gen cfgB = false.
Hypothesis H_tuple : c_tuple cfgB = c_tuple cfgS.
Hypothesis H_tuple_kw : c_tuple cfgS = true -> c_tuple_kw cfgS = true.
Hypothesis HS_forbid : c_forbid cfgS = false.
Hypothesis HS_recheck : c_recheck cfgS = true.
Hypothesis HS_kw : c_kw_last cfgS = true.
Hypothesis H_coerce_id : forall p e, e_coerce E p (VAtom p e) = Ok (VAtom p e).
Hypothesis H_env : forall c cd, e_class E c = Some cd ->
  rt_class_ok cfgS c cd /\ (forall nm ft, assoc (cd_types cd) nm = Some ft -> base_deep ft = true).
Variable M : nat.
Hypothesis H_M : forall c cd nm ft, e_class E c = Some cd -> assoc (cd_types cd) nm = Some ft -> maxw ft <= M.
Hypothesis H_M2 : 2 <= M.

Notation unb := (unstructure E cfgB).
Notation st := (structure E cfgS).
Notation BY := (BYb E cfgB).
Notation rtv := (rt_value E false).

Let A_ann : false = true -> c_gen cfgS = true := fun X => match Bool.diff_false_true X with end.

(* ---------------- None ---------------- *)
Lemma st_none m t : rtv VNone t -> base_deep t = true -> 1 <= m -> st m t VNone = Ok VNone.
Proof.
  intros Hrt Hb Hm. destruct m as [|m]; [lia|]. inversion Hrt; subst; try discriminate Hb; cbn [structure]; try reflexivity.
  match goal with X : vmem _ _ = true |- _ => rewrite X end. reflexivity.
Qed.

Lemma BY_atomic n v w : atomic v = true -> BY n v = Ok w -> w = v.
Proof.
  destruct v; cbn; intros Ha H; try discriminate; [now inversion H|].
  destruct n; [discriminate|]. cbn [unstructure] in H. rewrite HB in H. now inversion H.
Qed.

(* a value other than None never unstructures to None *)
Lemma BY_not_none : forall x t, rtv x t -> x <> VNone -> forall fuel u, BY fuel x = Ok u -> u <> VNone.
Proof.
  intros x t Hrt. induction Hrt; intros Hne fuel u Hu.
  - rewrite (BY_atomic fuel v u H Hu). exact Hne.
  - rewrite (BY_atomic fuel (VAtom p e) u eq_refl Hu). discriminate.
  - unfold BYb in Hu. cbn [rt_type] in Hu. destruct fuel; [discriminate|]. cbn [unstructure] in Hu. rewrite HB in Hu.
    unfold member_value in Hu. rewrite H in Hu. inversion Hu. discriminate.
  - rewrite (BY_atomic fuel v u H0 Hu). exact Hne.
  - unfold BYb in Hu. cbn [rt_type] in Hu. destruct fuel; [discriminate|]. cbn [unstructure] in Hu. rewrite HB in Hu. cbn [iter_val bind] in Hu.
    destruct (map_res _ l); cbn [bind same_class] in Hu; try discriminate. inversion Hu. discriminate.
  - unfold BYb in Hu. cbn [rt_type] in Hu. destruct fuel; [discriminate|]. cbn [unstructure] in Hu. rewrite HB in Hu. cbn [iter_val bind] in Hu.
    destruct (map_res _ l); cbn [bind same_class] in Hu; try discriminate. inversion Hu. discriminate.
  - unfold BYb in Hu. cbn [rt_type] in Hu. destruct fuel; [discriminate|]. cbn [unstructure] in Hu. rewrite HB in Hu. cbn [iter_val bind] in Hu.
    destruct (map_res _ l); cbn [bind same_class] in Hu; try discriminate. inversion Hu. discriminate.
  - unfold BYb in Hu. cbn [rt_type] in Hu. destruct fuel; [discriminate|]. cbn [unstructure] in Hu. rewrite HB in Hu. cbn [iter_val bind] in Hu.
    destruct (map_res _ l); cbn [bind same_class] in Hu; try discriminate. destruct (set_of_list _ _); cbn [bind] in Hu; try discriminate. inversion Hu. discriminate.
  - unfold BYb in Hu. cbn [rt_type] in Hu. destruct fuel; [discriminate|]. cbn [unstructure] in Hu. rewrite HB in Hu. cbn [iter_val bind] in Hu.
    destruct (map_res _ l); cbn [bind same_class] in Hu; try discriminate. destruct (set_of_list _ _); cbn [bind] in Hu; try discriminate. inversion Hu. discriminate.
  - unfold BYb in Hu. cbn [rt_type] in Hu. destruct fuel; [discriminate|]. cbn [unstructure] in Hu. rewrite HB in Hu. cbn [items_val bind] in Hu.
    destruct (un_pairs _ _ _); cbn [bind] in Hu; try discriminate. inversion Hu. discriminate.
  - contradiction.
  - eapply IHHrt; eassumption.
  - unfold BYb in Hu. cbn [rt_type] in Hu. destruct fuel; [discriminate|]. cbn [unstructure] in Hu. rewrite HB in Hu. rewrite H in Hu. cbn [inst_fields] in Hu.
    destruct (c_tuple cfgB).
    + destruct (un_interp_tuple _ _ _ _); cbn [bind] in Hu; try discriminate. inversion Hu. discriminate.
    + destruct (un_interp_dict _ _ _ _); cbn [bind] in Hu; try discriminate. inversion Hu. discriminate.
  - eapply IHHrt; eassumption.
  - eapply IHHrt; eassumption.
Qed.

(* set elements and mapping keys: atoms, enum members, literals *)
Lemma BY_key t a n w : key_ty t = true -> base_deep t = true -> rtv a t -> BY n a = Ok w -> w = key_enc E a.
Proof.
  intros Hk Hb Hrt Hu. destruct t; cbn in Hk, Hb; try discriminate; inversion Hrt; subst.
  - match goal with X : BY n (VAtom ?p ?e) = Ok w |- _ => now rewrite (BY_atomic n (VAtom p e) w eq_refl X) end.
  - unfold BYb in Hu. cbn [rt_type] in Hu. destruct n; [discriminate|]. cbn [unstructure] in Hu. rewrite HB in Hu. unfold member_value in Hu.
    cbn [key_enc]. match goal with X : nth_error _ _ = Some _ |- _ => rewrite X in Hu |- * end. now inversion Hu.
  - match goal with X : atomic _ = true |- _ => rewrite (BY_atomic n _ w X Hu); symmetry; now apply atomic_enc end.
Qed.

Lemma BY_key_map n t l r : key_ty t = true -> base_deep t = true -> Forall (fun x => rtv x t) l ->
  Forall2 (fun x y => BY n x = Ok y) l r -> r = map (key_enc E) l.
Proof.
  intros Hk Hb HF Em. induction Em as [|a b l r Hab _ IHm]; [reflexivity|]. inversion HF; subst. cbn. f_equal; [eapply BY_key; eassumption | auto].
Qed.

Lemma un_interp_dict_handlers (V : Type) (hs : N -> V -> result V) l (i : inst V) dd :
  un_interp_dict V hs l i = Ok dd ->
  forall f, In f l -> exists v w, assoc i (f_name f) = Some v /\ hs (f_name f) v = Ok w.
Proof.
  revert dd. induction l as [|g l IH]; intros dd H f Hf; [contradiction|]. cbn [un_interp_dict] in H.
  unfold getattr in H.
  destruct (assoc i (f_name g)) as [v|] eqn:Ea; cbn [bind] in H; try discriminate.
  destruct (hs (f_name g) v) as [w| |] eqn:Eh; cbn [bind] in H; try discriminate.
  destruct (un_interp_dict V hs l i) as [rest| |] eqn:Er; cbn [bind] in H; try discriminate.
  destruct Hf as [Hf|Hf]; [subst; eauto|]. eapply IH; eauto.
Qed.

Definition bound (x : val) (t : ty) : nat := vsize x * S M + tw t.

Lemma vsize_pos x : 1 <= vsize x.
Proof. destruct x; cbn; lia. Qed.

Lemma BY_S n x : x <> VNone -> BY (S n) x = unb (S n) (rt_type x) x.
Proof. destruct x; intros H; try reflexivity. contradiction. Qed.

(* one more unit of BaseConverter fuel, any wrapper depth of the declared type *)
Lemma base_rt_step n :
  (forall t x u m, rtv x t -> base_deep t = true -> maxw t <= M -> BY n x = Ok u -> bound x t <= m -> st m t u = Ok x) ->
  forall k t x u m, tw t <= k -> rtv x t -> base_deep t = true -> maxw t <= M -> x <> VNone ->
    unb (S n) (rt_type x) x = Ok u -> bound x t <= m -> st m t u = Ok x.
Proof.
  intros IH. induction k as [|k IHk]; intros t x u m Hk Hrt Hb Hm Hne Hu Hn; [destruct t; cbn in Hk; lia|].
  assert (Hpos : 1 <= vsize x) by apply vsize_pos.
  destruct m as [|m]; [unfold bound in Hn; nia|].
  inversion Hrt; subst; clear Hrt; cbn [rt_type] in Hu; cbn [unstructure] in Hu; rewrite HB in Hu; cbn [base_deep] in Hb; try discriminate Hb.
  - (* Any: an atom *)
    match goal with X : atomic _ = true |- _ => rename X into Ha end.
    destruct x; try discriminate Ha; [contradiction|]. cbn [rt_type unstructure] in Hu. inversion Hu; subst. reflexivity.
  - (* prim *) inversion Hu; subst. cbn [structure]. apply H_coerce_id.
  - (* enum *) unfold member_value in Hu. match goal with X : nth_error _ _ = Some _ |- _ => rewrite X in Hu end. inversion Hu; subst.
    cbn [structure]. match goal with X : find_member _ _ = Some _ |- _ => rewrite X end. reflexivity.
  - (* literal: an atom *)
    match goal with X : atomic _ = true |- _ => rename X into Ha end.
    destruct x; try discriminate Ha; [contradiction|]. cbn [rt_type unstructure] in Hu. inversion Hu; subst. cbn [structure].
    match goal with X : vmem _ _ = true |- _ => rewrite X end. reflexivity.
  - (* list *)
    match goal with X : Forall _ l |- _ => rename X into HF end.
    cbn [iter_val bind] in Hu. destruct (map_res _ l) as [r| |] eqn:Em; cbn [bind same_class] in Hu; try discriminate. inversion Hu; subst.
    apply map_res_forall2 in Em. cbn [structure iter_val bind]. cbn [maxw] in Hm. apply max_le_r in Hm.
    unfold bound in Hn. cbn [vsize tw] in Hn. fold (lsum l) in Hn.
    destruct (is_any t0) eqn:Ea.
    + destruct t0; try discriminate. f_equal. f_equal. apply forall2_eq. eapply forall_forall2; [exact HF | exact Em|].
      intros a b Ha Hab. inversion Ha; subst. symmetry. symmetry. eapply BY_atomic; [eassumption | exact Hab].
    + assert (F : Forall2 (fun y w => st m t0 w = Ok y) l r).
      { eapply forall2_in; [exact Em|]. intros y w Hy _ Hyw. rewrite Forall_forall in HF.
        eapply IH; [apply HF; exact Hy | exact Hb | exact Hm | exact Hyw |]. unfold bound. pose proof (lsum_in y l Hy). pose proof (tw_le_maxw t0). nia. }
      rewrite (coll_rt _ _ _ _ F). reflexivity.
  - (* homogeneous tuple *)
    match goal with X : Forall _ l |- _ => rename X into HF end.
    cbn [iter_val bind] in Hu. destruct (map_res _ l) as [r| |] eqn:Em; cbn [bind same_class] in Hu; try discriminate. inversion Hu; subst.
    apply map_res_forall2 in Em. cbn [structure iter_val bind]. cbn [maxw] in Hm. apply max_le_r in Hm.
    unfold bound in Hn. cbn [vsize tw] in Hn. fold (lsum l) in Hn.
    destruct (is_any t0) eqn:Ea.
    + destruct t0; try discriminate. f_equal. f_equal. apply forall2_eq. eapply forall_forall2; [exact HF | exact Em|].
      intros a b Ha Hab. inversion Ha; subst. symmetry. symmetry. eapply BY_atomic; [eassumption | exact Hab].
    + assert (F : Forall2 (fun y w => st m t0 w = Ok y) l r).
      { eapply forall2_in; [exact Em|]. intros y w Hy _ Hyw. rewrite Forall_forall in HF.
        eapply IH; [apply HF; exact Hy | exact Hb | exact Hm | exact Hyw |]. unfold bound. pose proof (lsum_in y l Hy). pose proof (tw_le_maxw t0). nia. }
      rewrite (coll_rt _ _ _ _ F). reflexivity.
  - (* set *)
    match goal with X : key_ty _ = true |- _ => rename X into Hkt end.
    match goal with X : Forall _ l |- _ => rename X into HF end.
    match goal with X : set_like l |- _ => rename X into HS end.
    cbn [iter_val bind] in Hu. destruct (map_res _ l) as [r| |] eqn:Em; cbn [bind same_class] in Hu; try discriminate.
    apply map_res_forall2 in Em.
    assert (Hr : r = map (key_enc E) l) by (eapply BY_key_map; [exact Hkt | exact Hb | exact HF | exact Em]). subst r.
    pose proof (set_enc E cfgS false A_ann t0 l Hkt [] (Forall_nil _) HF HS) as Hse. cbn in Hse. rewrite Hse in Hu. cbn [bind] in Hu. inversion Hu; subst.
    cbn [structure iter_val bind]. rewrite (key_not_any _ Hkt). cbn [maxw] in Hm. apply max_le_r in Hm.
    unfold bound in Hn. cbn [vsize tw] in Hn. fold (lsum l) in Hn.
    assert (F : Forall2 (fun y w => st m t0 w = Ok y) l (map (key_enc E) l)).
    { eapply forall2_in; [exact Em|]. intros y w Hy _ Hyw. rewrite Forall_forall in HF.
      eapply IH; [apply HF; exact Hy | exact Hb | exact Hm | exact Hyw |]. unfold bound. pose proof (lsum_in y l Hy). pose proof (tw_le_maxw t0). nia. }
    rewrite (set_coll_rt _ _ _ _ F HS). reflexivity.
  - (* frozenset *)
    match goal with X : key_ty _ = true |- _ => rename X into Hkt end.
    match goal with X : Forall _ l |- _ => rename X into HF end.
    match goal with X : set_like l |- _ => rename X into HS end.
    cbn [iter_val bind] in Hu. destruct (map_res _ l) as [r| |] eqn:Em; cbn [bind same_class] in Hu; try discriminate.
    apply map_res_forall2 in Em.
    assert (Hr : r = map (key_enc E) l) by (eapply BY_key_map; [exact Hkt | exact Hb | exact HF | exact Em]). subst r.
    pose proof (set_enc E cfgS false A_ann t0 l Hkt [] (Forall_nil _) HF HS) as Hse. cbn in Hse. rewrite Hse in Hu. cbn [bind] in Hu. inversion Hu; subst.
    cbn [structure iter_val bind]. rewrite (key_not_any _ Hkt). cbn [maxw] in Hm. apply max_le_r in Hm.
    unfold bound in Hn. cbn [vsize tw] in Hn. fold (lsum l) in Hn.
    assert (F : Forall2 (fun y w => st m t0 w = Ok y) l (map (key_enc E) l)).
    { eapply forall2_in; [exact Em|]. intros y w Hy _ Hyw. rewrite Forall_forall in HF.
      eapply IH; [apply HF; exact Hy | exact Hb | exact Hm | exact Hyw |]. unfold bound. pose proof (lsum_in y l Hy). pose proof (tw_le_maxw t0). nia. }
    rewrite (set_coll_rt _ _ _ _ F HS). reflexivity.
  - (* mapping *)
    match goal with X : key_ty _ = true |- _ => rename X into Hkt end.
    match goal with X : Forall _ kvs |- _ => rename X into HF end.
    match goal with X : dict_like kvs |- _ => rename X into HD end.
    apply andb_prop in Hb. destruct Hb as [Hbk Hbv].
    cbn [items_val bind] in Hu. unfold un_pairs in Hu.
    destruct (map_res _ kvs) as [ps| |] eqn:Em; cbn [bind] in Hu; try discriminate.
    apply map_res_forall2 in Em.
    assert (R : Forall2 (fun kv p => BY n (fst kv) = Ok (fst p) /\ BY n (snd kv) = Ok (snd p)) kvs ps).
    { eapply forall2_impl; [|exact Em]. intros kv p Hp. cbn beta in Hp.
      destruct (match fst kv with VNone => Ok VNone | _ => unb n (rt_type (fst kv)) (fst kv) end) as [k'| |] eqn:Ek; cbn [bind] in Hp; try discriminate.
      destruct (match snd kv with VNone => Ok VNone | _ => unb n (rt_type (snd kv)) (snd kv) end) as [v'| |] eqn:Ev; cbn [bind] in Hp; try discriminate.
      inversion Hp; subst. cbn [fst snd]. split; [exact Ek | exact Ev]. }
    assert (Hps : dict_of_pairs [] ps = Ok ps).
    { apply (dict_enc E cfgS false A_ann kt kvs ps Hkt) with (acc := []) (accp := []); [|constructor|exact HD].
      eapply forall_forall2; [exact HF | exact R|]. intros kv p [Hkr _] [Hku _]. split; [exact Hkr|]. eapply BY_key; eassumption. }
    rewrite Hps in Hu. cbn [bind] in Hu. inversion Hu; subst.
    cbn [structure]. rewrite (key_not_any _ Hkt). cbn [andb items_val bind]. cbn [maxw] in Hm.
    unfold bound in Hn. cbn [vsize tw] in Hn. fold (dsum kvs) in Hn.
    assert (F : Forall2 (fun kv p => st m kt (fst p) = Ok (fst kv) /\ st m vt (snd p) = Ok (snd kv)) kvs ps).
    { eapply forall2_in; [exact R|]. intros [kk vv] p Hkv _ [Hku Hvu]. rewrite Forall_forall in HF. destruct (HF _ Hkv) as [Hkr Hvr]. cbn [fst snd] in *.
      pose proof (dsum_in kk vv kvs Hkv). pose proof (tw_le_maxw kt). pose proof (tw_le_maxw vt).
      pose proof (max_le_l _ _ _ Hm). pose proof (max_le_r _ _ _ Hm).
      split; (eapply IH; [eassumption | eassumption | eassumption | eassumption | unfold bound; nia]). }
    rewrite (map_coll_rt _ _ _ _ _ F HD). reflexivity.
  - (* Optional: None *) contradiction.
  - (* Optional: a value *)
    match goal with X : rtv x t0 |- _ => rename X into Hx end.
    assert (Hnu : u <> VNone).
    { eapply (BY_not_none x t0 Hx Hne (S n)). rewrite (BY_S n x Hne). cbn [unstructure]. rewrite HB. exact Hu. }
    cbn [structure]. cbn [maxw] in Hm. cbn [tw] in Hk. unfold bound in Hn. cbn [tw] in Hn.
    assert (G : st m t0 u = Ok x).
    { apply IHk; [lia | exact Hx | exact Hb | exact (max_le_r _ _ _ Hm) | exact Hne | cbn [unstructure]; rewrite HB; exact Hu | unfold bound; lia]. }
    destruct u; try exact G. contradiction.
  - (* class *)
    match goal with X : e_class E c = Some _ |- _ => rename X into Hc end.
    match goal with X : map fst i = _ |- _ => rename X into Hkeys end.
    match goal with X : Forall _ i |- _ => rename X into HF end.
    rewrite Hc in Hu. cbn [inst_fields] in Hu. cbn [structure]. rewrite Hc. unfold nov in *.
    destruct (H_env c cd Hc) as ((W & HA) & Hbd).
    assert (A_init : forall f, In f (cd_fields cd) -> f_init f = true) by (intros f Hf; now destruct (HA f Hf)).
    assert (A_conv : forall f, In f (cd_fields cd) -> f_conv f = false) by (intros f Hf; now destruct (HA f Hf)).
    match type of Hu with context [un_interp_dict _ ?h _ _] => set (hs_u := h) in Hu end.
    match goal with |- context [tpl_interp_dict _ _ ?h _ _] => set (hs_s := h) end.
    pose (hu := fun nm v => match hs_u nm v with Ok w => w | _ => VNone end).
    unfold bound in Hn. cbn [vsize tw] in Hn. fold (fsum i) in Hn.
    assert (H_inv' : forall f, In f (cd_fields cd) -> hs_u (f_name f) (aval val VNone i f) = Ok (hu (f_name f) (aval val VNone i f)) ->
              hs_s (f_name f) (hu (f_name f) (aval val VNone i f)) = Ok (aval val VNone i f)).
    { intros f Hf Eh. pose proof (vals_ok val VNone (cd_fields cd) i Hkeys f Hf) as Ea. apply assoc_in in Ea.
      rewrite Forall_forall in HF. pose proof (HF _ Ea) as Hv. cbn [fst snd] in Hv. pose proof (fsum_in _ _ _ Ea) as Hsz.
      unfold hs_u in Eh. unfold hs_s. unfold field_ty in Hv.
      destruct (assoc (cd_types cd) (f_name f)) as [ft|] eqn:Et.
      - pose proof (H_M c cd _ _ Hc Et) as Hft. pose proof (tw_le_maxw ft).
        eapply IH; [exact Hv | exact (Hbd _ _ Et) | exact Hft | eapply by_class_of_typed; [exact HB | exact Hv | exact (Hbd _ _ Et) | exact Eh] | unfold bound; nia].
      - inversion Hv; subst. match goal with X : atomic _ = true |- _ => rewrite (BY_atomic n _ _ X Eh) end. reflexivity. }
    rewrite H_tuple in Hu. destruct (c_tuple cfgS) eqn:Etup.
    { (* tuple strategy *)
      destruct (un_interp_tuple val hs_u (cd_fields cd) i) as [tt| |] eqn:Eg; cbn [bind] in Hu; try discriminate.
      inversion Hu; subst u. clear Hu.
      assert (H_hu : forall f, In f (cd_fields cd) ->
                hs_u (f_name f) (aval val VNone i f) = Ok (hu (f_name f) (aval val VNone i f))).
      { intros f Hf. pose proof (un_interp_tuple_handlers val hs_u (cd_fields cd) i tt Eg f Hf) as (v & w & Ea & Eh).
        rewrite (vals_ok val VNone (cd_fields cd) i Hkeys f Hf) in Ea. inversion Ea; subst v. unfold hu. now rewrite Eh. }
      rewrite (un_interp_tuple_all val (cd_fields cd) i Hkeys VNone hs_u hu H_hu) in Eg. inversion Eg; subst tt. clear Eg.
      assert (Hkw : c_tuple_kw cfgS = true) by (apply H_tuple_kw; reflexivity). rewrite Hkw.
      rewrite (class_rt_tuple val noK (cd_fields cd) (wf_alias _ _ _ _ W) (wf_name _ _ _ _ W) A_init A_conv i Hkeys VNone hs_s hu
                 (fun f Hf => H_inv' f Hf (H_hu f Hf))); [|reflexivity].
      rewrite andb_false_r. reflexivity. }
    destruct (un_interp_dict val hs_u (cd_fields cd) i) as [dd| |] eqn:Eg; cbn [bind] in Hu; try discriminate.
    inversion Hu; subst u. clear Hu.
    assert (H_hu : forall f, In f (cd_fields cd) ->
              hs_u (f_name f) (aval val VNone i f) = Ok (hu (f_name f) (aval val VNone i f))).
    { intros f Hf. pose proof (un_interp_dict_handlers val hs_u (cd_fields cd) i dd Eg f Hf) as (v & w & Ea & Eh).
      rewrite (vals_ok val VNone (cd_fields cd) i Hkeys f Hf) in Ea. inversion Ea; subst v. unfold hu. now rewrite Eh. }
    rewrite (un_interp_all val VNone (cd_fields cd) i Hkeys hs_u hu H_hu) in Eg.
    inversion Eg; subst dd. clear Eg.
    cbn [obj_of_val]. rewrite nkeys_skey.
    assert (H_inv : forall f, In f (cd_fields cd) ->
              hs_s (f_name f) (hu (f_name f) (aval val VNone i f)) = Ok (aval val VNone i f)) by (intros f Hf; exact (H_inv' f Hf (H_hu f Hf))).
    rewrite HS_forbid. cbn [andb].
    assert (Of : t_forbid (topt cfgS c) = false) by (cbn; exact HS_forbid).
    destruct (c_gen cfgS); [destruct (c_dv cfgS)|].
    + rewrite HS_recheck.
      rewrite (class_rt_detailed val VNone noK (topt cfgS c) eq_refl eq_refl (cd_fields cd) W A_init A_conv i Hkeys hs_s hu H_inv Of). reflexivity.
    + rewrite HS_kw.
      rewrite (class_rt_fast val VNone noK (topt cfgS c) eq_refl eq_refl (cd_fields cd) W A_init A_conv i Hkeys hs_s hu H_inv Of). reflexivity.
    + pose proof (interp_refines_spec val noK (topt cfgS c) eq_refl Of hs_s (cd_fields cd) W A_init (D val VNone (cd_fields cd) i hu)) as R.
      rewrite (spec_roundtrip val VNone noK (topt cfgS c) eq_refl eq_refl (cd_fields cd) W A_init A_conv i Hkeys hs_s hu H_inv Of) in R.
      destruct (tpl_interp_dict val noK hs_s (cd_fields cd) (dict_obj (D val VNone (cd_fields cd) i hu))) as [j| |]; cbn in R; try discriminate.
      inversion R; subst. reflexivity.
Qed.

Theorem base_rt : forall n t x u m, rtv x t -> base_deep t = true -> maxw t <= M -> BY n x = Ok u -> bound x t <= m -> st m t u = Ok x.
Proof.
  induction n as [|n IH]; intros t x u m Hrt Hb Hm Hu Hn.
  - destruct x; cbn in Hu; try discriminate. inversion Hu; subst. apply st_none; [exact Hrt | exact Hb | unfold bound in Hn; cbn in Hn; lia].
  - assert (Hd : x = VNone \/ x <> VNone) by (destruct x; [left; reflexivity | right; discriminate ..]).
    destruct Hd as [->|Hne].
    + cbn in Hu. inversion Hu; subst. apply st_none; [exact Hrt | exact Hb | unfold bound in Hn; cbn in Hn; lia].
    + rewrite (BY_S n x Hne) in Hu. eapply (base_rt_step n IH (tw t)); eauto.
Qed.

(* C01, data unstructured by BaseConverter: by the declared type at the top *)
Theorem base_roundtrip : forall n t x u m, rtv x t -> base_deep t = true -> maxw t <= M -> unb n t x = Ok u -> bound x t <= m -> st m t u = Ok x.
Proof.
  intros n t x u m Hrt Hb Hm Hu Hn. eapply base_rt; [exact Hrt | exact Hb | exact Hm | | exact Hn].
  eapply by_class_of_typed; [exact HB | exact Hrt | exact Hb | exact Hu].
Qed.

End BR.
