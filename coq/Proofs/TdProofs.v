(* TdProofs.v -- the TypedDict structure templates of gen/typeddicts.py (Model/TdTemplates.v) on dict
   payloads, without per-key overrides (what a converter generates on its own): both templates refine
   one specification, so they agree; the result keeps every key of the payload in place; the forbid
   check decides on exactly the undeclared keys. *)
From Coq Require Import List NArith Bool Lia.
From V.Model Require Import Base Templates TdTemplates.
From V.Proofs Require Import TemplatesProofs.
Import ListNotations.

Lemma assoc_in_keys {B} (l : list (N * B)) k v : assoc l k = Some v -> In k (keys l).
Proof.
  induction l as [|[k' x] l IH]; cbn; [discriminate|].
  destruct (N.eqb_spec k' k) as [->|Hne]; [now left | intros H; right; now apply IH].
Qed.

Lemma assoc_notin_keys {B} (l : list (N * B)) k : assoc l k = None -> ~ In k (keys l).
Proof.
  induction l as [|[k' x] l IH]; cbn; [tauto|].
  destruct (N.eqb_spec k' k) as [->|Hne]; [discriminate|]. intros H [E|E]; [congruence | now apply IH].
Qed.

Lemma mem_N_in k l : mem_N k l = true <-> In k l.
Proof.
  unfold mem_N. rewrite existsb_exists. split.
  - intros [x [Hin E]]. apply N.eqb_eq in E. now subst.
  - intros H. exists k. split; [exact H | apply N.eqb_refl].
Qed.

Lemma mem_N_false k l : ~ In k l -> mem_N k l = false.
Proof. intros H. destruct (mem_N k l) eqn:E; [|reflexivity]. apply mem_N_in in E. contradiction. Qed.

Lemma assoc_nodup_in {B} (l : list (N * B)) k v x : NoDup (keys l) -> assoc l k = Some v -> In (k, x) l -> x = v.
Proof.
  induction l as [|[k' y] l IH]; cbn; [tauto|]. intros Hn Ha Hin. inversion Hn as [|? ? Hni Hn']; subst.
  destruct (N.eqb_spec k' k) as [->|Hne].
  - injection Ha as <-. destruct Hin as [E|E]; [congruence|].
    exfalso. apply Hni. unfold keys. apply in_map_iff. exists (k, x). split; [reflexivity|exact E].
  - destruct Hin as [E|E]; [congruence|]. now apply IH.
Qed.

(* d[k] = w on a dict whose key k is present keeps every position *)
Lemma dict_set_map {V} (l : list (N * V)) (g : N -> V -> V) n w :
  NoDup (keys l) -> In n (keys l) ->
  dict_set (map (fun kv => (fst kv, g (fst kv) (snd kv))) l) n w
  = map (fun kv => (fst kv, if N.eqb (fst kv) n then w else g (fst kv) (snd kv))) l.
Proof.
  induction l as [|[k x] l IH]; cbn; [tauto|]. intros Hn Hin. inversion Hn as [|? ? Hni Hn']; subst.
  destruct (N.eqb_spec k n) as [->|Hne].
  - f_equal. apply map_ext_in. intros [k' x'] Hin'. cbn.
    destruct (N.eqb_spec k' n) as [->|]; [|reflexivity].
    exfalso. apply Hni. unfold keys. apply in_map_iff. exists (n, x'). split; [reflexivity|exact Hin'].
  - f_equal. apply IH; [exact Hn'|]. destruct Hin as [E|E]; [congruence|exact E].
Qed.

Section TdP.
Variable V : Type.
Variable opt : tdopts.
Variable hs : N -> V -> result V.
Let ov : N -> fov := fun _ => neutral.
Variable d : list (N * V).
Hypothesis Hnd : NoDup (keys d).

Let o := @dict_obj V d.

(* the value a processed key ends up with *)
Definition nv (k : N) (v : V) : V := match hs k v with Ok w => w | _ => v end.

(* the payload with the keys selected by m converted, every key in its place *)
Definition curS (m : N -> bool) : list (N * V) :=
  map (fun kv => (fst kv, if m (fst kv) then nv (fst kv) (snd kv) else snd kv)) d.

Definition tgood (f : tdfield) : bool :=
  match assoc d (d_name f) with
  | Some v => is_ok (hs (d_name f) v)
  | None => negb (d_required f)
  end.

Definition td_forbid_ok (fs : list tdfield) : bool :=
  negb (td_forbid opt) || match td_unknown ov fs (keys d) with [] => true | _ => false end.

Definition td_spec (fs : list tdfield) : option (list (N * V)) :=
  if forallb tgood fs && td_forbid_ok fs then Some (curS (fun k => mem_N k (map d_name fs))) else None.

Lemma curS_ext m m' : (forall k, In k (keys d) -> m k = m' k) -> curS m = curS m'.
Proof.
  intros H. unfold curS. apply map_ext_in. intros [k x] Hin. cbn.
  rewrite (H k); [reflexivity|]. unfold keys. apply in_map_iff. exists (k, x). split; [reflexivity|exact Hin].
Qed.

Lemma curS_none : curS (fun _ => false) = d.
Proof. unfold curS. rewrite <- (map_id d) at 2. apply map_ext. intros [k x]; reflexivity. Qed.

Lemma set_cur m n v w :
  assoc d n = Some v -> hs n v = Ok w ->
  dict_set (curS m) n w = curS (fun k => N.eqb k n || m k).
Proof.
  intros Ha Hh. unfold curS.
  rewrite (dict_set_map d (fun k x => if m k then nv k x else x) n w Hnd (assoc_in_keys _ _ _ Ha)).
  apply map_ext_in. intros [k x] Hin. cbn.
  destruct (N.eqb_spec k n) as [->|Hne]; cbn; [|reflexivity].
  rewrite (assoc_nodup_in d n v x Hnd Ha Hin). unfold nv. now rewrite Hh.
Qed.

Lemma td_key_neutral f : td_key ov f = d_name f.  Proof. reflexivity. Qed.
Lemma td_renamed_neutral f : td_renamed opt ov f = false.  Proof. reflexivity. Qed.
Lemma td_included_all fs : filter (td_included ov) fs = fs.
Proof. induction fs as [|f fs IH]; cbn; [reflexivity | now rewrite IH]. Qed.

Lemma try_good f m v w :
  assoc d (d_name f) = Some v -> hs (d_name f) v = Ok w ->
  td_try V opt ov hs o f (Some (curS m)) = Ok (Some (curS (fun k => N.eqb k (d_name f) || m k))).
Proof.
  intros Ha Hh. unfold td_try, td_fetch. rewrite td_key_neutral, td_renamed_neutral. cbn.
  rewrite Ha. cbn. rewrite Hh. cbn. now rewrite (set_cur m _ v w Ha Hh).
Qed.

Lemma try_bad_present f r v :
  assoc d (d_name f) = Some v -> is_ok (hs (d_name f) v) = false ->
  is_ok (td_try V opt ov hs o f r) = false.
Proof.
  intros Ha Hh. unfold td_try, td_fetch. rewrite td_key_neutral. cbn. rewrite Ha. cbn.
  destruct (hs (d_name f) v); [discriminate | reflexivity | reflexivity].
Qed.

Lemma try_bad_absent f r :
  assoc d (d_name f) = None -> is_ok (td_try V opt ov hs o f r) = false.
Proof. intros Ha. unfold td_try, td_fetch. rewrite td_key_neutral. cbn. now rewrite Ha. Qed.

Lemma in_dict f : o_in o (td_key ov f) = Ok (mem_N (d_name f) (keys d)).  Proof. reflexivity. Qed.

(* ---- detailed ---- *)
Lemma det_loop_good l : forall m errs,
  forallb tgood l = true ->
  td_det_loop V opt ov hs o l (Some (curS m)) errs = Ok (Some (curS (fun k => mem_N k (map d_name l) || m k)), errs).
Proof.
  induction l as [|f l IH]; intros m errs Hg; [reflexivity|].
  cbn [forallb] in Hg. apply andb_true_iff in Hg as [Hf Hl]. unfold tgood in Hf.
  cbn [td_det_loop]. rewrite in_dict. cbn [bind].
  destruct (assoc d (d_name f)) as [v|] eqn:Ha.
  - destruct (hs (d_name f) v) as [w| |] eqn:Hh; try discriminate.
    rewrite (try_good f m v w Ha Hh).
    assert (Hm : mem_N (d_name f) (keys d) = true) by (apply mem_N_in; eapply assoc_in_keys; exact Ha).
    rewrite Hm.
    assert (E : td_det_loop V opt ov hs o l (Some (curS (fun k => N.eqb k (d_name f) || m k))) errs
                = Ok (Some (curS (fun k => mem_N k (map d_name (f :: l)) || m k)), errs)).
    { rewrite (IH _ errs Hl). do 3 f_equal. apply curS_ext. intros k _. cbn. unfold mem_N. cbn.
      rewrite (N.eqb_sym k (d_name f)). destruct (N.eqb (d_name f) k), (existsb (N.eqb k) (map d_name l)), (m k); reflexivity. }
    destruct (d_required f); exact E.
  - assert (Hm : mem_N (d_name f) (keys d) = false) by (apply mem_N_false; now apply assoc_notin_keys).
    rewrite Hm. destruct (d_required f); [discriminate|].
    rewrite (IH m errs Hl). do 3 f_equal. apply curS_ext. intros k Hk. cbn. unfold mem_N. cbn.
    destruct (N.eqb_spec k (d_name f)) as [->|]; [|reflexivity].
    exfalso. eapply assoc_notin_keys; eassumption.
Qed.

Lemma det_loop_bad l : forall r errs,
  forallb tgood l = false \/ errs <> [] ->
  match td_det_loop V opt ov hs o l r errs with Ok (_, e') => e' <> [] | Err _ => False | OutOfFuel => True end.
Proof.
  induction l as [|f l IH]; intros r errs H.
  - cbn. destruct H as [H|H]; [discriminate | exact H].
  - cbn [td_det_loop]. rewrite in_dict. cbn [bind].
    assert (Hatt : forall (P : Prop), True ->
      (tgood f = false -> forallb tgood (f :: l) = false) -> True) by auto.
    clear Hatt.
    assert (Hskip : forallb tgood (f :: l) = false \/ errs <> [] -> tgood f = true ->
                    forallb tgood l = false \/ errs <> []).
    { intros [X|X] Y; [left; cbn in X; now rewrite Y in X | now right]. }
    assert (Hattempt :
      match (match td_try V opt ov hs o f r with
             | Ok r' => td_det_loop V opt ov hs o l r' errs
             | Err e => td_det_loop V opt ov hs o l r (errs ++ [(Some (d_name f), e)])
             | OutOfFuel => OutOfFuel end)
      with Ok (_, e') => e' <> [] | Err _ => False | OutOfFuel => True end
      \/ (assoc d (d_name f) = None /\ d_required f = false)).
    { destruct (assoc d (d_name f)) as [v|] eqn:Ha.
      - left. destruct (td_try V opt ov hs o f r) as [r'|e|] eqn:Ht; [| |exact I].
        + apply IH. apply Hskip; [exact H|]. unfold tgood. rewrite Ha.
          destruct (is_ok (hs (d_name f) v)) eqn:Hh; [reflexivity|].
          pose proof (try_bad_present f r v Ha Hh) as X. rewrite Ht in X. discriminate.
        + apply IH. right. intros X. apply app_eq_nil in X as [_ X]. discriminate.
      - destruct (d_required f) eqn:Hr; [left | right; split; reflexivity].
        pose proof (try_bad_absent f r Ha) as X.
        destruct (td_try V opt ov hs o f r) as [r'|e|]; [discriminate | | exact I].
        apply IH. right. intros Y. apply app_eq_nil in Y as [_ Y]. discriminate. }
    destruct Hattempt as [Hatt | [Ha Hr]].
    + destruct (d_required f) eqn:Hrq; [exact Hatt|].
      destruct (mem_N (d_name f) (keys d)) eqn:Hm; [exact Hatt|].
      apply IH. apply Hskip; [exact H|]. unfold tgood.
      destruct (assoc d (d_name f)) as [v|] eqn:Ha; [|now rewrite Hrq].
      apply assoc_in_keys, mem_N_in in Ha. congruence.
    + rewrite Hr. rewrite (mem_N_false _ _ (assoc_notin_keys _ _ Ha)).
      apply IH. apply Hskip; [exact H|]. unfold tgood. now rewrite Ha, Hr.
Qed.

Theorem td_detailed_refines_spec fs :
  to_opt (td_detailed V opt ov hs fs o) = option_map Some (td_spec fs).
Proof.
  unfold td_detailed, td_spec, td_forbid_ok. cbn [o dict_obj o_is_mapping o_copy o_keys negb bind].
  rewrite td_included_all. rewrite <- curS_none at 1.
  destruct (forallb tgood fs) eqn:Hg.
  - rewrite (det_loop_good fs _ [] Hg). cbn [bind andb].
    destruct (td_forbid opt); cbn.
    + destruct (td_unknown ov fs (keys d)); cbn; [|reflexivity].
      do 2 f_equal. apply curS_ext. intros k _. now rewrite orb_false_r.
    + do 2 f_equal. apply curS_ext. intros k _. now rewrite orb_false_r.
  - pose proof (det_loop_bad fs (Some (curS (fun _ => false))) [] (or_introl Hg)) as Hb.
    destruct (td_det_loop V opt ov hs o fs (Some (curS (fun _ => false))) []) as [[r e]|e|]; [|contradiction|reflexivity].
    cbn [bind andb].
    destruct (td_forbid opt); cbn [bind].
    + destruct (td_unknown ov fs (keys d)); cbn [bind].
      * destruct e; [contradiction|reflexivity].
      * destruct e; reflexivity.
    + destruct e; [contradiction|reflexivity].
Qed.

(* ---- fast ---- *)
Lemma fast_req_good l : forall m,
  (forall f, In f l -> d_required f = true) -> forallb tgood l = true ->
  td_fast_req V opt ov hs o l (Some (curS m)) = Ok (Some (curS (fun k => mem_N k (map d_name l) || m k))).
Proof.
  induction l as [|f l IH]; intros m Hr Hg; [reflexivity|].
  cbn [forallb] in Hg. apply andb_true_iff in Hg as [Hf Hl]. unfold tgood in Hf.
  cbn [td_fast_req].
  destruct (assoc d (d_name f)) as [v|] eqn:Ha.
  - destruct (hs (d_name f) v) as [w| |] eqn:Hh; try discriminate.
    rewrite (try_good f m v w Ha Hh). cbn [bind].
    rewrite (IH _ (fun g Hin => Hr g (or_intror Hin)) Hl). do 2 f_equal. apply curS_ext. intros k _. cbn. unfold mem_N. cbn.
    rewrite (N.eqb_sym k (d_name f)). destruct (N.eqb (d_name f) k), (existsb (N.eqb k) (map d_name l)), (m k); reflexivity.
  - rewrite (Hr f (or_introl eq_refl)) in Hf. discriminate.
Qed.

Lemma fast_req_bad l : forall r,
  (forall f, In f l -> d_required f = true) -> forallb tgood l = false ->
  is_ok (td_fast_req V opt ov hs o l r) = false.
Proof.
  induction l as [|f l IH]; intros r Hr Hg; [discriminate|].
  cbn [forallb] in Hg. cbn [td_fast_req].
  destruct (td_try V opt ov hs o f r) as [r'|e|] eqn:Ht; [|reflexivity|reflexivity]. cbn [bind].
  apply IH; [intros g Hin; apply Hr; now right|].
  destruct (tgood f) eqn:Hf; [exact Hg|]. exfalso. unfold tgood in Hf.
  destruct (assoc d (d_name f)) as [v|] eqn:Ha.
  - pose proof (try_bad_present f r v Ha Hf) as X. rewrite Ht in X. discriminate.
  - pose proof (try_bad_absent f r Ha) as X. rewrite Ht in X. discriminate.
Qed.

Lemma fast_pops_neutral l r : td_fast_pops V opt ov l r = Ok r.
Proof. induction l as [|f l IH]; [reflexivity|]. cbn [td_fast_pops]. now rewrite td_renamed_neutral. Qed.

Lemma fast_opt_good l : forall m,
  (forall f, In f l -> d_required f = false) -> forallb tgood l = true ->
  td_fast_opt V ov hs o l (Some (curS m)) = Ok (Some (curS (fun k => mem_N k (map d_name l) || m k))).
Proof.
  induction l as [|f l IH]; intros m Hr Hg; [reflexivity|].
  cbn [forallb] in Hg. apply andb_true_iff in Hg as [Hf Hl]. unfold tgood in Hf.
  cbn [td_fast_opt]. rewrite in_dict. cbn [bind].
  destruct (assoc d (d_name f)) as [v|] eqn:Ha.
  - destruct (hs (d_name f) v) as [w| |] eqn:Hh; try discriminate.
    rewrite (proj2 (mem_N_in _ _) (assoc_in_keys _ _ _ Ha)).
    unfold td_fetch. rewrite td_key_neutral. cbn [o dict_obj o_get]. rewrite Ha. cbn [bind]. rewrite Hh. cbn [bind res_set].
    rewrite (set_cur m _ v w Ha Hh).
    rewrite (IH _ (fun g Hin => Hr g (or_intror Hin)) Hl). do 2 f_equal. apply curS_ext. intros k _. cbn. unfold mem_N. cbn.
    rewrite (N.eqb_sym k (d_name f)). destruct (N.eqb (d_name f) k), (existsb (N.eqb k) (map d_name l)), (m k); reflexivity.
  - rewrite (mem_N_false _ _ (assoc_notin_keys _ _ Ha)).
    rewrite (IH m (fun g Hin => Hr g (or_intror Hin)) Hl). do 2 f_equal. apply curS_ext. intros k Hk. cbn. unfold mem_N. cbn.
    destruct (N.eqb_spec k (d_name f)) as [->|]; [|reflexivity].
    exfalso. eapply assoc_notin_keys; eassumption.
Qed.

Lemma fast_opt_bad l : forall r,
  (forall f, In f l -> d_required f = false) -> forallb tgood l = false ->
  is_ok (td_fast_opt V ov hs o l r) = false.
Proof.
  induction l as [|f l IH]; intros r Hr Hg; [discriminate|].
  cbn [forallb] in Hg. cbn [td_fast_opt]. rewrite in_dict. cbn [bind].
  pose proof (Hr f (or_introl eq_refl)) as Hrf.
  assert (Hrest : forall g, In g l -> d_required g = false) by (intros g Hin; apply Hr; now right).
  destruct (assoc d (d_name f)) as [v|] eqn:Ha.
  - rewrite (proj2 (mem_N_in _ _) (assoc_in_keys _ _ _ Ha)).
    unfold td_fetch. rewrite td_key_neutral. cbn [o dict_obj o_get]. rewrite Ha. cbn [bind].
    destruct (hs (d_name f) v) as [w| |] eqn:Hh; [|reflexivity|reflexivity]. cbn [bind].
    destruct r as [dd|]; [|reflexivity]. cbn [res_set bind].
    apply IH; [exact Hrest|]. unfold tgood in Hg. rewrite Ha, Hh in Hg. exact Hg.
  - rewrite (mem_N_false _ _ (assoc_notin_keys _ _ Ha)).
    apply IH; [exact Hrest|]. unfold tgood in Hg. now rewrite Ha, Hrf in Hg.
Qed.

Lemma not_ok_none {A} (r : result A) : is_ok r = false -> forall B (k : A -> result B), to_opt (bind r k) = None.
Proof. destruct r; [discriminate | reflexivity | reflexivity]. Qed.

Lemma mem_map_filter_split (p : tdfield -> bool) l k :
  mem_N k (map d_name (filter (fun f => negb (p f)) l)) || (mem_N k (map d_name (filter p l)) || false)
  = mem_N k (map d_name l).
Proof.
  unfold mem_N. induction l as [|f l IH]; [reflexivity|]. cbn.
  destruct (p f); cbn; rewrite <- IH; destruct (N.eqb k (d_name f)); cbn; try reflexivity.
  - now rewrite orb_true_r.
Qed.

Theorem td_fast_refines_spec fs :
  to_opt (td_fast V opt ov hs fs o) = option_map Some (td_spec fs).
Proof.
  unfold td_fast, td_spec, td_forbid_ok. cbn [o dict_obj o_copy o_keys bind].
  rewrite td_included_all. rewrite <- curS_none at 1.
  rewrite (forallb_filter_split tgood d_required fs).
  assert (Hreq : forall f, In f (filter d_required fs) -> d_required f = true)
    by (intros f Hin; apply filter_In in Hin; tauto).
  assert (Hopt : forall f, In f (filter (fun f => negb (d_required f)) fs) -> d_required f = false)
    by (intros f Hin; apply filter_In in Hin as [_ X]; now apply negb_true_iff in X).
  destruct (forallb tgood (filter d_required fs)) eqn:Hg1.
  - rewrite (fast_req_good _ _ Hreq Hg1). cbn [bind].
    rewrite fast_pops_neutral. cbn [bind].
    destruct (forallb tgood (filter (fun f => negb (d_required f)) fs)) eqn:Hg2.
    + rewrite (fast_opt_good _ _ Hopt Hg2). cbn [bind andb].
      destruct (td_forbid opt); cbn.
      * destruct (td_unknown ov fs (keys d)); cbn; [|reflexivity].
        do 2 f_equal. apply curS_ext. intros k _. apply mem_map_filter_split.
      * do 2 f_equal. apply curS_ext. intros k _. apply mem_map_filter_split.
    + cbn [andb]. apply not_ok_none. now apply fast_opt_bad.
  - cbn [andb]. apply not_ok_none. now apply fast_req_bad.
Qed.

Theorem td_templates_agree fs :
  to_opt (td_detailed V opt ov hs fs o) = to_opt (td_fast V opt ov hs fs o).
Proof. now rewrite td_detailed_refines_spec, td_fast_refines_spec. Qed.

(* ---- what the specification says ---- *)

(* the result has the keys of the payload, in the payload's order: undeclared keys are kept *)
Theorem td_spec_keys fs r : td_spec fs = Some r -> keys r = keys d.
Proof.
  unfold td_spec. destruct (_ && _); [|discriminate]. intros [= <-].
  unfold curS, keys. rewrite map_map. reflexivity.
Qed.

(* every declared key that is present holds the result of its handler; every other key is untouched *)
Theorem td_spec_values fs r k v :
  td_spec fs = Some r -> assoc d k = Some v ->
  assoc r k = Some (if mem_N k (map d_name fs) then nv k v else v)
  /\ (mem_N k (map d_name fs) = true -> is_ok (hs k v) = true).
Proof.
  unfold td_spec. destruct (forallb tgood fs && td_forbid_ok fs) eqn:Hc; [|discriminate]. intros [= <-] Ha.
  apply andb_true_iff in Hc as [Hg _]. split.
  - unfold curS. clear Hnd Hg. induction d as [|[k' x] l IH]; cbn in *; [discriminate|].
    destruct (N.eqb_spec k' k) as [->|Hne]; [now injection Ha as -> | now apply IH].
  - intros Hm. apply mem_N_in, in_map_iff in Hm as [f [<- Hin]].
    rewrite forallb_forall in Hg. specialize (Hg f Hin). unfold tgood in Hg. now rewrite Ha in Hg.
Qed.

(* required keys are present in whatever is accepted *)
Theorem td_spec_required fs r f :
  td_spec fs = Some r -> In f fs -> d_required f = true -> In (d_name f) (keys r).
Proof.
  intros Hs Hin Hr. rewrite (td_spec_keys fs r Hs).
  unfold td_spec in Hs. destruct (forallb tgood fs) eqn:Hg; [|discriminate].
  rewrite forallb_forall in Hg. specialize (Hg f Hin). unfold tgood in Hg.
  destruct (assoc d (d_name f)) eqn:Ha; [eapply assoc_in_keys; exact Ha | now rewrite Hr in Hg].
Qed.

(* forbid_extra_keys: accepted only when every key of the payload is declared *)
Theorem td_spec_forbid fs r :
  td_forbid opt = true -> td_spec fs = Some r -> forall k, In k (keys d) -> In k (map d_name fs).
Proof.
  intros Hf Hs k Hk. unfold td_spec, td_forbid_ok in Hs. rewrite Hf in Hs. cbn [negb orb] in Hs.
  destruct (forallb tgood fs); [|discriminate]. cbn [andb] in Hs.
  destruct (td_unknown ov fs (keys d)) eqn:Hu; [|discriminate].
  unfold td_unknown in Hu. unfold td_allowed in Hu. rewrite td_included_all in Hu.
  destruct (mem_N k (map (td_key ov) fs)) eqn:Hm.
  - apply mem_N_in in Hm. exact Hm.
  - assert (X : In k (filter (fun k0 => negb (mem_N k0 (map (td_key ov) fs))) (keys d))).
    { apply filter_In. split; [exact Hk | now rewrite Hm]. }
    rewrite Hu in X. destruct X.
Qed.

(* the error of the forbid check names exactly the undeclared keys, in both templates *)
Theorem td_fast_forbid_error fs u :
  td_forbid opt = true -> forallb tgood fs = true -> td_unknown ov fs (keys d) = u -> u <> [] ->
  td_fast V opt ov hs fs o = Err (EForbidden (td_cl opt) u).
Proof.
  intros Hf Hg Hu Hne. unfold td_fast. cbn [o dict_obj o_copy o_keys bind].
  rewrite td_included_all. rewrite <- curS_none at 1.
  rewrite (forallb_filter_split tgood d_required fs) in Hg. apply andb_true_iff in Hg as [Hg1 Hg2].
  assert (Hreq : forall f, In f (filter d_required fs) -> d_required f = true)
    by (intros f Hin; apply filter_In in Hin; tauto).
  assert (Hopt : forall f, In f (filter (fun f => negb (d_required f)) fs) -> d_required f = false)
    by (intros f Hin; apply filter_In in Hin as [_ X]; now apply negb_true_iff in X).
  rewrite (fast_req_good _ _ Hreq Hg1). cbn [bind]. rewrite fast_pops_neutral. cbn [bind].
  rewrite (fast_opt_good _ _ Hopt Hg2). cbn [bind]. rewrite Hf, Hu. destruct u; [contradiction|reflexivity].
Qed.

Theorem td_detailed_forbid_error fs u :
  td_forbid opt = true -> forallb tgood fs = true -> td_unknown ov fs (keys d) = u -> u <> [] ->
  td_detailed V opt ov hs fs o = Err (EClassVal (td_cl opt) [(None, EForbidden (td_cl opt) u)]).
Proof.
  intros Hf Hg Hu Hne. unfold td_detailed. cbn [o dict_obj o_is_mapping o_copy o_keys negb bind].
  rewrite td_included_all. rewrite <- curS_none at 1.
  rewrite (det_loop_good fs _ [] Hg). cbn [bind]. rewrite Hf, Hu. destruct u; [contradiction|reflexivity].
Qed.

End TdP.
