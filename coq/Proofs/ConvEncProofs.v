(* ConvEncProofs.v -- C03, second half: what Converter's unstructure returns for a value of T IS the documented encoding
   (Model/ConvEnc.v), at every depth, under either strategy. *)
From Coq Require Import Lia.
From V.Model Require Import Base Templates Conv ConvSpec ConvEnc.
From V.Proofs Require Import TemplatesProofs UnstructProofs ClassSound ClassRoundtrip ConvRoundtrip.

Section EN.
Variable E : env.
Variable cfg : ccfg.
Variable ann : bool.
Hypothesis H_gen : c_gen cfg = true.
Hypothesis H_forbid : c_forbid cfg = false.
Hypothesis H_env : forall c cd, e_class E c = Some cd ->
  wf val (topt cfg c) nov (cd_fields cd) /\ (forall f, In f (cd_fields cd) -> f_init f = true).

Notation un := (unstructure E cfg).
Notation enc := (encodes E (c_tuple cfg)).

Lemma zip_enc (P : val -> ty -> Prop) (R : ty -> val -> val -> Prop) (fu : ty -> val -> result val) l ts :
  Forall2 P l ts -> (forall x t u, P x t -> fu t x = Ok u -> R t x u) ->
  forall r, zip_fast fu ts l = Ok r -> Forall2 (fun tx u => R (fst tx) (snd tx) u) (combine ts l) r.
Proof.
  intros H HP. induction H as [|x t l ts Hxt _ IH]; intros r Hz; cbn [zip_fast] in Hz.
  - inversion Hz; subst. constructor.
  - destruct (fu t x) as [u| |] eqn:Eu; cbn [bind] in Hz; try discriminate.
    destruct (zip_fast fu ts l) as [us| |] eqn:Ez; cbn [bind] in Hz; try discriminate. inversion Hz; subst.
    cbn [combine]. constructor; [cbn; now apply HP | now apply IH].
Qed.

Lemma combine_map {A B C} (g : A -> B) (h : A -> C) l : combine (map g l) (map h l) = map (fun a => (g a, h a)) l.
Proof. induction l as [|a l IH]; cbn; [reflexivity | now rewrite IH]. Qed.

Theorem unstructure_is_documented_encoding : forall n t x u, rt_value E ann x t -> un n t x = Ok u -> enc t x u.
Proof.
  induction n as [|n IH]; intros t x u Hrt Hu; [discriminate|].
  inversion Hrt; subst; clear Hrt; cbn [unstructure] in Hu; rewrite H_gen in Hu.
  - (* Any *) match goal with H : atomic _ = true |- _ => pose proof H as Ha; apply (by_class_atomic E cfg H_gen n _ _ H) in Hu end. subst. now constructor.
  - (* prim *) inversion Hu; subst. constructor.
  - (* enum *) unfold member_value in Hu. match goal with H : nth_error _ _ = Some _ |- _ => pose proof H as Hn; rewrite H in Hu end. inversion Hu; subst.
    now constructor.
  - (* literal *) inversion Hu; subst. constructor.
  - (* list *)
    cbn [iter_val bind] in Hu. destruct (map_res (un n t0) l) as [r| |] eqn:Em; cbn [bind] in Hu; try discriminate. inversion Hu; subst.
    apply map_res_forall2 in Em. constructor. eapply forall_forall2; [eassumption | exact Em |]. intros; eapply IH; eassumption.
  - (* homogeneous tuple *)
    cbn [iter_val bind] in Hu. destruct (map_res (un n t0) l) as [r| |] eqn:Em; cbn [bind] in Hu; try discriminate. inversion Hu; subst.
    apply map_res_forall2 in Em. constructor. eapply forall_forall2; [eassumption | exact Em |]. intros; eapply IH; eassumption.
  - (* heterogeneous tuple *)
    match goal with H : Forall2 (rt_value E ann) _ _ |- _ => rename H into HF end.
    assert (Hlen : length l = length ts) by (eapply forall2_length; exact HF).
    rewrite Hlen, Nat.ltb_irrefl in Hu.
    destruct (zip_fast (un n) ts l) as [r| |] eqn:Ez; cbn [bind] in Hu; try discriminate. inversion Hu; subst.
    constructor; [exact Hlen|]. eapply (zip_enc (rt_value E ann)); [exact HF | | exact Ez]. intros; eapply IH; eassumption.
  - (* set *)
    cbn [iter_val bind] in Hu. destruct (map_res (un n t0) l) as [r| |] eqn:Em; cbn [bind] in Hu; try discriminate.
    destruct (set_of_list [] r) as [s| |] eqn:Es; cbn [bind] in Hu; try discriminate. inversion Hu; subst.
    apply map_res_forall2 in Em. econstructor; [|exact Es]. eapply forall_forall2; [eassumption | exact Em |]. intros; eapply IH; eassumption.
  - (* frozenset *)
    cbn [iter_val bind] in Hu. destruct (map_res (un n t0) l) as [r| |] eqn:Em; cbn [bind] in Hu; try discriminate.
    destruct (set_of_list [] r) as [s| |] eqn:Es; cbn [bind] in Hu; try discriminate. inversion Hu; subst.
    apply map_res_forall2 in Em. econstructor; [|exact Es]. eapply forall_forall2; [eassumption | exact Em |]. intros; eapply IH; eassumption.
  - (* mapping *)
    match goal with H : Forall _ kvs |- _ => rename H into HF end.
    cbn [items_val bind] in Hu. unfold un_pairs in Hu.
    destruct (map_res _ kvs) as [ps| |] eqn:Em; cbn [bind] in Hu; try discriminate.
    destruct (dict_of_pairs [] ps) as [d| |] eqn:Ed; cbn [bind] in Hu; try discriminate. inversion Hu; subst.
    apply map_res_forall2 in Em. econstructor; [|exact Ed].
    eapply forall_forall2; [exact HF | exact Em |]. intros kv p [Hk Hv] Hp. cbn in Hp.
    destruct (un n kt (fst kv)) as [k'| |] eqn:Ek; cbn [bind] in Hp; try discriminate.
    destruct (un n vt (snd kv)) as [v'| |] eqn:Ev; cbn [bind] in Hp; try discriminate. inversion Hp; subst. cbn.
    split; eapply IH; eassumption.
  - (* Optional: None *) inversion Hu; subst. constructor.
  - (* Optional: a value *)
    assert (Hc : x = VNone \/ x <> VNone) by (destruct x; [left; reflexivity | right; discriminate ..]).
    destruct Hc as [->|Hne]; [inversion Hu; subst; constructor|].
    assert (Hu' : un n t0 x = Ok u) by (destruct x; try exact Hu; contradiction).
    apply EnOptSome; [exact Hne|]. eapply IH; eassumption.
  - (* class *)
    match goal with X : e_class E c = Some _ |- _ => rename X into Hc end.
    match goal with X : map fst i = _ |- _ => rename X into Hkeys end.
    match goal with X : Forall _ i |- _ => rename X into HF end.
    rewrite Hc in Hu. cbn [inst_fields] in Hu. unfold nov in *.
    destruct (H_env c cd Hc) as (W & A_init).
    match type of Hu with context [un_gen _ _ _ _ ?h _ _] => set (hs_u := h) in Hu end.
    pose (hu := fun nm v => match hs_u nm v with Ok w => w | _ => VNone end).
    assert (H_enc : forall f, In f (cd_fields cd) -> hs_u (f_name f) (aval val VNone i f) = Ok (hu (f_name f) (aval val VNone i f)) ->
              exists v, assoc i (f_name f) = Some v /\ enc (field_ty cd (f_name f)) v (hu (f_name f) (aval val VNone i f))).
    { intros f Hf Eh. pose proof (vals_ok val VNone (cd_fields cd) i Hkeys f Hf) as Ea. exists (aval val VNone i f). split; [exact Ea|].
      apply assoc_in in Ea. rewrite Forall_forall in HF. specialize (HF _ Ea). cbn [fst snd] in HF.
      unfold hs_u in Eh. unfold field_ty in *.
      destruct (assoc (cd_types cd) (f_name f)) as [ft|].
      - eapply IH; eassumption.
      - inversion HF; subst. match goal with X : atomic _ = true |- _ => rewrite (by_class_atomic E cfg H_gen n _ _ X Eh); now constructor end. }
    assert (Hws : forall (H_hu : forall f, In f (cd_fields cd) -> hs_u (f_name f) (aval val VNone i f) = Ok (hu (f_name f) (aval val VNone i f))),
              Forall2 (fun f w => exists v, assoc i (f_name f) = Some v /\ enc (field_ty cd (f_name f)) v w)
                      (cd_fields cd) (map (fun f => hu (f_name f) (aval val VNone i f)) (cd_fields cd))).
    { intros H_hu. assert (Hsub : forall f, In f (cd_fields cd) -> In f (cd_fields cd)) by auto. revert Hsub.
      generalize (cd_fields cd) at 1 3 4 as l. induction l as [|f l IHl]; intros Hsub; cbn [map]; constructor.
      - apply H_enc; [apply Hsub; now left | apply H_hu; apply Hsub; now left].
      - apply IHl. intros g Hg. apply Hsub. now right. }
    destruct (c_tuple cfg) eqn:Etup.
    + destruct (un_interp_tuple val hs_u (cd_fields cd) i) as [tt| |] eqn:Eg; cbn [bind] in Hu; try discriminate.
      inversion Hu; subst u. clear Hu.
      assert (H_hu : forall f, In f (cd_fields cd) -> hs_u (f_name f) (aval val VNone i f) = Ok (hu (f_name f) (aval val VNone i f))).
      { intros f Hf. pose proof (un_interp_tuple_handlers val hs_u (cd_fields cd) i tt Eg f Hf) as (v & w & Ea & Eh).
        rewrite (vals_ok val VNone (cd_fields cd) i Hkeys f Hf) in Ea. inversion Ea; subst v. unfold hu. now rewrite Eh. }
      rewrite (un_interp_tuple_all val (cd_fields cd) i Hkeys VNone hs_u hu H_hu) in Eg. inversion Eg; subst tt.
      pose proof (EnClass E true c cd i _ Hc (Hws H_hu)) as R. cbn in R. exact R.
    + assert (Ht : t_forbid (topt cfg c) = false) by (cbn; exact H_forbid).
      destruct (un_gen val val_eqb (topt cfg c) (fun _ => neutral) hs_u (cd_fields cd) i) as [dd| |] eqn:Eg; cbn [bind] in Hu; try discriminate.
      inversion Hu; subst u. clear Hu.
      assert (H_hu : forall f, In f (cd_fields cd) -> hs_u (f_name f) (aval val VNone i f) = Ok (hu (f_name f) (aval val VNone i f))).
      { intros f Hf. unfold un_gen in Eg.
        destruct (un_literal val (topt cfg c) (fun _ => neutral) hs_u (filter (un_included val (topt cfg c) (fun _ => neutral)) (cd_fields cd)) i) as [lit| |] eqn:El; cbn [bind] in Eg; try discriminate.
        change (filter (un_included val (topt cfg c) (fun _ => neutral)) (cd_fields cd))
          with (filter (included val (topt cfg c) (fun _ : N => neutral)) (cd_fields cd)) in El.
        rewrite (inc_is_fs val (topt cfg c) (cd_fields cd) A_init) in El.
        destruct (un_literal_handlers _ _ _ _ _ _ _ El (fun g _ => no_omit val (topt cfg c) eq_refl g) f Hf) as (v & w & Ea & Eh).
        rewrite (vals_ok val VNone (cd_fields cd) i Hkeys f Hf) in Ea. inversion Ea; subst v. unfold hu. now rewrite Eh. }
      rewrite (un_gen_all val VNone (topt cfg c) eq_refl eq_refl (cd_fields cd) W A_init i Hkeys hs_u hu H_hu val_eqb) in Eg.
      inversion Eg; subst dd. clear Eg.
      pose proof (EnClass E false c cd i _ Hc (Hws H_hu)) as R. cbn in R.
      rewrite combine_map in R. unfold D. rewrite map_map. cbn [fst snd]. exact R.
  - (* NewType *) constructor. eapply IH; eassumption.
  - (* Annotated *) constructor. eapply IH; eassumption.
Qed.

End EN.
