(* ClassSound.v -- class level, soundness of the four structure templates: every attribute of an
   accepted instance is either the field's default or what the field's OWN handler returned.
   (The alignment of values with attributes is where the code can go wrong: aliases, keyword and
   positional binding.)  Generic in the payload value type. *)
From Coq Require Import Lia Permutation.
From V.Model Require Import Base Templates.
From V.Proofs Require Import TemplatesProofs.

Section CS.
Variable V : Type.
Variable K : N -> V -> result V.
Hypothesis HK : forall n v, K n v = Ok v.          (* no field converters in the nested universe *)
Variable opt : topts.
Variable ov : N -> fov.
Variable hs : N -> V -> result V.
Notation field := (field V).

Definition entry_ok (fs : list field) (nm : N) (v : V) : Prop :=
  exists f, In f fs /\ f_name f = nm /\ (f_dflt f = Some v \/ exists w, hs nm w = Ok v).

Lemma assoc_in {B} (l : list (N * B)) k v : assoc l k = Some v -> In (k, v) l.
Proof.
  induction l as [|[k' v'] l IH]; cbn; [discriminate|].
  destruct (N.eqb k' k) eqn:E; intros H.
  - apply N.eqb_eq in E. inversion H; subst. now left.
  - right. auto.
Qed.

Lemma nodup_in_eq {A B} (g : A -> B) l x y : NoDup (map g l) -> In x l -> In y l -> g x = g y -> x = y.
Proof.
  induction l as [|a l IH]; cbn; intros Hnd Hx Hy E; [contradiction|].
  inversion Hnd as [|? ? Hn Hr]; subst.
  destruct Hx as [Hx|Hx], Hy as [Hy|Hy]; subst; auto.
  - exfalso. apply Hn. rewrite E. now apply in_map.
  - exfalso. apply Hn. rewrite <- E. now apply in_map.
Qed.

Lemma fill_sound fs : forall b i, fill V K fs b = Ok i ->
  forall nm v, assoc i nm = Some v ->
  exists f, In f fs /\ f_name f = nm /\ ((f_init f = true /\ assoc b (f_alias f) = Some v) \/ f_dflt f = Some v).
Proof.
  induction fs as [|f fs IH]; intros b i H nm v A; cbn [fill] in H.
  - inversion H; subst. discriminate.
  - assert (Hc : forall w, apply_conv V K f w = Ok w) by (intros w; unfold apply_conv; destruct (f_conv f); [apply HK | reflexivity]).
    assert (Hstep : forall w i', (do w0 <- apply_conv V K f w; do rest <- fill V K fs b; Ok ((f_name f, w0) :: rest)) = Ok i' ->
                    exists rest, fill V K fs b = Ok rest /\ i' = (f_name f, w) :: rest).
    { intros w i' X. rewrite Hc in X. cbn [bind] in X. destruct (fill V K fs b) as [rest| |]; cbn in X; try discriminate.
      inversion X; subst. eauto. }
    assert (Hfin : forall w rest, fill V K fs b = Ok rest -> i = (f_name f, w) :: rest ->
                   ((f_init f = true /\ assoc b (f_alias f) = Some w) \/ f_dflt f = Some w) ->
                   exists g, In g (f :: fs) /\ f_name g = nm /\ ((f_init g = true /\ assoc b (f_alias g) = Some v) \/ f_dflt g = Some v)).
    { intros w rest Hr Hi Hw. subst i. cbn [assoc] in A. destruct (N.eqb (f_name f) nm) eqn:E.
      - apply N.eqb_eq in E. inversion A; subst. exists f. split; [now left|]. auto.
      - destruct (IH b rest Hr nm v A) as (g & Hg & Hn & Hv). exists g. split; [now right|]. auto. }
    destruct (f_init f) eqn:Ei.
    + destruct (assoc b (f_alias f)) as [w|] eqn:Ea.
      * destruct (Hstep w i H) as (rest & Hr & Hi). apply (Hfin w rest Hr Hi). left. auto.
      * destruct (f_dflt f) as [d|] eqn:Ed; [|discriminate].
        destruct (Hstep d i H) as (rest & Hr & Hi). apply (Hfin d rest Hr Hi). now right.
    + destruct (f_dflt f) as [d|] eqn:Ed.
      * destruct (Hstep d i H) as (rest & Hr & Hi). apply (Hfin d rest Hr Hi). now right.
      * destruct (IH b i H nm v A) as (g & Hg & Hn & Hv). exists g. split; [now right|]. auto.
Qed.

Lemma bind_kw_app ps : forall kw bound b, bind_kw V ps bound kw = Ok b -> b = bound ++ kw.
Proof.
  induction kw as [|[k v] kw IH]; intros bound b H; cbn [bind_kw] in H.
  - inversion H. now rewrite app_nil_r.
  - destruct (existsb _ ps); [|discriminate]. destruct (assoc bound k); [discriminate|].
    apply IH in H. subst. now rewrite <- app_assoc.
Qed.

Lemma instantiate_kw_sound fs kw i : instantiate V K fs [] kw = Ok i ->
  forall nm v, assoc i nm = Some v ->
  exists f, In f fs /\ f_name f = nm /\ ((f_init f = true /\ assoc kw (f_alias f) = Some v) \/ f_dflt f = Some v).
Proof.
  unfold instantiate. intros H.
  assert (Hbp : bind_pos V (pos_params V fs) [] = Ok []) by (destruct (pos_params V fs); reflexivity).
  rewrite Hbp in H. cbn [bind] in H.
  destruct (bind_kw V (params V fs) [] kw) as [b| |] eqn:Eb; cbn [bind] in H; try discriminate.
  apply bind_kw_app in Eb. cbn in Eb. subst b. now apply fill_sound.
Qed.

Lemma contrib_inv o f a v : In (a, v) (contrib V opt ov hs o f) -> a = f_alias f /\ exists w, hs (f_name f) w = Ok v.
Proof.
  unfold contrib, fetch. intros H.
  assert (X : forall l, l = match (do v0 <- o_get o (key_of V opt ov f); hs (f_name f) v0) with Ok w => [(f_alias f, w)] | _ => [] end ->
              In (a, v) l -> a = f_alias f /\ exists w, hs (f_name f) w = Ok v).
  { intros l -> Hin. destruct (o_get o (key_of V opt ov f)) as [v0| |]; cbn [bind] in Hin; try contradiction.
    destruct (hs (f_name f) v0) as [w| |] eqn:Eh; try contradiction. destruct Hin as [Hin|[]]. inversion Hin; subst. eauto. }
  destruct (f_dflt f).
  - destruct (o_in o (key_of V opt ov f)) as [[|]| |]; try contradiction. eapply X; [reflexivity | exact H].
  - eapply X; [reflexivity | exact H].
Qed.

Theorem spec_sound fs o i :
  NoDup (map (@f_alias V) fs) -> NoDup (map (@f_name V) fs) ->
  spec_struct V K opt ov hs fs o = Some i ->
  forall nm v, assoc i nm = Some v -> entry_ok fs nm v.
Proof.
  intros Hal Hna H nm v A. unfold spec_struct in H.
  destruct (forallb (good V opt ov hs o) (inc_init V opt ov fs) && forbid_ok V opt ov fs o); [|discriminate].
  destruct (instantiate V K fs [] (flat_map (contrib V opt ov hs o) (inc_init V opt ov fs))) as [i0| |] eqn:Ei; try discriminate.
  destruct (forallb (good V opt ov hs o) (inc_pi V opt ov fs)); [|discriminate].
  inversion H; subst i. clear H.
  assert (NDP : NoDup (map fst (flat_map (contrib_named V opt ov hs o) (inc_pi V opt ov fs)))).
  { apply nodup_named. unfold inc_pi. do 2 apply nodup_map_filter. exact Hna. }
  rewrite assoc_set_all in A by exact NDP.
  destruct (assoc (flat_map (contrib_named V opt ov hs o) (inc_pi V opt ov fs)) nm) as [v'|] eqn:EL.
  - inversion A; subst v'. apply assoc_in in EL. apply in_flat_map in EL. destruct EL as (g & Hg & Hin).
    unfold contrib_named in Hin. apply in_map_iff in Hin. destruct Hin as ([a w] & E & Hin). cbn in E. inversion E; subst.
    apply contrib_inv in Hin. destruct Hin as (_ & w0 & Hw).
    exists g. split; [|split; [reflexivity | right; eauto]].
    unfold inc_pi in Hg. apply filter_In in Hg. destruct Hg as [Hg _]. apply filter_In in Hg. tauto.
  - destruct (instantiate_kw_sound _ _ _ Ei nm v A) as (f & Hf & Hn & [[Hi Ha]|Hd]).
    + apply assoc_in in Ha. apply in_flat_map in Ha. destruct Ha as (g & Hg & Hin).
      apply contrib_inv in Hin. destruct Hin as (Eal & w0 & Hw).
      assert (Hgfs : In g fs).
      { unfold inc_init in Hg. apply filter_In in Hg. destruct Hg as [Hg _]. apply filter_In in Hg. tauto. }
      assert (g = f) by (apply (nodup_in_eq (@f_alias V) fs g f Hal Hgfs Hf); now symmetry). subst g.
      exists f. split; [exact Hf|]. split; [exact Hn|]. right. exists w0. now rewrite <- Hn.
    + exists f. auto.
Qed.

Theorem detailed_sound fs o i :
  NoDup (map (@f_alias V) fs) -> NoDup (map (@f_name V) fs) ->
  tpl_detailed V K opt ov hs true fs o = Ok i ->
  forall nm v, assoc i nm = Some v -> entry_ok fs nm v.
Proof.
  intros Hal Hna H. pose proof (detailed_refines_spec V K opt ov hs fs o) as R. rewrite H in R. cbn in R.
  symmetry in R. now apply (spec_sound fs o i Hal Hna R).
Qed.

Theorem fast_sound fs o i :
  wf V opt ov fs ->
  tpl_fast V K opt ov hs true fs o = Ok i ->
  forall nm v, assoc i nm = Some v -> entry_ok fs nm v.
Proof.
  intros W H nm v A. pose proof (fast_refines_spec V K opt ov hs fs o W) as R. rewrite H in R. cbn in R.
  destruct (spec_struct V K opt ov hs fs o) as [j|] eqn:Es; [|contradiction].
  rewrite (R nm) in A. exact (spec_sound fs o j (wf_alias _ _ _ _ W) (wf_name _ _ _ _ W) Es nm v A).
Qed.

(* ---- the interpretive dict template ---- *)
Lemma assoc_dict_set {B} (l : list (N * B)) k v k' :
  assoc (dict_set l k v) k' = if N.eqb k k' then Some v else assoc l k'.
Proof.
  induction l as [|[a b] l IH]; cbn.
  - reflexivity.
  - destruct (N.eqb a k) eqn:E; cbn.
    + apply N.eqb_eq in E. subst. destruct (N.eqb k k'); reflexivity.
    + rewrite IH. destruct (N.eqb a k') eqn:E2; [|reflexivity].
      apply N.eqb_eq in E2. subst. rewrite N.eqb_sym, E. reflexivity.
Qed.

Lemma interp_loop_sound o fs : forall acc kw,
  interp_dict_loop V hs o fs acc = Ok kw ->
  forall a v, assoc kw a = Some v ->
  assoc acc a = Some v \/ exists g, In g fs /\ f_alias g = a /\ exists w, hs (f_name g) w = Ok v.
Proof.
  induction fs as [|f fs IH]; intros acc kw H a v A; cbn [interp_dict_loop] in H.
  - inversion H; subst. now left.
  - destruct (o_get o (f_name f)) as [v0|e|] eqn:Eg; try discriminate.
    + destruct (hs (f_name f) v0) as [w| |] eqn:Eh; cbn [bind] in H; try discriminate.
      destruct (IH _ _ H a v A) as [X|(g & Hg & Ea & Hw)].
      * rewrite assoc_dict_set in X. destruct (N.eqb (f_alias f) a) eqn:E.
        -- apply N.eqb_eq in E. inversion X; subst. right. exists f. split; [now left|]. eauto.
        -- now left.
      * right. exists g. split; [now right|]. auto.
    + destruct e; try discriminate.
      destruct (IH _ _ H a v A) as [X|(g & Hg & Ea & Hw)]; [now left|].
      right. exists g. split; [now right|]. auto.
Qed.

Theorem interp_dict_sound fs o i :
  NoDup (map (@f_alias V) fs) ->
  tpl_interp_dict V K hs fs o = Ok i ->
  forall nm v, assoc i nm = Some v -> entry_ok fs nm v.
Proof.
  intros Hal H nm v A. unfold tpl_interp_dict in H.
  destruct (interp_dict_loop V hs o fs []) as [kw| |] eqn:El; cbn [bind] in H; try discriminate.
  destruct (instantiate_kw_sound _ _ _ H nm v A) as (f & Hf & Hn & [[Hi Ha]|Hd]).
  - destruct (interp_loop_sound o fs [] kw El _ _ Ha) as [X|(g & Hg & Ea & w & Hw)]; [discriminate|].
    assert (g = f) by (apply (nodup_in_eq (@f_alias V) fs g f Hal Hg Hf); exact Ea). subst g.
    exists f. split; [exact Hf|]. split; [exact Hn|]. right. exists w. now rewrite <- Hn.
  - exists f. auto.
Qed.

(* ---- the interpretive tuple template, keyword-only attributes by keyword, init=False attributes left out ---- *)
Lemma pos_params_cons (f : field) l :
  pos_params V (f :: l) = if f_init f && negb (f_kw_only f) then f :: pos_params V l else pos_params V l.
Proof. unfold pos_params, params. cbn [filter]. destruct (f_init f); cbn [andb filter]; [destruct (f_kw_only f); reflexivity | reflexivity]. Qed.

Lemma zip_split_sound : forall l vs pos kw,
  zip_split V hs true l vs = Ok (pos, kw) ->
  forall b, bind_pos V (pos_params V l) pos = Ok b ->
  (forall a v, assoc b a = Some v -> exists g, In g l /\ f_alias g = a /\ exists w, hs (f_name g) w = Ok v) /\
  (forall a v, assoc kw a = Some v -> exists g, In g l /\ f_alias g = a /\ exists w, hs (f_name g) w = Ok v).
Proof.
  induction l as [|f l IH]; intros vs pos kw H b Hb; cbn [zip_split] in H.
  - inversion H; subst. cbn in Hb. inversion Hb; subst. split; intros a v X; discriminate.
  - destruct vs as [|v0 vs].
    + inversion H; subst. assert (b = []) by (destruct (pos_params V (f :: l)); cbn in Hb; now inversion Hb). subst. split; intros a v X; discriminate.
    + cbn [andb] in H. rewrite pos_params_cons in Hb.
      destruct (f_init f) eqn:Ei; cbn [negb andb] in H, Hb.
      * destruct (hs (f_name f) v0) as [w| |] eqn:Eh; cbn [bind] in H; try discriminate.
        destruct (zip_split V hs true l vs) as [[p k]| |] eqn:Ez; cbn [bind fst snd] in H; try discriminate.
        destruct (f_kw_only f) eqn:Ek; cbn [negb] in Hb; inversion H; subst.
        -- destruct (IH vs pos k Ez b Hb) as [I1 I2]. split.
           ++ intros a v X. destruct (I1 a v X) as (g & Hg & Ea & Hw). exists g. split; [now right | auto].
           ++ intros a v X. cbn [assoc] in X. destruct (N.eqb (f_alias f) a) eqn:E.
              ** apply N.eqb_eq in E. inversion X; subst. exists f. split; [now left|]. eauto.
              ** destruct (I2 a v X) as (g & Hg & Ea & Hw). exists g. split; [now right | auto].
        -- cbn [bind_pos] in Hb. destruct (bind_pos V (pos_params V l) p) as [b0| |] eqn:Eb; cbn [bind] in Hb; try discriminate.
           inversion Hb; subst b. destruct (IH vs p kw Ez b0 Eb) as [I1 I2]. split.
           ++ intros a v X. cbn [assoc] in X. destruct (N.eqb (f_alias f) a) eqn:E.
              ** apply N.eqb_eq in E. inversion X; subst. exists f. split; [now left|]. eauto.
              ** destruct (I1 a v X) as (g & Hg & Ea & Hw). exists g. split; [now right | auto].
           ++ intros a v X. destruct (I2 a v X) as (g & Hg & Ea & Hw). exists g. split; [now right | auto].
      * destruct (IH vs pos kw H b Hb) as [I1 I2]. split; intros a v X; [destruct (I1 a v X) as (g & Hg & Y) | destruct (I2 a v X) as (g & Hg & Y)]; exists g; (split; [now right | exact Y]).
Qed.

Lemma bind_kw_assoc ps : forall kw bound b, bind_kw V ps bound kw = Ok b ->
  forall a v, assoc b a = Some v -> assoc bound a = Some v \/ assoc kw a = Some v.
Proof.
  intros kw bound b H a v X. apply bind_kw_app in H. subst b. rewrite assoc_app2 in X. destruct (assoc bound a); [left; exact X | right; exact X].
Qed.

Theorem interp_tuple_sound fs o i :
  NoDup (map (@f_alias V) fs) ->
  tpl_interp_tuple V K hs true fs o = Ok i ->
  forall nm v, assoc i nm = Some v -> entry_ok fs nm v.
Proof.
  intros Hal H nm v A. unfold tpl_interp_tuple in H.
  destruct (o_iter o) as [vs| |]; cbn [bind] in H; try discriminate.
  destruct (zip_split V hs true fs vs) as [[pos kw]| |] eqn:Ez; cbn [bind fst snd] in H; try discriminate.
  unfold instantiate in H.
  destruct (bind_pos V (pos_params V fs) pos) as [b| |] eqn:Eb; cbn [bind] in H; try discriminate.
  destruct (bind_kw V (params V fs) b kw) as [b'| |] eqn:Ek; cbn [bind] in H; try discriminate.
  destruct (zip_split_sound fs vs pos kw Ez b Eb) as [I1 I2].
  destruct (fill_sound _ _ _ H nm v A) as (f & Hf & Hn & [[Hi Ha]|Hd]).
  - assert (X : exists g, In g fs /\ f_alias g = f_alias f /\ exists w, hs (f_name g) w = Ok v).
    { destruct (bind_kw_assoc _ _ _ _ Ek _ _ Ha) as [Y|Y]; [exact (I1 _ _ Y) | exact (I2 _ _ Y)]. }
    destruct X as (g & Hg & Ea & w & Hw).
    assert (g = f) by (apply (nodup_in_eq (@f_alias V) fs g f Hal Hg Hf); exact Ea). subst g.
    exists f. split; [exact Hf|]. split; [exact Hn|]. right. exists w. now rewrite <- Hn.
  - exists f. auto.
Qed.

End CS.
