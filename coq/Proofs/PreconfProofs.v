(* PreconfProofs.v -- C16, JSON: the post-processed unstructured form is inside what json.dumps accepts. *)
From V.Model Require Import Base Templates Conv ConvSpec ConvLane Preconf.

Section J.
Variable b85 : val -> option val.
(* base85 text is text *)
Hypothesis H_b85 : forall e, exists s, b85 (VAtom PBytes e) = Some (VAtom PStr s).

Lemma jsonify_atom k : atomic_key k = true -> json_atom (jsonify b85 k) = true.
Proof.
  destruct k; cbn; intros H; try discriminate; [reflexivity|].
  destruct k; try reflexivity. destruct (H_b85 e) as (s & ->). reflexivity.
Qed.

(* primitive data whose mapping keys are atoms becomes JSON-encodable: bytes are text, sets are lists,
   nothing else was there to begin with *)
Theorem jsonify_jsonable : forall u, primitive u = true -> keys_atomic u = true -> jsonable (jsonify b85 u) = true.
Proof.
  fix IH 1. intros u Hp Hk. destruct u; cbn in Hp, Hk |- *; try discriminate; try reflexivity.
  - destruct k; try reflexivity. destruct (H_b85 e) as (s & ->). reflexivity.
  - induction l as [|x l IHl]; [reflexivity|]. cbn in *. apply andb_prop in Hp, Hk. destruct Hp, Hk. rewrite IH by assumption. cbn. now apply IHl.
  - induction l as [|x l IHl]; [reflexivity|]. cbn in *. apply andb_prop in Hp, Hk. destruct Hp, Hk. rewrite IH by assumption. cbn. now apply IHl.
  - induction l as [|x l IHl]; [reflexivity|]. cbn in *. apply andb_prop in Hp, Hk. destruct Hp, Hk. rewrite IH by assumption. cbn. now apply IHl.
  - induction l as [|x l IHl]; [reflexivity|]. cbn in *. apply andb_prop in Hp, Hk. destruct Hp, Hk. rewrite IH by assumption. cbn. now apply IHl.
  - induction kvs as [|[k v] kvs IHl]; [reflexivity|]. cbn in *. apply andb_prop in Hp, Hk. destruct Hp as [Hp1 Hp2], Hk as [Hk1 Hk2].
    apply andb_prop in Hp1, Hk1. destruct Hp1, Hk1. rewrite jsonify_atom by assumption. rewrite IH by assumption. cbn. now apply IHl.
Qed.
End J.
