(* ClassRoundtrip.v -- class level, converter-default options (no overrides, no aliases as keys, no
   omission), classes whose attributes are all __init__ arguments:
     - the unstructure templates emit [(name, handler(value))] for every attribute, in order;
     - structuring that dict with inverse handlers gives back THE SAME instance (Leibniz), through the
       detailed, the fast and the interpretive template;
     - on every dict payload the interpretive template refines the same specification as the generated ones. *)
From Coq Require Import Lia Permutation.
From V.Model Require Import Base Templates.
From V.Proofs Require Import TemplatesProofs UnstructProofs ClassSound.

Section CR.
Variable V : Type.
Variable d0 : V.
Variable K : N -> V -> result V.
Variable opt : topts.
Hypothesis O_alias : t_use_alias opt = false.
Hypothesis O_incl : t_incl_init_false opt = false.
Hypothesis O_omit : t_omit_if_default opt = false.
Notation ov := (fun _ : N => neutral).
Notation field := (field V).

Variable fs : list field.
Hypothesis W : wf V opt ov fs.
Hypothesis A_init : forall f, In f fs -> f_init f = true.
Hypothesis A_conv : forall f, In f fs -> f_conv f = false.

Lemma filter_all {A} (p : A -> bool) l : (forall x, In x l -> p x = true) -> filter p l = l.
Proof. induction l as [|x l IH]; cbn; intros H; [reflexivity|]. rewrite (H x) by now left. f_equal. apply IH. intros y Hy. apply H. now right. Qed.
Lemma filter_none {A} (p : A -> bool) l : (forall x, In x l -> p x = false) -> filter p l = [].
Proof. induction l as [|x l IH]; cbn; intros H; [reflexivity|]. rewrite (H x) by now left. apply IH. intros y Hy. apply H. now right. Qed.

Lemma incl_all f : In f fs -> included V opt ov f = true.
Proof. intros Hf. unfold included. cbn. rewrite (A_init f Hf). reflexivity. Qed.
Lemma key_name f : key_of V opt ov f = f_name f.
Proof. unfold key_of. cbn. now rewrite O_alias. Qed.
Lemma no_omit f : omit_default V opt ov f = false.
Proof. unfold omit_default. cbn. rewrite O_omit. now destruct (f_dflt f). Qed.

Lemma inc_is_fs : filter (included V opt ov) fs = fs.
Proof. apply filter_all. exact incl_all. Qed.
Lemma inc_init_is_fs : inc_init V opt ov fs = fs.
Proof. unfold inc_init. rewrite inc_is_fs. apply filter_all. exact A_init. Qed.
Lemma inc_pi_nil : inc_pi V opt ov fs = [].
Proof. unfold inc_pi. rewrite inc_is_fs. apply filter_none. intros f Hf. now rewrite (A_init f Hf). Qed.

(* ---- shapes of the results: one entry per attribute, in attribute order ---- *)
Lemma fill_keys : forall l b i, (forall f, In f l -> f_init f = true) -> fill V K l b = Ok i -> map fst i = map (@f_name V) l.
Proof.
  induction l as [|f l IH]; intros b i Hi H; cbn [fill] in H; [inversion H; reflexivity|].
  rewrite (Hi f) in H by now left.
  assert (X : forall w, (do w0 <- apply_conv V K f w; do rest <- fill V K l b; Ok ((f_name f, w0) :: rest)) = Ok i -> map fst i = map (@f_name V) (f :: l)).
  { intros w Hw. destruct (apply_conv V K f w) as [w0| |]; cbn [bind] in Hw; try discriminate.
    destruct (fill V K l b) as [rest| |] eqn:Er; cbn [bind] in Hw; try discriminate. inversion Hw; subst. cbn. f_equal.
    eapply IH; [|exact Er]. intros g Hg. apply Hi. now right. }
  destruct (assoc b (f_alias f)) as [w|]; [now apply (X w)|]. destruct (f_dflt f) as [d|]; [now apply (X d) | discriminate].
Qed.

Lemma instantiate_keys pos kw i : instantiate V K fs pos kw = Ok i -> map fst i = map (@f_name V) fs.
Proof.
  unfold instantiate. destruct (bind_pos V (pos_params V fs) pos) as [b| |]; cbn [bind]; try discriminate.
  destruct (bind_kw V (params V fs) b kw) as [b'| |]; cbn [bind]; try discriminate. apply fill_keys. exact A_init.
Qed.

Lemma spec_keys hs o i : spec_struct V K opt ov hs fs o = Some i -> map fst i = map (@f_name V) fs.
Proof.
  unfold spec_struct. rewrite inc_pi_nil. cbn [forallb flat_map set_all].
  destruct (_ && _); [|discriminate]. destruct (instantiate V K fs [] _) as [i0| |] eqn:Ei; try discriminate.
  intros H. inversion H; subst. eapply instantiate_keys; exact Ei.
Qed.

Lemma fast_keys hs o i : tpl_fast V K opt ov hs true fs o = Ok i -> map fst i = map (@f_name V) fs.
Proof.
  unfold tpl_fast. destruct (negb _); [discriminate|]. rewrite inc_is_fs.
  destruct (fast_opt_loop _ _ _ _ _ _ _) as [res| |]; cbn [bind]; try discriminate.
  match goal with |- (do _ <- ?c; _) = _ -> _ => destruct c as [u| |]; cbn [bind]; try discriminate end.
  destruct (fast_args _ _ _ _ _ _) as [pk| |]; cbn [bind]; try discriminate.
  destruct (instantiate V K fs (fst pk) (snd pk ++ res)) as [i0| |] eqn:Ei; cbn [bind]; try discriminate.
  rewrite (filter_none (fun f => negb (f_init f)) (filter (required V) fs)), (filter_none (fun f => negb (f_init f)) (filter (fun f => negb (required V f)) fs)).
  - cbn. intros H. inversion H; subst. eapply instantiate_keys; exact Ei.
  - intros f Hf. apply filter_In in Hf. destruct Hf as [Hf _]. now rewrite (A_init f Hf).
  - intros f Hf. apply filter_In in Hf. destruct Hf as [Hf _]. now rewrite (A_init f Hf).
Qed.

Lemma assoc_ext_eq {B} : forall (i j : list (N * B)),
  map fst i = map fst j -> NoDup (map fst i) -> (forall k, assoc i k = assoc j k) -> i = j.
Proof.
  induction i as [|[n v] i IH]; intros [|[m w] j] Hk Hnd Ha; cbn in Hk; try discriminate; [reflexivity|].
  inversion Hk as [[Hn Hr]]. subst m. inversion Hnd as [|? ? Hnn Hrr]; subst.
  pose proof (Ha n) as H0. cbn in H0. rewrite N.eqb_refl in H0. inversion H0; subst w. f_equal.
  apply IH; [exact Hr | exact Hrr|]. intros k. pose proof (Ha k) as Hk'. cbn in Hk'.
  destruct (N.eqb n k) eqn:E; [|exact Hk']. apply N.eqb_eq in E. subst k.
  rewrite (assoc_none_notin i n Hnn). rewrite Hr in Hnn. now rewrite (assoc_none_notin j n Hnn).
Qed.

(* for such classes the fast template refines the specification up to Leibniz equality *)
Lemma fast_is_spec hs o : to_opt (tpl_fast V K opt ov hs true fs o) = spec_struct V K opt ov hs fs o.
Proof.
  pose proof (fast_refines_spec V K opt ov hs fs o W) as R.
  destruct (tpl_fast V K opt ov hs true fs o) as [j| |] eqn:E; cbn [to_opt] in *;
    destruct (spec_struct V K opt ov hs fs o) as [i|] eqn:Es; try contradiction; try reflexivity.
  f_equal. apply assoc_ext_eq.
  - rewrite (fast_keys _ _ _ E), (spec_keys _ _ _ Es). reflexivity.
  - rewrite (fast_keys _ _ _ E). exact (wf_name _ _ _ _ W).
  - exact R.
Qed.

(* ---- the instance, attribute by attribute ---- *)
Variable i : inst V.
Hypothesis I_keys : map fst i = map (@f_name V) fs.
Definition aval (f : field) : V := match assoc i (f_name f) with Some v => v | None => d0 end.

Lemma i_shape : i = map (fun f => (f_name f, aval f)) fs.
Proof.
  pose proof (wf_name _ _ _ _ W) as Hnd. clear -I_keys Hnd. unfold aval.
  revert i I_keys. induction fs as [|f l IH]; intros [|[n v] i] Hk; cbn in Hk; try discriminate; [reflexivity|].
  inversion Hk as [[Hn Hr]]. subst n. inversion Hnd as [|? ? Hnn Hrr]; subst. cbn [map assoc]. rewrite N.eqb_refl. f_equal.
  rewrite (IH Hrr i Hr) at 1. apply map_ext_in. intros g Hg. f_equal.
  destruct (N.eqb (f_name f) (f_name g)) eqn:E; [|reflexivity]. apply N.eqb_eq in E. exfalso. apply Hnn. rewrite E. now apply in_map.
Qed.

Lemma vals_ok f : In f fs -> assoc i (f_name f) = Some (aval f).
Proof.
  intros Hf. unfold aval. destruct (assoc i (f_name f)) eqn:E; [reflexivity|]. exfalso.
  assert (X : In (f_name f) (map fst i)) by (rewrite I_keys; now apply in_map).
  clear -E X. induction i as [|[n v] l IH]; cbn in *; [contradiction|]. destruct (N.eqb n (f_name f)) eqn:En; [discriminate|].
  destruct X as [X|X]; [subst; rewrite N.eqb_refl in En; discriminate | auto].
Qed.

Variable hs_u hs_s : N -> V -> result V.
Variable hu : N -> V -> V.
Hypothesis H_hu : forall f, In f fs -> hs_u (f_name f) (aval f) = Ok (hu (f_name f) (aval f)).
Hypothesis H_inv : forall f, In f fs -> hs_s (f_name f) (hu (f_name f) (aval f)) = Ok (aval f).

Definition D : list (N * V) := map (fun f => (f_name f, hu (f_name f) (aval f))) fs.

Lemma lit_map l : lit_of V opt ov hu aval l = map (fun f => (f_name f, hu (f_name f) (aval f))) l.
Proof.
  unfold lit_of. induction l as [|f l IH]; [reflexivity|]. cbn [flat_map map].
  rewrite no_omit. cbn [app]. unfold entry. rewrite key_name. f_equal. exact IH.
Qed.
Lemma lit_is_D : lit_of V opt ov hu aval fs = D.
Proof. apply lit_map. Qed.
Lemma cnd_nil veq l : cnd_of V veq opt ov hu aval l = [].
Proof.
  unfold cnd_of. induction l as [|f l IH]; [reflexivity|]. cbn [flat_map]. rewrite no_omit. cbn. exact IH.
Qed.
Lemma cnd_is_nil veq : cnd_of V veq opt ov hu aval fs = [].
Proof. apply cnd_nil. Qed.

Lemma nodup_keys : NoDup (map (key_of V opt ov) (filter (included V opt ov) fs)).
Proof.
  rewrite inc_is_fs. rewrite (map_ext _ (@f_name V) key_name). exact (wf_name _ _ _ _ W).
Qed.

(* the generated unstructure hook: every attribute, in order, under its name *)
Theorem un_gen_all veq : un_gen V veq opt ov hs_u fs i = Ok D.
Proof.
  rewrite (un_gen_exact V veq opt ov hs_u hu fs i aval).
  - rewrite inc_is_fs, lit_is_D, cnd_is_nil. now rewrite app_nil_r.
  - intros f Hf. rewrite inc_is_fs in Hf. now apply vals_ok.
  - exact nodup_keys.
  - intros f Hf. rewrite inc_is_fs in Hf. now apply H_hu.
Qed.

(* so does the interpretive one *)
Theorem un_interp_all : un_interp_dict V hs_u fs i = Ok D.
Proof.
  unfold D. assert (Hsub : forall f, In f fs -> In f fs) by auto. revert Hsub. generalize fs at 1 3 4 as l.
  induction l as [|f l IH]; intros Hsub; cbn [un_interp_dict map]; [reflexivity|].
  unfold getattr. rewrite (vals_ok f) by (apply Hsub; now left). cbn [bind]. rewrite (H_hu f) by (apply Hsub; now left). cbn [bind].
  rewrite IH by (intros g Hg; apply Hsub; now right). reflexivity.
Qed.

Hypothesis O_forbid : t_forbid opt = false.

Lemma spec_roundtrip : spec_struct V K opt ov hs_s fs (dict_obj D) = Some i.
Proof.
  pose (veq := fun _ _ : V => false).
  destruct (roundtrip_spec V K veq opt ov hu fs aval nodup_keys hs_s) as (i' & E & A).
  - intros f Hf. rewrite inc_is_fs in Hf. now apply H_inv.
  - exact (wf_alias _ _ _ _ W).
  - exact (wf_name _ _ _ _ W).
  - exact A_conv.
  - intros a b X. discriminate.
  - intros f Hf Hi Hinc. rewrite (incl_all f Hf) in Hinc. discriminate.
  - exact O_forbid.
  - rewrite inc_is_fs, lit_is_D, cnd_is_nil, app_nil_r in E. rewrite E. f_equal.
    apply assoc_ext_eq.
    + rewrite (spec_keys _ _ _ E). now rewrite I_keys.
    + rewrite (spec_keys _ _ _ E). exact (wf_name _ _ _ _ W).
    + intros k. destruct (in_dec N.eq_dec k (map (@f_name V) fs)) as [Hin|Hout].
      * apply in_map_iff in Hin. destruct Hin as (f & <- & Hf). rewrite (vals_ok f Hf). apply A. now rewrite inc_is_fs.
      * rewrite (assoc_none_notin i' k) by (now rewrite (spec_keys _ _ _ E)). now rewrite (assoc_none_notin i k) by (now rewrite I_keys).
Qed.

(* C01, class level: structuring what the unstructure hook produced, with handlers that undo the
   unstructure handlers on the instance's values, gives back the instance itself *)
Theorem class_rt_detailed : tpl_detailed V K opt ov hs_s true fs (dict_obj D) = Ok i.
Proof.
  pose proof (detailed_refines_spec V K opt ov hs_s fs (dict_obj D)) as R. rewrite spec_roundtrip in R.
  destruct (tpl_detailed V K opt ov hs_s true fs (dict_obj D)); cbn in R; try discriminate. now inversion R.
Qed.

Theorem class_rt_fast : tpl_fast V K opt ov hs_s true fs (dict_obj D) = Ok i.
Proof.
  pose proof (fast_refines_spec V K opt ov hs_s fs (dict_obj D) W) as R. rewrite spec_roundtrip in R.
  destruct (tpl_fast V K opt ov hs_s true fs (dict_obj D)) as [j| |] eqn:E; cbn in R; try contradiction. f_equal.
  apply assoc_ext_eq.
  - rewrite (fast_keys _ _ _ E). now rewrite I_keys.
  - rewrite (fast_keys _ _ _ E). exact (wf_name _ _ _ _ W).
  - exact R.
Qed.

End CR.

(* ---- the interpretive dict template against the specification of the generated ones (dict payloads) ---- *)
Section CI.
Variable V : Type.
Variable K : N -> V -> result V.
Variable opt : topts.
Hypothesis O_alias : t_use_alias opt = false.
Hypothesis O_incl : t_incl_init_false opt = false.
Hypothesis O_forbid : t_forbid opt = false.
Notation ov := (fun _ : N => neutral).
Notation field := (field V).
Variable hs : N -> V -> result V.
Variable fs : list field.
Hypothesis W : wf V opt ov fs.
Hypothesis A_init : forall f, In f fs -> f_init f = true.
Variable d : list (N * V).

Definition ok_f (f : field) : bool :=
  match assoc d (f_name f) with Some v => is_ok (hs (f_name f) v) | None => true end.
Definition contrib' (f : field) : list (N * V) :=
  match assoc d (f_name f) with
  | Some v => match hs (f_name f) v with Ok w => [(f_alias f, w)] | _ => [] end
  | None => []
  end.
Definition present (f : field) : bool := match assoc d (f_name f) with Some _ => true | None => false end.

Lemma mem_keys_assoc (k : N) : mem_N k (keys d) = match assoc d k with Some _ => true | None => false end.
Proof.
  unfold mem_N, keys. induction d as [|[a b] l IH]; cbn; [reflexivity|].
  rewrite N.eqb_sym. destruct (N.eqb a k); cbn; [reflexivity | exact IH].
Qed.

Lemma key_name' f : key_of V opt ov f = f_name f.
Proof. unfold key_of. cbn. now rewrite O_alias. Qed.

Lemma good_dict f : good V opt ov hs (dict_obj d) f = ok_f f && (negb (required V f) || present f).
Proof.
  unfold good, fetch, ok_f, present, required. cbn [dict_obj o_in o_get]. rewrite key_name', mem_keys_assoc.
  destruct (f_dflt f) as [dv|]; destruct (assoc d (f_name f)) as [v|]; cbn [bind is_ok negb orb andb]; try reflexivity.
  - now rewrite andb_true_r.
  - now rewrite andb_true_r.
Qed.

Lemma contrib_dict f : contrib V opt ov hs (dict_obj d) f = contrib' f.
Proof.
  unfold contrib, fetch, contrib'. cbn [dict_obj o_in o_get]. rewrite key_name', mem_keys_assoc.
  destruct (f_dflt f) as [dv|]; destruct (assoc d (f_name f)) as [v|]; cbn [bind]; reflexivity.
Qed.

Lemma interp_loop_dict l : forall acc,
  (forall f, In f l -> ~ In (f_alias f) (map fst acc)) -> NoDup (map (@f_alias V) l) ->
  match interp_dict_loop V hs (dict_obj d) l acc with
  | Ok kw => forallb ok_f l = true /\ kw = acc ++ flat_map contrib' l
  | _ => forallb ok_f l = false
  end.
Proof.
  induction l as [|f l IH]; intros acc Hfr Hnd; cbn [interp_dict_loop forallb flat_map].
  - split; [reflexivity | now rewrite app_nil_r].
  - inversion Hnd as [|? ? Hn Hr]; subst. cbn [dict_obj o_get].
    assert (Hrest : forall w g, In g l -> ~ In (f_alias g) (map fst (acc ++ [(f_alias f, w)]))).
    { intros w g Hg. rewrite map_app, in_app_iff. cbn. intros [X|[X|[]]]; [revert X; apply Hfr; now right|].
      apply Hn. rewrite X. now apply in_map. }
    destruct (assoc d (f_name f)) as [v|] eqn:Ea.
    + destruct (hs (f_name f) v) as [w|e|] eqn:Eh; cbn [bind].
      * assert (Hokf : ok_f f = true) by (unfold ok_f; now rewrite Ea, Eh).
        assert (Hcf : contrib' f = [(f_alias f, w)]) by (unfold contrib'; now rewrite Ea, Eh).
        rewrite Hokf, Hcf. cbn [andb].
        rewrite (dict_set_fresh acc _ _ (Hfr f (or_introl eq_refl))).
        specialize (IH (acc ++ [(f_alias f, w)]) (Hrest w) Hr).
        destruct (interp_dict_loop V hs (dict_obj d) l (acc ++ [(f_alias f, w)])) as [kw| |]; [|exact IH|exact IH].
        destruct IH as (Hok & Hkw). split; [exact Hok|]. now rewrite Hkw, <- app_assoc.
      * assert (Hokf : ok_f f = false) by (unfold ok_f; now rewrite Ea, Eh). now rewrite Hokf.
      * assert (Hokf : ok_f f = false) by (unfold ok_f; now rewrite Ea, Eh). now rewrite Hokf.
    + assert (Hokf : ok_f f = true) by (unfold ok_f; now rewrite Ea).
      assert (Hcf : contrib' f = []) by (unfold contrib'; now rewrite Ea).
      rewrite Hokf, Hcf. cbn [andb app]. apply IH; [|exact Hr]. intros g Hg. apply Hfr. now right.
Qed.

Lemma fill_fails : forall l b f, In f l -> f_init f = true -> f_dflt f = None -> assoc b (f_alias f) = None ->
  to_opt (fill V K l b) = None.
Proof.
  induction l as [|g l IH]; intros b f Hf Hi Hd Ha; [contradiction|]. cbn [fill].
  destruct Hf as [Hf|Hf].
  - subst g. rewrite Hi, Ha, Hd. reflexivity.
  - pose proof (IH b f Hf Hi Hd Ha) as X.
    assert (Y : forall w, to_opt (do w0 <- apply_conv V K g w; do rest <- fill V K l b; Ok ((f_name g, w0) :: rest)) = None).
    { intros w. destruct (apply_conv V K g w); cbn [bind]; try reflexivity. destruct (fill V K l b); cbn in *; try reflexivity. discriminate. }
    destruct (f_init g).
    + destruct (assoc b (f_alias g)); [apply Y|]. destruct (f_dflt g); [apply Y | reflexivity].
    + destruct (f_dflt g); [apply Y | exact X].
Qed.

Lemma assoc_contrib'_none (l : list field) (f : field) : ~ In (f_alias f) (map (@f_alias V) l) -> assoc (flat_map contrib' l) (f_alias f) = None.
Proof.
  intros H. apply assoc_none_notin. intros X. apply H. clear H. induction l as [|g l IH]; cbn in X; [contradiction|].
  rewrite map_app, in_app_iff in X. destruct X as [X|X]; [left | right; auto].
  unfold contrib' in X. destruct (assoc d (f_name g)); [|contradiction]. destruct (hs (f_name g) v); try contradiction.
  destruct X as [X|[]]. exact X.
Qed.

(* C06, class level: on every dict payload the interpretive template accepts exactly what the
   specification of the generated templates accepts, with the same instance *)
Theorem interp_refines_spec :
  to_opt (tpl_interp_dict V K hs fs (dict_obj d)) = spec_struct V K opt ov hs fs (dict_obj d).
Proof.
  assert (Hinc : filter (included V opt ov) fs = fs).
  { apply filter_all. intros f Hf. unfold included. cbn. now rewrite (A_init f Hf). }
  unfold spec_struct, inc_init, inc_pi, forbid_ok. rewrite Hinc, O_forbid, andb_true_r.
  rewrite (filter_all (@f_init V) fs A_init).
  rewrite (filter_none (fun f => negb (f_init f)) fs) by (intros f Hf; now rewrite (A_init f Hf)).
  cbn [forallb flat_map set_all].
  rewrite (flat_map_ext _ _ contrib_dict).
  unfold tpl_interp_dict.
  pose proof (interp_loop_dict fs [] (fun _ _ X => X) (wf_alias _ _ _ _ W)) as L.
  destruct (forallb (good V opt ov hs (dict_obj d)) fs) eqn:Eg.
  - assert (Hok : forallb ok_f fs = true).
    { apply forallb_forall. intros f Hf. rewrite forallb_forall in Eg. specialize (Eg f Hf). rewrite good_dict in Eg. now apply andb_prop in Eg. }
    destruct (interp_dict_loop V hs (dict_obj d) fs []) as [kw| |]; [|congruence|congruence].
    destruct L as (_ & ->). cbn [bind app].
    destruct (instantiate V K fs [] (flat_map contrib' fs)); reflexivity.
  - destruct (interp_dict_loop V hs (dict_obj d) fs []) as [kw| |]; try reflexivity.
    destruct L as (Hok & ->). cbn [bind app].
    (* every handler succeeded, so a mandatory attribute is missing from the payload *)
    assert (Hex : exists f, In f fs /\ required V f = true /\ present f = false).
    { apply Bool.not_true_iff_false in Eg. destruct (existsb (fun f => required V f && negb (present f)) fs) eqn:Ex.
      - apply existsb_exists in Ex. destruct Ex as (f & Hf & X). apply andb_prop in X. destruct X as [X1 X2].
        exists f. repeat split; auto. now destruct (present f).
      - exfalso. apply Eg. apply forallb_forall. intros f Hf. rewrite good_dict.
        rewrite forallb_forall in Hok. rewrite (Hok f Hf). cbn [andb].
        assert (Y : required V f && negb (present f) = false).
        { destruct (required V f && negb (present f)) eqn:Z; [|reflexivity]. exfalso.
          assert (existsb (fun f => required V f && negb (present f)) fs = true) by (apply existsb_exists; eauto). congruence. }
        destruct (required V f), (present f); cbn in *; congruence. }
    destruct Hex as (f & Hf & Hreq & Hpre).
    unfold instantiate.
    assert (Hbp : bind_pos V (pos_params V fs) [] = Ok []) by (destruct (pos_params V fs); reflexivity).
    rewrite Hbp. cbn [bind].
    destruct (bind_kw V (params V fs) [] (flat_map contrib' fs)) as [b| |] eqn:Eb; cbn [bind]; try reflexivity.
    apply bind_kw_app in Eb. cbn in Eb. subst b.
    apply (fill_fails fs _ f Hf (A_init f Hf)).
    + unfold required in Hreq. now destruct (f_dflt f).
    + (* f contributes nothing, and no other attribute shares its alias *)
      assert (Hnd := wf_alias _ _ _ _ W). clear -Hf Hpre Hnd. induction fs as [|g l IH]; [contradiction|].
      inversion Hnd as [|? ? Hn Hr]; subst. cbn [flat_map]. rewrite assoc_app2.
      destruct Hf as [Hf|Hf].
      * subst g. unfold contrib' at 1. unfold present in Hpre. destruct (assoc d (f_name f)); [discriminate|]. cbn [assoc].
        now apply assoc_contrib'_none.
      * assert (X : assoc (contrib' g) (f_alias f) = None).
        { unfold contrib'. destruct (assoc d (f_name g)); [|reflexivity]. destruct (hs (f_name g) v); try reflexivity. cbn.
          destruct (N.eqb (f_alias g) (f_alias f)) eqn:E; [|reflexivity]. apply N.eqb_eq in E. exfalso. apply Hn. rewrite E. now apply in_map. }
        rewrite X. now apply IH.
Qed.

End CI.

(* ---- the tuple strategy: unstructure_attrs_astuple then structure_attrs_fromtuple ---- *)
Section CT.
Variable V : Type.
Variable K : N -> V -> result V.
Notation field := (field V).
Variable fs : list field.
Hypothesis Nd_alias : NoDup (map (@f_alias V) fs).
Hypothesis Nd_name : NoDup (map (@f_name V) fs).
Hypothesis A_init : forall f, In f fs -> f_init f = true.
Hypothesis A_conv : forall f, In f fs -> f_conv f = false.
Variable i : inst V.
Hypothesis I_keys : map fst i = map (@f_name V) fs.
Variable d0 : V.
Notation av := (aval V d0 i).
Variable hs_u hs_s : N -> V -> result V.
Variable hu : N -> V -> V.
Hypothesis H_hu : forall f, In f fs -> hs_u (f_name f) (av f) = Ok (hu (f_name f) (av f)).
Hypothesis H_inv : forall f, In f fs -> hs_s (f_name f) (hu (f_name f) (av f)) = Ok (av f).

Definition T : list V := map (fun f => hu (f_name f) (av f)) fs.

Lemma vals_ok_t f : In f fs -> assoc i (f_name f) = Some (av f).
Proof.
  intros Hf. unfold aval. destruct (assoc i (f_name f)) eqn:E; [reflexivity|]. exfalso.
  assert (X : In (f_name f) (map fst i)) by (rewrite I_keys; now apply in_map).
  clear -E X. induction i as [|[n v] l IH]; cbn in *; [contradiction|]. destruct (N.eqb n (f_name f)) eqn:En; [discriminate|].
  destruct X as [X|X]; [subst; rewrite N.eqb_refl in En; discriminate | auto].
Qed.

(* the interpretive tuple unstructure hook: every attribute's handled value, in attribute order *)
Theorem un_interp_tuple_all : un_interp_tuple V hs_u fs i = Ok T.
Proof.
  unfold T. assert (Hsub : forall f, In f fs -> In f fs) by auto. revert Hsub. generalize fs at 1 3 4 as l.
  induction l as [|f l IH]; intros Hsub; cbn [un_interp_tuple map]; [reflexivity|].
  unfold getattr. rewrite (vals_ok_t f) by (apply Hsub; now left). cbn [bind]. rewrite (H_hu f) by (apply Hsub; now left). cbn [bind].
  rewrite IH by (intros g Hg; apply Hsub; now right). reflexivity.
Qed.

Definition posf (l : list field) : list field := filter (fun f => negb (f_kw_only f)) l.
Definition kwf (l : list field) : list field := filter (@f_kw_only V) l.
Definition bnd (l : list field) : list (N * V) := map (fun f => (f_alias f, av f)) l.

Lemma zip_split_rt l : (forall f, In f l -> In f fs) ->
  zip_split V hs_s true l (map (fun f => hu (f_name f) (av f)) l) = Ok (map av (posf l), bnd (kwf l)).
Proof.
  induction l as [|f l IH]; intros Hs; cbn [zip_split map]; [reflexivity|].
  rewrite (A_init f) by (apply Hs; now left). cbn [negb andb].
  rewrite (H_inv f) by (apply Hs; now left). cbn [bind].
  rewrite IH by (intros g Hg; apply Hs; now right). cbn [bind fst snd].
  unfold posf, kwf, bnd. cbn [filter]. destruct (f_kw_only f); cbn [negb map]; reflexivity.
Qed.

Lemma bind_pos_all ps : bind_pos V ps (map av ps) = Ok (bnd ps).
Proof. induction ps as [|p ps IH]; cbn [bind_pos map bnd]; [reflexivity|]. rewrite IH. reflexivity. Qed.

Lemma bind_kw_all ps : forall l b,
  (forall f, In f l -> In f ps) -> NoDup (map (@f_alias V) l) -> (forall f, In f l -> ~ In (f_alias f) (map fst b)) ->
  bind_kw V ps b (bnd l) = Ok (b ++ bnd l).
Proof.
  induction l as [|f l IH]; intros b Hs Hnd Hfr; cbn [bnd map bind_kw]; [now rewrite app_nil_r|].
  inversion Hnd as [|? ? Hn Hr]; subst.
  assert (E : existsb (fun p => N.eqb (f_alias p) (f_alias f)) ps = true).
  { apply existsb_exists. exists f. split; [apply Hs; now left | apply N.eqb_refl]. }
  rewrite E. rewrite (assoc_none_notin b (f_alias f)) by (apply Hfr; now left).
  fold (bnd l). rewrite IH.
  - now rewrite <- app_assoc.
  - intros g Hg. apply Hs. now right.
  - exact Hr.
  - intros g Hg. rewrite map_app, in_app_iff. cbn. intros [X|[X|[]]].
    + revert X. apply Hfr. now right.
    + apply Hn. rewrite X. now apply in_map.
Qed.

Lemma assoc_bnd l f : (forall g, In g l -> In g fs) -> In f l -> assoc (bnd l) (f_alias f) = Some (av f).
Proof.
  induction l as [|g l IH]; intros Hs Hf; [contradiction|]. cbn [bnd map assoc].
  destruct (N.eqb (f_alias g) (f_alias f)) eqn:E.
  - apply N.eqb_eq in E. assert (g = f) by (eapply (nodup_in_eq (@f_alias V) fs); [exact Nd_alias | apply Hs; now left | apply Hs; exact Hf | exact E]).
    now subst.
  - destruct Hf as [Hf|Hf]; [subst; rewrite N.eqb_refl in E; discriminate|]. apply IH; [|exact Hf]. intros h Hh. apply Hs. now right.
Qed.

Lemma fill_all b l : (forall f, In f l -> In f fs) -> (forall f, In f l -> assoc b (f_alias f) = Some (av f)) ->
  fill V K l b = Ok (map (fun f => (f_name f, av f)) l).
Proof.
  induction l as [|f l IH]; intros Hs Hb; cbn [fill map]; [reflexivity|].
  rewrite (A_init f) by (apply Hs; now left). rewrite (Hb f) by now left.
  unfold apply_conv. rewrite (A_conv f) by (apply Hs; now left). cbn [bind].
  rewrite IH; [reflexivity | intros g Hg; apply Hs; now right | intros g Hg; apply Hb; now right].
Qed.

Lemma i_shape_t : i = map (fun f => (f_name f, av f)) fs.
Proof.
  clear -I_keys Nd_name. unfold aval.
  revert i I_keys. induction fs as [|f l IH]; intros [|[n v] i] Hk; cbn in Hk; try discriminate; [reflexivity|].
  inversion Hk as [[Hn Hr]]. subst n. inversion Nd_name as [|? ? Hnn Hrr]; subst. cbn [map assoc]. rewrite N.eqb_refl. f_equal.
  rewrite (IH Hrr i Hr) at 1. apply map_ext_in. intros g Hg. f_equal.
  destruct (N.eqb (f_name f) (f_name g)) eqn:E; [|reflexivity]. apply N.eqb_eq in E. exfalso. apply Hnn. rewrite E. now apply in_map.
Qed.

Lemma in_pos_or_kw f : In f fs -> In f (posf fs ++ kwf fs).
Proof.
  intros Hf. apply in_app_iff. unfold posf, kwf. destruct (f_kw_only f) eqn:E.
  - right. apply filter_In. auto.
  - left. apply filter_In. split; [exact Hf | now rewrite E].
Qed.

(* C01, class level, tuple strategy: structuring the tuple the unstructure hook produced, kw_only attributes
   passed by keyword, with handlers that undo the unstructure handlers, gives back the instance itself *)
Theorem class_rt_tuple (o : pobj V) : o_iter o = Ok T -> tpl_interp_tuple V K hs_s true fs o = Ok i.
Proof.
  intros Ho. unfold tpl_interp_tuple. rewrite Ho. cbn [bind]. unfold T.
  rewrite (zip_split_rt fs (fun _ X => X)). cbn [bind fst snd]. unfold instantiate.
  assert (Hp : params V fs = fs) by (unfold params; clear -A_init; induction fs as [|f l IH]; cbn; [reflexivity|];
                                     rewrite (A_init f) by (now left); f_equal; apply IH; intros g Hg; apply A_init; now right).
  unfold pos_params. rewrite Hp. fold (posf fs). rewrite bind_pos_all. cbn [bind].
  rewrite (bind_kw_all fs (kwf fs) (bnd (posf fs))).
  - cbn [bind]. rewrite (fill_all (bnd (posf fs) ++ bnd (kwf fs)) fs (fun _ X => X)).
    + now rewrite <- i_shape_t.
    + intros f Hf. unfold bnd. rewrite <- map_app. fold (bnd (posf fs ++ kwf fs)). apply assoc_bnd; [|now apply in_pos_or_kw].
      intros g Hg. apply in_app_iff in Hg. unfold posf, kwf in Hg. destruct Hg as [Hg|Hg]; apply filter_In in Hg; tauto.
  - intros f Hf. unfold kwf in Hf. apply filter_In in Hf. tauto.
  - unfold kwf. clear -Nd_alias. induction fs as [|f l IH]; cbn; [constructor|]. inversion Nd_alias as [|? ? Hn Hr]; subst.
    destruct (f_kw_only f); [|now apply IH]. cbn. constructor; [|now apply IH]. intros X. apply Hn.
    apply in_map_iff in X. destruct X as (g & Eg & Hg). apply filter_In in Hg. rewrite <- Eg. apply in_map. tauto.
  - intros f Hf X. unfold bnd in X. rewrite map_map in X. cbn in X. apply in_map_iff in X. destruct X as (g & Eg & Hg).
    unfold kwf in Hf. unfold posf in Hg. apply filter_In in Hf. apply filter_In in Hg. destruct Hf as [Hf Hk], Hg as [Hg Hnk].
    assert (g = f) by (eapply (nodup_in_eq (@f_alias V) fs); eauto). subst. rewrite Hk in Hnk. discriminate.
Qed.
End CT.
