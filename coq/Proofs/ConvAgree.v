(* ConvAgree.v -- C04 / C06 for the nested universe: two converters that differ only in the validation mode
   and / or the class (generated vs interpretive hooks) accept the same inputs with the same results.
   Every collecting loop is shown to compute, as far as acceptance and result are concerned, a
   mode-independent specification; the class case is the class-level refinement theorems. *)
From Coq Require Import Lia.
From V.Model Require Import Base Templates Conv ConvSpec.
From V.Proofs Require Import TemplatesProofs UnstructProofs ClassSound ClassRoundtrip.

(* ---------------- mode-independent specifications of the loops ---------------- *)
Fixpoint oall {A B} (g : A -> option B) (l : list A) : option (list B) :=
  match l with
  | [] => Some []
  | x :: r => match g x, oall g r with Some y, Some ys => Some (y :: ys) | _, _ => None end
  end.

Lemma oall_ext {A B} (g h : A -> option B) l : (forall x, In x l -> g x = h x) -> oall g l = oall h l.
Proof.
  induction l as [|x l IH]; intros H; [reflexivity|]. cbn. rewrite (H x) by now left. rewrite IH; [reflexivity|]. intros y Hy. apply H. now right.
Qed.

Section Loops.
Variable cfg : ccfg.

Lemma coll_fast_opt (f : val -> result val) l : to_opt (coll_fast f l) = oall (fun x => to_opt (f x)) l.
Proof.
  induction l as [|x l IH]; [reflexivity|]. cbn [coll_fast oall]. destruct (f x) as [y| |]; cbn [bind to_opt]; try reflexivity.
  rewrite <- IH. destruct (coll_fast f l); reflexivity.
Qed.

Lemma coll_det_some (f : val -> result val) l : forall ys ix acc errs,
  oall (fun x => to_opt (f x)) l = Some ys -> coll_det f l ix acc errs = Ok (acc ++ ys, errs).
Proof.
  induction l as [|x l IH]; intros ys ix acc errs H; cbn [oall] in H; cbn [coll_det].
  - inversion H. now rewrite app_nil_r.
  - destruct (f x) as [y| |]; cbn [to_opt] in H; try discriminate.
    destruct (oall _ l) as [ys'|] eqn:E; [|discriminate]. inversion H; subst. rewrite (IH ys') by reflexivity. now rewrite <- app_assoc.
Qed.
Lemma coll_det_none (f : val -> result val) l : forall ix acc errs,
  oall (fun x => to_opt (f x)) l = None \/ errs <> [] ->
  match coll_det f l ix acc errs with Ok (_, e) => e <> [] | _ => True end.
Proof.
  induction l as [|x l IH]; intros ix acc errs H; cbn [coll_det].
  - destruct H as [H|H]; [discriminate | exact H].
  - destruct (f x) as [y|e|] eqn:Ef; [| |exact I].
    + apply IH. destruct H as [H|H]; [|now right]. left. cbn [oall] in H. rewrite Ef in H. cbn [to_opt] in H. destruct (oall _ l); [discriminate | reflexivity].
    + apply IH. right. destruct errs; discriminate.
Qed.

Theorem coll_opt (f : val -> result val) l : to_opt (coll cfg f l) = oall (fun x => to_opt (f x)) l.
Proof.
  unfold coll. destruct (c_dv cfg); [|apply coll_fast_opt].
  destruct (oall (fun x => to_opt (f x)) l) as [ys|] eqn:E.
  - rewrite (coll_det_some f l ys 0%N [] [] E). reflexivity.
  - pose proof (coll_det_none f l 0%N [] [] (or_introl E)) as H.
    destruct (coll_det f l 0 [] []) as [[a e]| |]; cbn [bind fst snd]; try reflexivity. destruct e; [contradiction | reflexivity].
Qed.

(* sets *)
Definition oset (g : val -> option val) (l : list val) : option (list val) :=
  match oall g l with Some ys => to_opt (set_of_list [] ys) | None => None end.

Lemma set_det_some (f : val -> result val) l : forall ys s ix acc errs,
  oall (fun x => to_opt (f x)) l = Some ys -> set_of_list acc ys = Ok s -> set_det f l ix acc errs = Ok (s, errs).
Proof.
  induction l as [|x l IH]; intros ys s ix acc errs H Hs; cbn [oall] in H; cbn [set_det].
  - inversion H; subst. cbn in Hs. now inversion Hs.
  - destruct (f x) as [y| |]; cbn [to_opt] in H; try discriminate.
    destruct (oall _ l) as [ys'|] eqn:E; [|discriminate]. inversion H; subst. cbn [set_of_list bind] in Hs |- *.
    destruct (set_add acc y) as [acc'| |]; cbn [bind] in Hs; try discriminate. now apply (IH ys').
Qed.
Lemma set_det_none (f : val -> result val) l : forall ix acc errs,
  (match oall (fun x => to_opt (f x)) l with Some ys => to_opt (set_of_list acc ys) = None | None => True end) \/ errs <> [] ->
  match set_det f l ix acc errs with Ok (_, e) => e <> [] | _ => True end.
Proof.
  induction l as [|x l IH]; intros ix acc errs H; cbn [set_det].
  - destruct H as [H|H]; [cbn in H; discriminate | exact H].
  - destruct (f x) as [y|e|] eqn:Ef; cbn [bind]; [| |exact I].
    + destruct (set_add acc y) as [acc'|e|] eqn:Ea; [| |exact I].
      * apply IH. destruct H as [H|H]; [|now right]. left. cbn [oall] in H. rewrite Ef in H. cbn [to_opt] in H.
        destruct (oall _ l) as [ys|]; [|exact I]. cbn [set_of_list] in H. rewrite Ea in H. exact H.
      * apply IH. right. destruct errs; discriminate.
    + apply IH. right. destruct errs; discriminate.
Qed.

Theorem set_coll_opt (f : val -> result val) l : to_opt (set_coll cfg f l) = oset (fun x => to_opt (f x)) l.
Proof.
  unfold set_coll, oset. destruct (c_dv cfg).
  - destruct (oall (fun x => to_opt (f x)) l) as [ys|] eqn:E.
    + destruct (set_of_list [] ys) as [s|e|] eqn:Es.
      * rewrite (set_det_some f l ys s 0%N [] [] E Es). reflexivity.
      * pose proof (set_det_none f l 0%N [] []) as H. rewrite E, Es in H. specialize (H (or_introl eq_refl)).
        destruct (set_det f l 0 [] []) as [[a e']| |]; cbn [bind fst snd to_opt]; try reflexivity. destruct e'; [contradiction | reflexivity].
      * pose proof (set_det_none f l 0%N [] []) as H. rewrite E, Es in H. specialize (H (or_introl eq_refl)).
        destruct (set_det f l 0 [] []) as [[a e']| |]; cbn [bind fst snd to_opt]; try reflexivity. destruct e'; [contradiction | reflexivity].
    + pose proof (set_det_none f l 0%N [] []) as H. rewrite E in H. specialize (H (or_introl I)).
      destruct (set_det f l 0 [] []) as [[a e']| |]; cbn [bind fst snd to_opt]; try reflexivity. destruct e'; [contradiction | reflexivity].
  - pose proof (coll_fast_opt f l) as H. destruct (coll_fast f l) as [ys| |]; cbn [to_opt bind] in H |- *; rewrite <- H; reflexivity.
Qed.

(* mappings *)
Definition opair (gk gv : val -> option val) (kv : val * val) : option (val * val) :=
  match gk (fst kv), gv (snd kv) with Some k, Some v => Some (k, v) | _, _ => None end.
Definition omap (gk gv : val -> option val) (kvs : list (val * val)) : option (list (val * val)) :=
  match oall (opair gk gv) kvs with Some ps => to_opt (dict_of_pairs [] ps) | None => None end.

Lemma map_fast_opt (fk fv : val -> result val) kvs : forall acc,
  to_opt (map_fast fk fv kvs acc) =
  match oall (opair (fun x => to_opt (fk x)) (fun x => to_opt (fv x))) kvs with Some ps => to_opt (dict_of_pairs acc ps) | None => None end.
Proof.
  induction kvs as [|[k v] kvs IH]; intros acc; [reflexivity|]. cbn [map_fast oall]. unfold opair at 1. cbn [fst snd].
  destruct (fk k) as [k'| |]; cbn [bind to_opt]; try reflexivity.
  destruct (fv v) as [v'| |]; cbn [bind to_opt]; try reflexivity.
  destruct (dict_put acc k' v') as [acc'|e|] eqn:Ep; cbn [bind].
  - rewrite IH. destruct (oall _ kvs); [|reflexivity]. cbn [dict_of_pairs]. rewrite Ep. reflexivity.
  - destruct (oall _ kvs); [|reflexivity]. cbn [dict_of_pairs]. rewrite Ep. reflexivity.
  - destruct (oall _ kvs); [|reflexivity]. cbn [dict_of_pairs]. rewrite Ep. reflexivity.
Qed.

Lemma map_det_some (fk fv : val -> result val) kvs : forall ps d acc errs,
  oall (opair (fun x => to_opt (fk x)) (fun x => to_opt (fv x))) kvs = Some ps -> dict_of_pairs acc ps = Ok d ->
  map_det fk fv kvs acc errs = Ok (d, errs).
Proof.
  induction kvs as [|[k v] kvs IH]; intros ps d acc errs H Hd; cbn [oall] in H; cbn [map_det].
  - inversion H; subst. cbn in Hd. now inversion Hd.
  - unfold opair at 1 in H. cbn [fst snd] in H.
    destruct (fk k) as [k'| |]; cbn [to_opt] in H; try discriminate.
    destruct (fv v) as [v'| |]; cbn [to_opt] in H; try discriminate.
    destruct (oall _ kvs) as [ps'|] eqn:E; [|discriminate]. inversion H; subst. cbn [dict_of_pairs bind] in Hd |- *.
    destruct (dict_put acc k' v') as [acc'| |]; cbn [bind] in Hd; try discriminate. now apply (IH ps').
Qed.
Lemma map_det_none (fk fv : val -> result val) kvs : forall acc errs,
  (match oall (opair (fun x => to_opt (fk x)) (fun x => to_opt (fv x))) kvs with Some ps => to_opt (dict_of_pairs acc ps) = None | None => True end) \/ errs <> [] ->
  match map_det fk fv kvs acc errs with Ok (_, e) => e <> [] | _ => True end.
Proof.
  induction kvs as [|[k v] kvs IH]; intros acc errs H; cbn [map_det].
  - destruct H as [H|H]; [cbn in H; discriminate | exact H].
  - destruct (fv v) as [v'|e|] eqn:Ev; [| |exact I].
    + destruct (fk k) as [k'|e|] eqn:Ek; cbn [bind]; [| |exact I].
      * destruct (dict_put acc k' v') as [acc'|e|] eqn:Ep; [| |exact I].
        -- apply IH. destruct H as [H|H]; [|now right]. left. cbn [oall] in H. unfold opair at 1 in H. cbn [fst snd] in H. rewrite Ek, Ev in H. cbn [to_opt] in H.
           destruct (oall _ kvs) as [ps|]; [|exact I]. cbn [dict_of_pairs] in H. rewrite Ep in H. exact H.
        -- apply IH. right. destruct errs; discriminate.
      * apply IH. right. destruct errs; discriminate.
    + apply IH. right. destruct errs; discriminate.
Qed.

Theorem map_coll_opt (fk fv : val -> result val) kvs :
  to_opt (map_coll cfg fk fv kvs) = omap (fun x => to_opt (fk x)) (fun x => to_opt (fv x)) kvs.
Proof.
  unfold map_coll, omap. destruct (c_dv cfg); [|apply map_fast_opt].
  destruct (oall _ kvs) as [ps|] eqn:E.
  - destruct (dict_of_pairs [] ps) as [d|e|] eqn:Ed.
    + rewrite (map_det_some fk fv kvs ps d [] [] E Ed). reflexivity.
    + pose proof (map_det_none fk fv kvs [] []) as H. rewrite E, Ed in H. specialize (H (or_introl eq_refl)).
      destruct (map_det fk fv kvs [] []) as [[a e']| |]; cbn [bind fst snd to_opt]; try reflexivity. destruct e'; [contradiction | reflexivity].
    + pose proof (map_det_none fk fv kvs [] []) as H. rewrite E, Ed in H. specialize (H (or_introl eq_refl)).
      destruct (map_det fk fv kvs [] []) as [[a e']| |]; cbn [bind fst snd to_opt]; try reflexivity. destruct e'; [contradiction | reflexivity].
  - pose proof (map_det_none fk fv kvs [] []) as H. rewrite E in H. specialize (H (or_introl I)).
    destruct (map_det fk fv kvs [] []) as [[a e']| |]; cbn [bind fst snd to_opt]; try reflexivity. destruct e'; [contradiction | reflexivity].
Qed.

(* heterogeneous tuples *)
Fixpoint ozip (g : ty -> val -> option val) (ts : list ty) (l : list val) : option (list val) :=
  match ts, l with
  | t :: ts', x :: l' => match g t x, ozip g ts' l' with Some y, Some ys => Some (y :: ys) | _, _ => None end
  | _, _ => Some []
  end.

Lemma zip_fast_opt (f : ty -> val -> result val) ts : forall l, to_opt (zip_fast f ts l) = ozip (fun t x => to_opt (f t x)) ts l.
Proof.
  induction ts as [|t ts IH]; intros l; [reflexivity|]. destruct l as [|x l]; [reflexivity|]. cbn [zip_fast ozip].
  destruct (f t x) as [y| |]; cbn [bind to_opt]; try reflexivity. rewrite <- IH. destruct (zip_fast f ts l); reflexivity.
Qed.
Lemma zip_det_some (f : ty -> val -> result val) ts : forall l ys ix acc errs,
  ozip (fun t x => to_opt (f t x)) ts l = Some ys -> zip_det f ts l ix acc errs = Ok (acc ++ ys, errs).
Proof.
  induction ts as [|t ts IH]; intros l ys ix acc errs H; cbn [ozip] in H; cbn [zip_det].
  - inversion H. now rewrite app_nil_r.
  - destruct l as [|x l]; [inversion H; now rewrite app_nil_r|].
    destruct (f t x) as [y| |]; cbn [to_opt] in H; try discriminate.
    destruct (ozip _ ts l) as [ys'|] eqn:E; [|discriminate]. inversion H; subst. rewrite (IH l ys') by exact E. now rewrite <- app_assoc.
Qed.
Lemma zip_det_none (f : ty -> val -> result val) ts : forall l ix acc errs,
  ozip (fun t x => to_opt (f t x)) ts l = None \/ errs <> [] ->
  match zip_det f ts l ix acc errs with Ok (_, e) => e <> [] | _ => True end.
Proof.
  induction ts as [|t ts IH]; intros l ix acc errs H; cbn [zip_det].
  - destruct H as [H|H]; [discriminate | exact H].
  - destruct l as [|x l]; [destruct H as [H|H]; [discriminate | exact H]|].
    destruct (f t x) as [y|e|] eqn:Ef; [| |exact I].
    + apply IH. destruct H as [H|H]; [|now right]. left. cbn [ozip] in H. rewrite Ef in H. cbn [to_opt] in H. destruct (ozip _ ts l); [discriminate | reflexivity].
    + apply IH. right. destruct errs; discriminate.
Qed.
End Loops.

Lemma forallb_ext_all {A} (f g : A -> bool) : (forall x, f x = g x) -> forall l, forallb f l = forallb g l.
Proof. intros H l. induction l as [|x l IH]; cbn; [reflexivity|]. now rewrite H, IH. Qed.

(* ---------------- handler extensionality of the class templates ---------------- *)
Section TplExt.
Variable V : Type.
Variable K : N -> V -> result V.
Variable opt : topts.
Variable ov : N -> fov.
Variable hs1 hs2 : N -> V -> result V.
Variable o : pobj V.
Variable fs : list (field V).
(* the two handler families agree, as far as acceptance and result go, on what the payload holds under each attribute's key *)
Hypothesis H_ext : forall f v, In f fs -> o_get o (key_of V opt ov f) = Ok v -> to_opt (hs1 (f_name f) v) = to_opt (hs2 (f_name f) v).

Lemma fetch_ext f : In f fs -> to_opt (fetch V opt ov hs1 o f) = to_opt (fetch V opt ov hs2 o f).
Proof. intros Hf. unfold fetch. destruct (o_get o (key_of V opt ov f)) as [v| |] eqn:E; cbn [bind]; try reflexivity. now apply H_ext. Qed.

Lemma good_ext' f : In f fs -> good V opt ov hs1 o f = good V opt ov hs2 o f.
Proof.
  intros Hf. unfold good. pose proof (fetch_ext f Hf) as H.
  assert (X : is_ok (fetch V opt ov hs1 o f) = is_ok (fetch V opt ov hs2 o f)).
  { destruct (fetch V opt ov hs1 o f), (fetch V opt ov hs2 o f); cbn in H |- *; congruence. }
  destruct (f_dflt f); [destruct (o_in o (key_of V opt ov f)) as [[|]| |]; auto | exact X].
Qed.
Lemma contrib_ext' f : In f fs -> contrib V opt ov hs1 o f = contrib V opt ov hs2 o f.
Proof.
  intros Hf. unfold contrib. pose proof (fetch_ext f Hf) as H.
  assert (X : match fetch V opt ov hs1 o f with Ok w => [(f_alias f, w)] | _ => [] end = match fetch V opt ov hs2 o f with Ok w => [(f_alias f, w)] | _ => [] end).
  { destruct (fetch V opt ov hs1 o f), (fetch V opt ov hs2 o f); cbn in H |- *; congruence. }
  destruct (f_dflt f); [destruct (o_in o (key_of V opt ov f)) as [[|]| |]; auto | exact X].
Qed.

Lemma forallb_ext_in {A} (f g : A -> bool) l : (forall x, In x l -> f x = g x) -> forallb f l = forallb g l.
Proof. induction l as [|x l IH]; cbn; intros H; [reflexivity|]. rewrite (H x) by now left. f_equal. apply IH. intros y Hy. apply H. now right. Qed.
Lemma flat_map_ext_in' {A B} (f g : A -> list B) l : (forall x, In x l -> f x = g x) -> flat_map f l = flat_map g l.
Proof. induction l as [|x l IH]; cbn; intros H; [reflexivity|]. rewrite (H x) by now left. f_equal. apply IH. intros y Hy. apply H. now right. Qed.

Lemma sub_in_fs (p : field V -> bool) (q : field V -> bool) f : In f (filter p (filter q fs)) -> In f fs.
Proof. intros H. apply filter_In in H. destruct H as [H _]. apply filter_In in H. tauto. Qed.

Theorem spec_struct_ext : spec_struct V K opt ov hs1 fs o = spec_struct V K opt ov hs2 fs o.
Proof.
  unfold spec_struct, inc_init, inc_pi.
  rewrite (forallb_ext_in (good V opt ov hs1 o) (good V opt ov hs2 o) (filter (@f_init V) (filter (included V opt ov) fs))) by (intros f Hf; apply good_ext'; eapply sub_in_fs; exact Hf).
  rewrite (flat_map_ext_in' (contrib V opt ov hs1 o) (contrib V opt ov hs2 o) (filter (@f_init V) (filter (included V opt ov) fs))) by (intros f Hf; apply contrib_ext'; eapply sub_in_fs; exact Hf).
  destruct (_ && _); [|reflexivity]. destruct (instantiate V K fs [] _); try reflexivity.
  rewrite (forallb_ext_in (good V opt ov hs1 o) (good V opt ov hs2 o) (filter (fun f => negb (f_init f)) (filter (included V opt ov) fs))) by (intros f Hf; apply good_ext'; eapply sub_in_fs; exact Hf).
  rewrite (flat_map_ext_in' (contrib_named V opt ov hs1 o) (contrib_named V opt ov hs2 o) (filter (fun f => negb (f_init f)) (filter (included V opt ov) fs))); [reflexivity|].
  intros f Hf. unfold contrib_named. rewrite (contrib_ext' f) by (eapply sub_in_fs; exact Hf). reflexivity.
Qed.
End TplExt.

Section InterpExt.
Variable V : Type.
Variable K : N -> V -> result V.
Variable hs1 hs2 : N -> V -> result V.
Variable o : pobj V.
Variable fs : list (field V).
Hypothesis H_ext : forall f v, In f fs -> o_get o (f_name f) = Ok v -> to_opt (hs1 (f_name f) v) = to_opt (hs2 (f_name f) v).

Theorem interp_dict_ext : to_opt (tpl_interp_dict V K hs1 fs o) = to_opt (tpl_interp_dict V K hs2 fs o).
Proof.
  unfold tpl_interp_dict.
  assert (L : forall l acc, (forall f, In f l -> In f fs) -> to_opt (interp_dict_loop V hs1 o l acc) = to_opt (interp_dict_loop V hs2 o l acc)).
  { induction l as [|f l IH]; intros acc Hl; [reflexivity|]. cbn [interp_dict_loop].
    assert (Hr : forall g, In g l -> In g fs) by (intros g Hg; apply Hl; now right).
    destruct (o_get o (f_name f)) as [v|e|] eqn:Eg; try reflexivity.
    - pose proof (H_ext f v (Hl f (or_introl eq_refl)) Eg) as H.
      destruct (hs1 (f_name f) v) as [w1| |], (hs2 (f_name f) v) as [w2| |]; cbn in H; try discriminate; cbn [bind]; try reflexivity.
      inversion H; subst. now apply IH.
    - destruct e; try reflexivity. now apply IH. }
  specialize (L fs [] (fun f H => H)).
  destruct (interp_dict_loop V hs1 o fs []) as [k1| |], (interp_dict_loop V hs2 o fs []) as [k2| |]; cbn in L; try discriminate; cbn [bind]; try reflexivity.
  now inversion L.
Qed.
End InterpExt.

(* ---------------- the nested theorem ---------------- *)
Section Agree.
Variable E : env.
Variable cfg1 cfg2 : ccfg.
Hypothesis T1 : c_tuple cfg1 = false.
Hypothesis T2 : c_tuple cfg2 = false.
Hypothesis F12 : c_forbid cfg1 = c_forbid cfg2.
(* BaseConverter has no forbid_extra_keys: when the two converters are of different classes the option is off *)
Hypothesis FB : c_gen cfg1 <> c_gen cfg2 -> c_forbid cfg1 = false.
Hypothesis R1 : c_recheck cfg1 = true.
Hypothesis R2 : c_recheck cfg2 = true.
Hypothesis K1 : c_kw_last cfg1 = true.
Hypothesis K2 : c_kw_last cfg2 = true.
Hypothesis H_env : forall c cd, e_class E c = Some cd ->
  wf val (topt cfg1 c) nov (cd_fields cd) /\ (forall f, In f (cd_fields cd) -> f_init f = true).

(* the inputs C06 speaks about: at every class position the walk reaches, the payload is a mapping
   (and the type is one both classes have a hook for: no Annotated) *)
Fixpoint shaped (n : nat) (t : ty) (o : val) {struct n} : Prop :=
  match n with
  | O => True
  | S n' =>
      match t with
      | TList t' | TTupleHom t' | TSet t' | TFrozenSet t' => forall l, iter_val E o = Ok l -> Forall (shaped n' t') l
      | TTuple ts => forall l, iter_val E o = Ok l ->
          (fix z (ts : list ty) (l : list val) : Prop :=
             match ts, l with t' :: ts', x :: l' => shaped n' t' x /\ z ts' l' | _, _ => True end) ts l
      | TDict kt vt => forall kvs, items_val o = Ok kvs -> Forall (fun kv => shaped n' kt (fst kv) /\ shaped n' vt (snd kv)) kvs
      | TOpt t' | TNewType _ t' => shaped n' t' o
      | TAnnot _ => False
      | TClass c => exists kvs, o = VDict kvs /\
                    forall cd, e_class E c = Some cd -> forall nm ft v,
                      assoc (cd_types cd) nm = Some ft -> assoc (nkeys kvs) nm = Some v -> shaped n' ft v
      | _ => True
      end
  end.

Notation s1 := (structure E cfg1).
Notation s2 := (structure E cfg2).

Lemma to_opt_bind {A B} (c : result A) (g : A -> B) : to_opt (do r <- c; Ok (g r)) = option_map g (to_opt c).
Proof. destruct c; reflexivity. Qed.

(* heterogeneous tuples: both orders of checking compute the same thing *)
Definition otuple (g : ty -> val -> option val) (ts : list ty) (o : val) : option val :=
  match iter_val E o, len_val E o with
  | Ok l, Ok len => if Nat.eqb len (length ts) then option_map VTuple (ozip g ts l) else None
  | _, _ => None
  end.

Lemma tuple_opt (cfg : ccfg) (f : ty -> val -> result val) ts o :
  to_opt (if c_dv cfg then
            do l <- iter_val E o;
            do re <- zip_det f ts l 0%N [] [];
            do len <- len_val E o;
            let errs := if Nat.eqb len (length ts) then snd re else snd re ++ [(None, EValue)] in
            match errs with [] => Ok (VTuple (fst re)) | _ => Err (EIterVal errs) end
          else
            do len <- len_val E o;
            if negb (Nat.eqb len (length ts)) then Err EValue
            else do l <- iter_val E o; do r <- zip_fast f ts l; Ok (VTuple r))
  = otuple (fun t x => to_opt (f t x)) ts o.
Proof.
  unfold otuple. destruct (c_dv cfg).
  - destruct (iter_val E o) as [l| |]; cbn [bind]; try reflexivity.
    destruct (ozip (fun t x => to_opt (f t x)) ts l) as [ys|] eqn:Ez.
    + rewrite (zip_det_some f ts l ys 0%N [] [] Ez). cbn [bind fst snd app].
      destruct (len_val E o) as [len| |]; cbn [bind]; try reflexivity. destruct (Nat.eqb len (length ts)); reflexivity.
    + pose proof (zip_det_none f ts l 0%N [] [] (or_introl Ez)) as H.
      destruct (zip_det f ts l 0 [] []) as [[a e]| |]; cbn [bind fst snd].
      * destruct (len_val E o) as [len| |]; cbn [bind]; try reflexivity.
        destruct (Nat.eqb len (length ts)); [destruct e; [contradiction | reflexivity]|].
        destruct (e ++ [(None, EValue)]) eqn:Ee; [apply app_eq_nil in Ee; destruct Ee; discriminate | reflexivity].
      * destruct (len_val E o) as [len| |]; [destruct (Nat.eqb len (length ts))|..]; reflexivity.
      * destruct (len_val E o) as [len| |]; [destruct (Nat.eqb len (length ts))|..]; reflexivity.
  - destruct (len_val E o) as [len| |]; cbn [bind].
    + destruct (Nat.eqb len (length ts)); cbn [negb].
      * destruct (iter_val E o) as [l| |]; cbn [bind]; try reflexivity. rewrite to_opt_bind, zip_fast_opt. reflexivity.
      * destruct (iter_val E o); reflexivity.
    + destruct (iter_val E o); reflexivity.
    + destruct (iter_val E o); reflexivity.
Qed.

Lemma ozip_ext (g h : ty -> val -> option val) ts : forall l,
  (fix z (ts : list ty) (l : list val) : Prop := match ts, l with t' :: ts', x :: l' => g t' x = h t' x /\ z ts' l' | _, _ => True end) ts l ->
  ozip g ts l = ozip h ts l.
Proof.
  induction ts as [|t ts IH]; intros l H; [reflexivity|]. destruct l as [|x l]; [reflexivity|]. cbn [ozip]. destruct H as [H1 H2]. rewrite H1, (IH l H2). reflexivity.
Qed.

(* generated hooks of such classes compute the specification, in either mode *)
Lemma gen_is_spec (cfg : ccfg) c cd hs o :
  c_recheck cfg = true -> c_kw_last cfg = true ->
  wf val (topt cfg c) nov (cd_fields cd) -> (forall f, In f (cd_fields cd) -> f_init f = true) ->
  to_opt (if c_dv cfg then tpl_detailed val noK (topt cfg c) nov hs (c_recheck cfg) (cd_fields cd) o
          else tpl_fast val noK (topt cfg c) nov hs (c_kw_last cfg) (cd_fields cd) o)
  = spec_struct val noK (topt cfg c) nov hs (cd_fields cd) o.
Proof.
  intros Hr Hk W Hi. rewrite Hr, Hk. destruct (c_dv cfg).
  - apply detailed_refines_spec.
  - unfold nov in *. apply (fast_is_spec val noK (topt cfg c) (cd_fields cd) W Hi).
Qed.

Lemma topt_eq c : topt cfg1 c = topt cfg2 c.
Proof. unfold topt. now rewrite F12. Qed.

(* the TypeError raised while building the message of ForbiddenExtraKeysError for a non-str key replaces one error by another *)
Lemma to_opt_adjust (b : bool) (r : result (inst val)) :
  to_opt (if b then match r with Err (EForbidden _ _) | Err (EClassVal _ _) => Err EType | _ => r end else r) = to_opt r.
Proof. destruct b; [|reflexivity]. destruct r as [x|e|]; try reflexivity. destruct e; reflexivity. Qed.

Theorem structure_agree : forall n t o, (c_gen cfg1 = c_gen cfg2 \/ shaped n t o) -> to_opt (s1 n t o) = to_opt (s2 n t o).
Proof.
  induction n as [|n IH]; intros t o Hs; [reflexivity|].
  assert (Hsub : forall t' x, (c_gen cfg1 = c_gen cfg2 \/ shaped n t' x) -> to_opt (s1 n t' x) = to_opt (s2 n t' x)) by (intros; now apply IH).
  destruct t; cbn [Conv.structure].
  - reflexivity.
  - reflexivity.
  - reflexivity.
  - reflexivity.
  - (* list *)
    destruct (iter_val E o) as [l| |] eqn:Ei; cbn [bind]; try reflexivity. destruct (is_any t); [reflexivity|].
    rewrite !to_opt_bind, !coll_opt. f_equal. apply oall_ext. intros x Hx. apply Hsub.
    destruct Hs as [Hs|Hs]; [now left | right]. cbn [shaped] in Hs. specialize (Hs l Ei). rewrite Forall_forall in Hs. now apply Hs.
  - (* homogeneous tuple *)
    destruct (iter_val E o) as [l| |] eqn:Ei; cbn [bind]; try reflexivity. destruct (is_any t); [reflexivity|].
    rewrite !to_opt_bind, !coll_opt. f_equal. apply oall_ext. intros x Hx. apply Hsub.
    destruct Hs as [Hs|Hs]; [now left | right]. cbn [shaped] in Hs. specialize (Hs l Ei). rewrite Forall_forall in Hs. now apply Hs.
  - (* heterogeneous tuple *)
    transitivity (otuple (fun t x => to_opt (s1 n t x)) ts o); [apply (tuple_opt cfg1 (s1 n) ts o)|].
    transitivity (otuple (fun t x => to_opt (s2 n t x)) ts o); [|symmetry; apply (tuple_opt cfg2 (s2 n) ts o)]. unfold otuple.
    destruct (iter_val E o) as [l| |] eqn:Ei; try reflexivity. destruct (len_val E o) as [len| |]; try reflexivity.
    destruct (Nat.eqb len (length ts)); [|reflexivity]. f_equal. apply ozip_ext.
    destruct Hs as [Hs|Hs].
    + clear -Hs Hsub. revert l. induction ts as [|t ts IHt]; intros l; [exact I|]. destruct l as [|x l]; [exact I|]. split; [apply Hsub; now left | apply IHt].
    + cbn [shaped] in Hs. specialize (Hs l Ei). clear -Hs Hsub. revert l Hs. induction ts as [|t ts IHt]; intros l Hs; [exact I|]. destruct l as [|x l]; [exact I|].
      destruct Hs as [H1 H2]. split; [apply Hsub; now right | now apply IHt].
  - (* set *)
    destruct (iter_val E o) as [l| |] eqn:Ei; cbn [bind]; try reflexivity. destruct (is_any t); [reflexivity|].
    rewrite !to_opt_bind, !set_coll_opt. unfold oset. f_equal.
    rewrite (oall_ext (fun x => to_opt (s1 n t x)) (fun x => to_opt (s2 n t x)) l); [reflexivity|]. intros x Hx. apply Hsub.
    destruct Hs as [Hs|Hs]; [now left | right]. cbn [shaped] in Hs. specialize (Hs l Ei). rewrite Forall_forall in Hs. now apply Hs.
  - (* frozenset *)
    destruct (iter_val E o) as [l| |] eqn:Ei; cbn [bind]; try reflexivity. destruct (is_any t); [reflexivity|].
    rewrite !to_opt_bind, !set_coll_opt. unfold oset. f_equal.
    rewrite (oall_ext (fun x => to_opt (s1 n t x)) (fun x => to_opt (s2 n t x)) l); [reflexivity|]. intros x Hx. apply Hsub.
    destruct Hs as [Hs|Hs]; [now left | right]. cbn [shaped] in Hs. specialize (Hs l Ei). rewrite Forall_forall in Hs. now apply Hs.
  - (* mapping *)
    destruct (is_any t1 && is_any t2); [reflexivity|].
    destruct (items_val o) as [kvs| |] eqn:Ei; cbn [bind]; try reflexivity.
    rewrite !to_opt_bind, !map_coll_opt. unfold omap. f_equal.
    rewrite (oall_ext (opair (fun x => to_opt (s1 n t1 x)) (fun x => to_opt (s1 n t2 x))) (opair (fun x => to_opt (s2 n t1 x)) (fun x => to_opt (s2 n t2 x))) kvs); [reflexivity|].
    intros kv Hkv. unfold opair.
    assert (Hk : (c_gen cfg1 = c_gen cfg2 \/ shaped n t1 (fst kv)) /\ (c_gen cfg1 = c_gen cfg2 \/ shaped n t2 (snd kv))).
    { destruct Hs as [Hs|Hs]; [split; now left|]. cbn [shaped] in Hs. specialize (Hs kvs Ei). rewrite Forall_forall in Hs. destruct (Hs kv Hkv). split; now right. }
    destruct Hk as [Hk1 Hk2]. rewrite (Hsub t1 (fst kv) Hk1), (Hsub t2 (snd kv) Hk2). reflexivity.
  - (* Optional *)
    assert (Ho : c_gen cfg1 = c_gen cfg2 \/ shaped n t o) by (destruct Hs as [Hs|Hs]; [now left | right; exact Hs]).
    destruct o; try (apply Hsub; exact Ho). reflexivity.
  - (* class *)
    destruct (e_class E c) as [cd|] eqn:Ec; [|reflexivity].
    destruct (H_env c cd Ec) as (W & Hi).
    rewrite T1, T2.
    set (h1 := fun fname v => match assoc (cd_types cd) fname with Some ft => s1 n ft v | None => Ok v end).
    set (h2 := fun fname v => match assoc (cd_types cd) fname with Some ft => s2 n ft v | None => Ok v end).
    rewrite !to_opt_bind. f_equal. rewrite !to_opt_adjust.
    assert (W2 : wf val (topt cfg2 c) nov (cd_fields cd)) by (rewrite <- topt_eq; exact W).
    assert (Hkey : forall f, key_of val (topt cfg1 c) nov f = f_name f) by (intros f; reflexivity).
    destruct Hs as [Hg|Hsh].
    + (* same class of converter: any payload object *)
      assert (Hext : forall nm v, to_opt (h1 nm v) = to_opt (h2 nm v)).
      { intros nm v. unfold h1, h2. destruct (assoc (cd_types cd) nm); [apply Hsub; now left | reflexivity]. }
      rewrite <- Hg. destruct (c_gen cfg1).
      * rewrite (gen_is_spec cfg1 c cd h1 _ R1 K1 W Hi), (gen_is_spec cfg2 c cd h2 _ R2 K2 W2 Hi). rewrite <- topt_eq.
        apply spec_struct_ext. intros f v _ _. apply Hext.
      * apply interp_dict_ext. intros f v _ _. apply Hext.
    + (* Converter against BaseConverter: the payload is a mapping *)
      cbn [shaped] in Hsh. destruct Hsh as (kvs & -> & Hf). specialize (Hf cd Ec). cbn [obj_of_val].
      assert (Hext : forall f v, In f (cd_fields cd) -> o_get (dict_obj (nkeys kvs)) (f_name f) = Ok v -> to_opt (h1 (f_name f) v) = to_opt (h2 (f_name f) v)).
      { intros f v _ Hg. cbn [dict_obj o_get] in Hg. destruct (assoc (nkeys kvs) (f_name f)) as [v'|] eqn:Ea; [|discriminate]. inversion Hg; subst v'.
        unfold h1, h2. destruct (assoc (cd_types cd) (f_name f)) as [ft|] eqn:Et; [|reflexivity]. apply Hsub. right. eapply Hf; eassumption. }
      assert (Hspec : spec_struct val noK (topt cfg1 c) nov h1 (cd_fields cd) (dict_obj (nkeys kvs)) = spec_struct val noK (topt cfg1 c) nov h2 (cd_fields cd) (dict_obj (nkeys kvs))).
      { apply spec_struct_ext. intros f v Hin Hg. rewrite Hkey in Hg. now apply Hext. }
      destruct (c_gen cfg1) eqn:G1, (c_gen cfg2) eqn:G2.
      * rewrite (gen_is_spec cfg1 c cd h1 _ R1 K1 W Hi), (gen_is_spec cfg2 c cd h2 _ R2 K2 W2 Hi). rewrite <- topt_eq. exact Hspec.
      * assert (Of : t_forbid (topt cfg1 c) = false) by (cbn; apply FB; discriminate).
        rewrite (gen_is_spec cfg1 c cd h1 _ R1 K1 W Hi). unfold nov in *.
        rewrite (interp_refines_spec val noK (topt cfg1 c) eq_refl Of h2 (cd_fields cd) W Hi (nkeys kvs)). exact Hspec.
      * assert (Of : t_forbid (topt cfg1 c) = false) by (cbn; apply FB; discriminate).
        rewrite (gen_is_spec cfg2 c cd h2 _ R2 K2 W2 Hi). rewrite <- topt_eq. unfold nov in *.
        rewrite (interp_refines_spec val noK (topt cfg1 c) eq_refl Of h1 (cd_fields cd) W Hi (nkeys kvs)). exact Hspec.
      * apply interp_dict_ext. exact Hext.
  - (* NewType *)
    apply Hsub. destruct Hs as [Hs|Hs]; [now left | right; exact Hs].
  - (* Annotated *)
    destruct Hs as [Hg|[]]. rewrite <- Hg. destruct (c_gen cfg1); [apply Hsub; now left | reflexivity].
Qed.

End Agree.
