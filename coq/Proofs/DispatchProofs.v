(* DispatchProofs.v -- Core A lemmas: caches are transparent (C08), lookup
   equals the documented precedence rule (C07).  Generic in the world W and in
   a dispatch configuration C subject to named boolean side-conditions, which
   Proofs/SrcObligations.v discharges for the configuration read off the source. *)
From V.Model Require Import Base Dispatch.
From Coq Require Import Lia.

Definition eff_eqb (a b : eff) : bool :=
  match a, b with EClearDirect, EClearDirect | ECacheClear, ECacheClear => true | _, _ => false end.
Definition has_eff (e : eff) (l : list eff) : bool := existsb (eff_eqb e) l.

Lemma apply_effs_fields : forall l s,
  single (apply_effs s l) = single s /\ preds (apply_effs s l) = preds s /\
  ureg (apply_effs s l) = ureg s /\ fallback (apply_effs s l) = fallback s /\
  direct (apply_effs s l) = (if has_eff EClearDirect l then [] else direct s) /\
  cache (apply_effs s l) = (if has_eff ECacheClear l then [] else cache s).
Proof.
  induction l as [|e l IH]; intros s; cbn [apply_effs fold_left has_eff existsb].
  - repeat split.
  - unfold apply_effs in IH. destruct (IH (apply_eff s e)) as (H1 & H2 & H3 & H4 & H5 & H6).
    rewrite H1, H2, H3, H4, H5, H6.
    unfold has_eff.
    destruct e; cbn; destruct (existsb (eff_eqb EClearDirect) l); destruct (existsb (eff_eqb ECacheClear) l);
      repeat split; reflexivity.
Qed.

Lemma has_eff_app e l1 l2 : has_eff e (l1 ++ l2) = has_eff e l1 || has_eff e l2.
Proof. unfold has_eff. apply existsb_app. Qed.

Lemma apply_effs_app s l1 l2 : apply_effs (apply_effs s l1) l2 = apply_effs s (l1 ++ l2).
Proof. unfold apply_effs. symmetry. apply fold_left_app. Qed.

Definition no_wother (hd : handler) : Prop :=
  match hd with
  | HdFact _ _ (WOther _) | HdInit _ (WOther _) => False
  | _ => True
  end.

Definition consistent (l : list (pred * handler)) : Prop :=
  forall p hd, In (p, hd) l -> no_wother hd.

Definition same_core (s s' : st) : Prop :=
  single s = single s' /\ preds s = preds s' /\ ureg s = ureg s' /\ fallback s = fallback s'.

Lemma same_core_refl s : same_core s s.
Proof. repeat split. Qed.
Lemma same_core_trans a b c : same_core a b -> same_core b c -> same_core a c.
Proof. unfold same_core; intuition congruence. Qed.
Lemma same_core_sym a b : same_core a b -> same_core b a.
Proof. unfold same_core; intuition congruence. Qed.

Lemma same_core_effs s l : same_core s (apply_effs s l).
Proof.
  destruct (apply_effs_fields l s) as (H1 & H2 & H3 & H4 & _).
  unfold same_core; rewrite H1, H2, H3, H4; repeat split.
Qed.

Section Generic.
Variable W : world.
Variable C : dcfg.

Definition strip (s : st) : st := set_cache (set_direct s []) [].
Definition spec (s : st) (t : ty) : hook := fst (dispatch_nc W C (strip s) t).

Lemma strip_core s s' : same_core s s' -> strip s = strip s'.
Proof.
  intros (H1 & H2 & H3 & H4). unfold strip, set_cache, set_direct; cbn.
  rewrite H1, H2, H3, H4. reflexivity.
Qed.

Lemma spec_core s s' t : same_core s s' -> spec s t = spec s' t.
Proof. intros H. unfold spec. rewrite (strip_core _ _ H). reflexivity. Qed.

Hypothesis H_order : lookup_order C = [TSingle; TDirect; TFunc].

Lemma accepts_ureg s s' p t : ureg s = ureg s' -> accepts W s p t = accepts W s' p t.
Proof. intros H. destruct p; cbn; try reflexivity. rewrite H. reflexivity. Qed.

Lemma func_find_ureg s s' l t : ureg s = ureg s' -> func_find W C s l t = func_find W C s' l t.
Proof.
  intros H. induction l as [|[p hd] l IH]; cbn; [reflexivity|].
  rewrite (accepts_ureg s s' p t H), IH. reflexivity.
Qed.

Lemma func_find_in s l t hd : func_find W C s l t = Some hd -> exists p, In (p, hd) l.
Proof.
  induction l as [|[p hd'] l IH]; cbn; [discriminate|].
  destruct (accepts W s p t) as [[|]|].
  - intros E; inversion E; subst. exists p. now left.
  - intros E. destruct (IH E) as [q Hq]. exists q. now right.
  - destruct (pred_exc_continues C); [|discriminate].
    intros E. destruct (IH E) as [q Hq]. exists q. now right.
Qed.

Lemma single_lookup_core s s' t : single s = single s' -> single_lookup W s t = single_lookup W s' t.
Proof. intros H. unfold single_lookup. rewrite H. reflexivity. Qed.

(* dispatch_without_caching, unfolded for the source's tier order *)
Definition func_tier (s : st) (t : ty) : hook * st :=
  match func_find W C s (preds s) t with
  | Some hd => match run_handler C s hd t with
               | Some x => x
               | None => (HFallback (fallback s) t, s)
               end
  | None => (HFallback (fallback s) t, s)
  end.

Lemma dispatch_nc_unfold s t :
  dispatch_nc W C s t =
  match single_lookup W s t with
  | Some h => (h, s)
  | None => match assoc (direct s) t with
            | Some h => (h, s)
            | None => func_tier s t
            end
  end.
Proof.
  unfold dispatch_nc. rewrite H_order. cbn [run_tiers run_tier]. unfold func_tier.
  destruct (single_lookup W s t); [reflexivity|].
  destruct (assoc (direct s) t); [reflexivity|].
  destruct (func_find W C s (preds s) t) as [hd|]; [|reflexivity].
  destruct (run_handler C s hd t); reflexivity.
Qed.

Lemma write_direct_fields s t h :
  let s' := write_direct C s t h in
  same_core s s' /\
  (direct s' = [] \/ direct s' = (t, h) :: direct s) /\
  (cache s' = [] \/ cache s' = cache s).
Proof.
  cbn. unfold write_direct. rewrite apply_effs_app.
  set (l := cls_reg_direct_each C ++ cls_reg_final C).
  destruct (apply_effs_fields l (set_direct s ((t, h) :: direct s))) as (H1 & H2 & H3 & H4 & H5 & H6).
  cbn in H1, H2, H3, H4, H5, H6.
  split; [unfold same_core; rewrite H1, H2, H3, H4; repeat split|].
  split.
  - rewrite H5. destruct (has_eff EClearDirect l); [now left | now right].
  - rewrite H6. destruct (has_eff ECacheClear l); [now left | now right].
Qed.

(* the hook a handler yields depends only on the registry *)
Lemma run_handler_spec s hd t :
  no_wother hd ->
  match run_handler C s hd t, run_handler C (strip s) hd t with
  | Some (h, s'), Some (h', _) =>
      h = h' /\ same_core s s' /\
      (direct s' = direct s \/ direct s' = [] \/ direct s' = (t, h) :: direct s) /\
      (cache s' = [] \/ cache s' = cache s)
  | None, None => True
  | _, _ => False
  end.
Proof.
  intros Hn. destruct hd as [h|f ext w|i w|]; cbn.
  - repeat split; auto using same_core_refl.
  - destruct w as [| |h']; cbn in Hn; try contradiction.
    + repeat split; auto using same_core_refl.
    + destruct (write_direct_fields s t (HMade f t ext)) as (Hc & Hd & Hk).
      split; [reflexivity|]. split; [exact Hc|]. split; [|exact Hk].
      destruct Hd as [Hd|Hd]; [right; now left | right; now right].
  - destruct w as [| |h']; cbn in Hn; try contradiction.
    + repeat split; auto using same_core_refl.
    + destruct (write_direct_fields s t (HInit i t)) as (Hc & Hd & Hk).
      split; [reflexivity|]. split; [exact Hc|]. split; [|exact Hk].
      destruct Hd as [Hd|Hd]; [right; now left | right; now right].
  - destruct (assoc (ureg s) t); [|exact I].
    repeat split; auto using same_core_refl.
Qed.

Lemma run_handler_fst s s' hd t : ureg s = ureg s' ->
  option_map fst (run_handler C s hd t) = option_map fst (run_handler C s' hd t).
Proof.
  intros H. destruct hd as [h|f ext w|i w|]; cbn; try reflexivity.
  rewrite H. destruct (assoc (ureg s') t); reflexivity.
Qed.

Lemma func_tier_fst s s' t :
  preds s = preds s' -> ureg s = ureg s' -> fallback s = fallback s' ->
  fst (func_tier s t) = fst (func_tier s' t).
Proof.
  intros Hp Hu Hf. unfold func_tier. rewrite Hp, (func_find_ureg s s' (preds s') t Hu), Hf.
  destruct (func_find W C s' (preds s') t) as [hd|]; [|reflexivity].
  pose proof (run_handler_fst s s' hd t Hu) as H.
  destruct (run_handler C s hd t) as [[h a]|], (run_handler C s' hd t) as [[h' a']|]; cbn in H; try discriminate.
  - inversion H. reflexivity.
  - reflexivity.
Qed.

Definition Inv (s : st) : Prop :=
  (forall t h, assoc (direct s) t = Some h -> single_lookup W s t = None -> spec s t = h) /\
  (forall t h, assoc (cache s) t = Some h -> spec s t = h).

Lemma spec_unfold s t :
  spec s t = match single_lookup W s t with
             | Some h => h
             | None => fst (func_tier (strip s) t)
             end.
Proof.
  unfold spec. rewrite dispatch_nc_unfold. cbn [direct strip set_cache set_direct assoc].
  rewrite (single_lookup_core (strip s) s t) by reflexivity.
  destruct (single_lookup W s t); reflexivity.
Qed.

(* the function tier, run on the real state, yields the spec hook and keeps the invariant *)
Lemma func_tier_ok s t :
  consistent (preds s) -> single_lookup W s t = None ->
  let '(h, s') := func_tier s t in
  h = spec s t /\ same_core s s' /\
  (direct s' = direct s \/ direct s' = [] \/ direct s' = (t, h) :: direct s) /\
  (cache s' = [] \/ cache s' = cache s).
Proof.
  intros Hc Hs. rewrite spec_unfold, Hs. unfold func_tier.
  cbn [preds strip set_cache set_direct fallback].
  rewrite (func_find_ureg (strip s) s (preds s) t) by reflexivity.
  destruct (func_find W C s (preds s) t) as [hd|] eqn:Ef.
  - destruct (func_find_in _ _ _ _ Ef) as [p Hin].
    pose proof (run_handler_spec s hd t (Hc _ _ Hin)) as Hr.
    destruct (run_handler C s hd t) as [[h s']|], (run_handler C (strip s) hd t) as [[h' s'']|];
      try contradiction; cbn.
    + destruct Hr as (E & Hcore & Hd & Hk). subst h'. repeat split; auto; apply Hcore.
    + repeat split; auto using same_core_refl.
  - cbn. repeat split; auto using same_core_refl.
Qed.

Lemma dispatch_nc_ok s t :
  Inv s -> consistent (preds s) ->
  fst (dispatch_nc W C s t) = spec s t /\
  same_core s (snd (dispatch_nc W C s t)) /\
  Inv (snd (dispatch_nc W C s t)) /\
  (cache (snd (dispatch_nc W C s t)) = [] \/ cache (snd (dispatch_nc W C s t)) = cache s).
Proof.
  intros [Hd Hk] Hc. rewrite dispatch_nc_unfold.
  destruct (single_lookup W s t) as [h|] eqn:Es.
  - cbn. rewrite spec_unfold, Es. repeat split; auto using same_core_refl.
  - destruct (assoc (direct s) t) as [h|] eqn:Ed.
    + cbn. rewrite (Hd t h Ed Es). repeat split; auto using same_core_refl.
    + pose proof (func_tier_ok s t Hc Es) as Hf.
      destruct (func_tier s t) as [h s'] eqn:Eft. cbn.
      destruct Hf as (Eh & Hcore & Hdir & Hcache).
      split; [exact Eh|]. split; [exact Hcore|]. split; [|exact Hcache].
      assert (Hsl : forall u, single_lookup W s' u = single_lookup W s u).
      { intros u. apply single_lookup_core. symmetry. apply Hcore. }
      split.
      * intros u hu Hu Hsu. rewrite <- (spec_core s s' u Hcore). rewrite Hsl in Hsu.
        destruct Hdir as [E|[E|E]]; rewrite E in Hu.
        -- now apply Hd.
        -- discriminate.
        -- cbn in Hu. destruct (N.eqb t u) eqn:Etu.
           ++ apply N.eqb_eq in Etu. subst u. inversion Hu. subst hu. symmetry. exact Eh.
           ++ now apply Hd.
      * intros u hu Hu. rewrite <- (spec_core s s' u Hcore).
        destruct Hcache as [E|E]; rewrite E in Hu; [discriminate | now apply Hk].
Qed.

Lemma dispatch_c_ok s t :
  Inv s -> consistent (preds s) ->
  fst (dispatch_c W C s t) = spec s t /\
  same_core s (snd (dispatch_c W C s t)) /\
  Inv (snd (dispatch_c W C s t)).
Proof.
  intros HI Hc. unfold dispatch_c.
  destruct (dispatch_nc_ok s t HI Hc) as (E1 & E2 & E3 & E4).
  destruct (cached C).
  - destruct (assoc (cache s) t) as [h|] eqn:Ek.
    + cbn. destruct HI as [Hd Hk]. rewrite (Hk t h Ek). repeat split; auto using same_core_refl.
    + destruct (dispatch_nc W C s t) as [h s'] eqn:Ed. cbn in *.
      split; [exact E1|]. split.
      * unfold same_core, set_cache; cbn. exact E2.
      * destruct E3 as [Hd' Hk']. split.
        -- intros u hu Hu Hsu. cbn in Hu.
           rewrite (spec_core _ s' u) by (unfold same_core, set_cache; cbn; repeat split).
           apply Hd'; [exact Hu|].
           rewrite <- Hsu. apply single_lookup_core. reflexivity.
        -- intros u hu Hu. cbn in Hu.
           rewrite (spec_core _ s' u) by (unfold same_core, set_cache; cbn; repeat split).
           destruct (N.eqb t u) eqn:Etu.
           ++ apply N.eqb_eq in Etu. subst u. inversion Hu. subst hu.
              rewrite <- (spec_core s s' t E2). symmetry. exact E1.
           ++ now apply Hk'.
  - split; [exact E1|split; [exact E2|exact E3]].
Qed.

(* ---- registrations ---- *)
Hypothesis H_func_cd : has_eff EClearDirect (func_reg_final C) = true.
Hypothesis H_func_cc : has_eff ECacheClear (func_reg_final C) = true.
Hypothesis H_cls_cc : has_eff ECacheClear (cls_reg_each C ++ cls_reg_final C) = true.

Definition good_op (o : op) : Prop :=
  match o with
  | ORegFunc _ hd => no_wother hd
  | ORegUnion _ _ effs => has_eff EClearDirect effs = true /\ has_eff ECacheClear effs = true
  | _ => True
  end.

Lemma inv_cleared s : direct s = [] -> cache s = [] -> Inv s.
Proof. intros E1 E2. split; intros t h; rewrite ?E1, ?E2; discriminate. Qed.

Lemma reg_func_fields s p hd :
  let s' := reg_func C s p hd in
  direct s' = [] /\ cache s' = [] /\ single s' = single s /\ ureg s' = ureg s /\ fallback s' = fallback s /\
  preds s' = (if insert_front C then (p, hd) :: preds s else preds s ++ [(p, hd)]).
Proof.
  cbn. unfold reg_func.
  match goal with |- context [apply_effs ?x ?l] => destruct (apply_effs_fields l x) as (H1 & H2 & H3 & H4 & H5 & H6) end.
  rewrite H1, H2, H3, H4, H5, H6, H_func_cd, H_func_cc. cbn. repeat split.
Qed.

Lemma reg_cls_fields s c h :
  let s' := reg_cls C s c h in
  cache s' = [] /\ single s' = (c, h) :: single s /\ ureg s' = ureg s /\ fallback s' = fallback s /\
  preds s' = preds s /\ (direct s' = [] \/ direct s' = direct s).
Proof.
  cbn. unfold reg_cls. rewrite apply_effs_app.
  match goal with |- context [apply_effs ?x ?l] => destruct (apply_effs_fields l x) as (H1 & H2 & H3 & H4 & H5 & H6) end.
  rewrite H1, H2, H3, H4, H5, H6, H_cls_cc. cbn. repeat split.
  destruct (has_eff EClearDirect (cls_reg_each C ++ cls_reg_final C)); [now left | now right].
Qed.

Lemma assoc_cons {A} (c x : N) (h : A) sg :
  assoc ((c, h) :: sg) x = if N.eqb c x then Some h else assoc sg x.
Proof. reflexivity. Qed.

Lemma first_some_cons_none {A} (c : N) (h : A) (sg : list (N * A)) (m : list N) :
  first_some (assoc ((c, h) :: sg)) m = None -> first_some (assoc sg) m = None /\ ~ In c m.
Proof.
  induction m as [|x m IH]; cbn [first_some]; [auto|].
  rewrite assoc_cons.
  destruct (N.eqb c x) eqn:E; [discriminate|].
  destruct (assoc sg x); [discriminate|].
  intros H. destruct (IH H) as [H1 H2]. split; [exact H1|].
  intros [Hx|Hx]; [subst; rewrite N.eqb_refl in E; discriminate | contradiction].
Qed.

Lemma first_some_cons_notin {A} (c : N) (h : A) (sg : list (N * A)) (m : list N) :
  ~ In c m -> first_some (assoc ((c, h) :: sg)) m = first_some (assoc sg) m.
Proof.
  induction m as [|x m IH]; cbn [first_some]; [auto|]. intros H.
  rewrite assoc_cons.
  destruct (N.eqb c x) eqn:E.
  - apply N.eqb_eq in E. subst. exfalso. apply H. now left.
  - rewrite IH by (intros Hx; apply H; now right). reflexivity.
Qed.

Lemma step_ok s o :
  Inv s -> consistent (preds s) -> good_op o ->
  Inv (step W C s o) /\ consistent (preds (step W C s o)).
Proof.
  intros HI Hc Hg. destruct o as [c h|p hd|t h effs| |t|t]; cbn [step].
  - (* ORegCls *)
    destruct (reg_cls_fields s c h) as (Hk & Hs & Hu & Hf & Hp & Hd). cbn in *.
    split; [|rewrite Hp; exact Hc].
    split; [|intros t h'; rewrite Hk; discriminate].
    intros t h' Hdt Hst.
    destruct Hd as [Hd|Hd]; rewrite Hd in Hdt; [discriminate|].
    unfold single_lookup in Hst. rewrite Hs in Hst.
    destruct (first_some_cons_none _ _ _ _ Hst) as [Hn Hnotin].
    destruct HI as [HId _]. rewrite <- (HId t h' Hdt Hn).
    rewrite !spec_unfold. unfold single_lookup. rewrite Hs, (first_some_cons_notin _ _ _ _ Hnotin), Hn.
    apply func_tier_fst; cbn; [exact Hp | exact Hu | exact Hf].
  - (* ORegFunc *)
    destruct (reg_func_fields s p hd) as (Hd & Hk & _ & _ & _ & Hp). cbn in *.
    split; [now apply inv_cleared|].
    rewrite Hp. intros q hq Hin. destruct (insert_front C).
    + destruct Hin as [E|Hin]; [inversion E; subst; exact Hg | exact (Hc _ _ Hin)].
    + apply in_app_or in Hin. destruct Hin as [Hin|[E|[]]]; [exact (Hc _ _ Hin) | inversion E; subst; exact Hg].
  - (* ORegUnion *)
    destruct Hg as [G1 G2].
    match goal with |- context [apply_effs ?x ?l] => destruct (apply_effs_fields l x) as (H1 & H2 & H3 & H4 & H5 & H6) end.
    rewrite G1 in H5. rewrite G2 in H6. split; [now apply inv_cleared|]. rewrite H2. exact Hc.
  - (* OClear *)
    pose proof (same_core_effs s (clear_cache_effs C)) as Hcore.
    destruct (apply_effs_fields (clear_cache_effs C) s) as (H1 & H2 & H3 & H4 & H5 & H6).
    split; [|rewrite H2; exact Hc].
    destruct HI as [HId HIk]. split.
    + intros t h Ht Hs. rewrite <- (spec_core s _ t Hcore). rewrite H5 in Ht.
      destruct (has_eff EClearDirect (clear_cache_effs C)); [discriminate|].
      apply HId; [exact Ht|]. rewrite <- Hs. apply single_lookup_core. symmetry. exact H1.
    + intros t h Ht. rewrite <- (spec_core s _ t Hcore). rewrite H6 in Ht.
      destruct (has_eff ECacheClear (clear_cache_effs C)); [discriminate|]. now apply HIk.
  - destruct (dispatch_c_ok s t HI Hc) as (_ & Hcore & HI'). split; [exact HI'|].
    destruct Hcore as (_ & Hp & _). rewrite <- Hp. exact Hc.
  - destruct (dispatch_nc_ok s t HI Hc) as (_ & Hcore & HI' & _). split; [exact HI'|].
    destruct Hcore as (_ & Hp & _). rewrite <- Hp. exact Hc.
Qed.

Lemma run_ok ops : forall s,
  Inv s -> consistent (preds s) -> Forall good_op ops ->
  Inv (run W C s ops) /\ consistent (preds (run W C s ops)).
Proof.
  induction ops as [|o ops IH]; intros s HI Hc Hg; cbn; [auto|].
  inversion Hg as [|? ? Ho Hr]; subst.
  destruct (step_ok s o HI Hc Ho) as [HI' Hc']. now apply IH.
Qed.

(* the registration content evolves independently of the caches *)
Lemma step_core s s' o : same_core s s' ->
  Inv s -> consistent (preds s) -> Inv s' -> consistent (preds s') ->
  same_core (step W C s o) (if is_reg o then step W C s' o else s').
Proof.
  intros Hcore HI Hc HI' Hc'. destruct o as [c h|p hd|t h effs| |t|t]; cbn [is_reg step].
  - destruct (reg_cls_fields s c h) as (_ & Hs & Hu & Hf & Hp & _).
    destruct (reg_cls_fields s' c h) as (_ & Hs' & Hu' & Hf' & Hp' & _).
    destruct Hcore as (A & B & D & E). cbn in *. unfold same_core.
    rewrite Hs, Hs', Hu, Hu', Hf, Hf', Hp, Hp', A, B, D, E. repeat split.
  - destruct (reg_func_fields s p hd) as (_ & _ & Hs & Hu & Hf & Hp).
    destruct (reg_func_fields s' p hd) as (_ & _ & Hs' & Hu' & Hf' & Hp').
    destruct Hcore as (A & B & D & E). cbn in *. unfold same_core.
    rewrite Hs, Hs', Hu, Hu', Hf, Hf', Hp, Hp', A, B, D, E. repeat split.
  - eapply same_core_trans; [apply same_core_sym, same_core_effs|].
    eapply same_core_trans; [|apply same_core_effs].
    destruct Hcore as (A & B & D & E). unfold same_core, set_ureg; cbn. rewrite A, B, D, E. repeat split.
  - eapply same_core_trans; [apply same_core_sym, same_core_effs | exact Hcore].
  - destruct (dispatch_c_ok s t HI Hc) as (_ & H & _).
    eapply same_core_trans; [apply same_core_sym; exact H | exact Hcore].
  - destruct (dispatch_nc_ok s t HI Hc) as (_ & H & _).
    eapply same_core_trans; [apply same_core_sym; exact H | exact Hcore].
Qed.

Lemma good_filter ops : Forall good_op ops -> Forall good_op (filter is_reg ops).
Proof.
  induction 1 as [|o ops Ho Hr IH]; cbn; [constructor|].
  destruct (is_reg o); [constructor; assumption | assumption].
Qed.

Lemma run_core ops : forall s s',
  same_core s s' -> Inv s -> consistent (preds s) -> Inv s' -> consistent (preds s') ->
  Forall good_op ops ->
  same_core (run W C s ops) (run W C s' (filter is_reg ops)).
Proof.
  induction ops as [|o ops IH]; intros s s' Hcore HI Hc HI' Hc' Hg; cbn; [exact Hcore|].
  inversion Hg as [|? ? Ho Hr]; subst.
  pose proof (step_core s s' o Hcore HI Hc HI' Hc') as Hstep.
  destruct (step_ok s o HI Hc Ho) as [HIs Hcs].
  destruct (is_reg o) eqn:Er; cbn.
  - destruct (step_ok s' o HI' Hc' Ho) as [HIs' Hcs']. now apply IH.
  - now apply IH.
Qed.

(* C08: interleaved cached/uncached lookups never change a later answer *)
Theorem cache_transparent s0 ops t :
  Inv s0 -> consistent (preds s0) -> Forall good_op ops ->
  fst (dispatch_c W C (run W C s0 ops) t) = fst (dispatch_c W C (run W C s0 (filter is_reg ops)) t).
Proof.
  intros HI Hc Hg.
  destruct (run_ok ops s0 HI Hc Hg) as [HI1 Hc1].
  destruct (run_ok (filter is_reg ops) s0 HI Hc (good_filter ops Hg)) as [HI2 Hc2].
  destruct (dispatch_c_ok _ t HI1 Hc1) as (E1 & _).
  destruct (dispatch_c_ok _ t HI2 Hc2) as (E2 & _).
  rewrite E1, E2. apply spec_core.
  apply run_core; auto using same_core_refl.
Qed.

Theorem cache_transparent_nc s0 ops t :
  Inv s0 -> consistent (preds s0) -> Forall good_op ops ->
  fst (dispatch_nc W C (run W C s0 ops) t) = fst (dispatch_nc W C (run W C s0 (filter is_reg ops)) t).
Proof.
  intros HI Hc Hg.
  destruct (run_ok ops s0 HI Hc Hg) as [HI1 Hc1].
  destruct (run_ok (filter is_reg ops) s0 HI Hc (good_filter ops Hg)) as [HI2 Hc2].
  destruct (dispatch_nc_ok _ t HI1 Hc1) as (E1 & _).
  destruct (dispatch_nc_ok _ t HI2 Hc2) as (E2 & _).
  rewrite E1, E2. apply spec_core.
  apply run_core; auto using same_core_refl.
Qed.

(* every lookup on a reachable state is the cache-free specification *)
Theorem lookup_is_spec s0 ops t :
  Inv s0 -> consistent (preds s0) -> Forall good_op ops ->
  fst (dispatch_c W C (run W C s0 ops) t) = spec (run W C s0 ops) t.
Proof.
  intros HI Hc Hg. destruct (run_ok ops s0 HI Hc Hg) as [HI1 Hc1].
  now destruct (dispatch_c_ok _ t HI1 Hc1).
Qed.

(* ---- C07: the lookup is the documented precedence rule ---- *)
Hypothesis H_front : insert_front C = true.
Hypothesis H_exc : pred_exc_continues C = true.

Fixpoint cls_regs (h : list op) : list (cls * hook) :=
  match h with
  | [] => []
  | o :: r => cls_regs r ++ match o with ORegCls c hk => [(c, hk)] | _ => [] end
  end.
Fixpoint func_regs (h : list op) : list (pred * handler) :=
  match h with
  | [] => []
  | o :: r => func_regs r ++ match o with ORegFunc p hd => [(p, hd)] | _ => [] end
  end.
Fixpoint union_regs (h : list op) : list (ty * hook) :=
  match h with
  | [] => []
  | o :: r => union_regs r ++ match o with ORegUnion t hk _ => [(t, hk)] | _ => [] end
  end.

Lemma run_reg_core h : forall s,
  forallb is_reg h = true ->
  single (run W C s h) = cls_regs h ++ single s /\
  preds (run W C s h) = func_regs h ++ preds s /\
  ureg (run W C s h) = union_regs h ++ ureg s /\
  fallback (run W C s h) = fallback s.
Proof.
  induction h as [|o r IH]; intros s Hr; cbn [run fold_left cls_regs func_regs union_regs]; [repeat split|].
  cbn in Hr. apply andb_true_iff in Hr. destruct Hr as [Ho Hr].
  destruct (IH (step W C s o) Hr) as (H1 & H2 & H3 & H4). unfold run in *.
  rewrite H1, H2, H3, H4. rewrite <- !app_assoc.
  destruct o as [c hk|p hd|t hk effs| |t|t]; cbn in Ho; try discriminate; cbn [step].
  - destruct (reg_cls_fields s c hk) as (_ & Hs & Hu & Hf & Hp & _). cbn in *.
    rewrite Hs, Hu, Hf, Hp. repeat split.
  - destruct (reg_func_fields s p hd) as (_ & _ & Hs & Hu & Hf & Hp). cbn in *.
    rewrite Hs, Hu, Hf, Hp, H_front. repeat split.
  - match goal with |- context [apply_effs ?x ?l] => destruct (apply_effs_fields l x) as (G1 & G2 & G3 & G4 & _) end.
    rewrite G1, G2, G3, G4. cbn. repeat split.
Qed.

Lemma func_find_app s l1 l2 t :
  func_find W C s (l1 ++ l2) t =
  match func_find W C s l1 t with Some hd => Some hd | None => func_find W C s l2 t end.
Proof.
  induction l1 as [|[p hd] l1 IH]; cbn; [reflexivity|].
  destruct (accepts W s p t) as [[|]|]; [reflexivity | exact IH | rewrite H_exc; exact IH].
Qed.

(* the hook a handler stands for *)
Definition hook_of (ur : list (ty * hook)) (fb : tag) (hd : handler) (t : ty) : hook :=
  match hd with
  | HdHook h => h
  | HdFact f ext _ => HMade f t ext
  | HdInit i _ => HInit i t
  | HdUnionReg => match assoc ur t with Some h => h | None => HFallback fb t end
  end.

(* The documented rule, over a registration history h applied to a converter
   born in state s0:
   1. the most specific class of t's MRO that has a registration (latest one wins),
   2. else the most recently registered predicate / factory / exact-type entry accepting t,
   3. else what the converter was born with,
   4. else the fallback factory. *)
Definition doc_choice (s0 : st) (h : list op) (t : ty) : hook :=
  let ur := union_regs h ++ ureg s0 in
  let sU := set_ureg s0 ur in
  match first_some (assoc (cls_regs h ++ single s0)) (w_mro W t) with
  | Some hk => hk
  | None =>
      match func_find W C sU (func_regs h) t with
      | Some hd => hook_of ur (fallback s0) hd t
      | None =>
          match func_find W C sU (preds s0) t with
          | Some hd => hook_of ur (fallback s0) hd t
          | None => HFallback (fallback s0) t
          end
      end
  end.

Lemma func_tier_hook s t :
  fst (func_tier s t) =
  match func_find W C s (preds s) t with
  | Some hd => hook_of (ureg s) (fallback s) hd t
  | None => HFallback (fallback s) t
  end.
Proof.
  unfold func_tier. destruct (func_find W C s (preds s) t) as [hd|]; [|reflexivity].
  destruct hd as [h|f ext w|i w|]; cbn; try reflexivity.
  destruct (assoc (ureg s) t); reflexivity.
Qed.

Theorem spec_is_doc_choice s0 h t :
  forallb is_reg h = true ->
  spec (run W C s0 h) t = doc_choice s0 h t.
Proof.
  intros Hr. destruct (run_reg_core h s0 Hr) as (H1 & H2 & H3 & H4).
  rewrite spec_unfold. unfold single_lookup, doc_choice. rewrite H1.
  destruct (first_some (assoc (cls_regs h ++ single s0)) (w_mro W t)); [reflexivity|].
  rewrite func_tier_hook. cbn [preds strip set_cache set_direct ureg fallback].
  rewrite H2, H3, H4, func_find_app.
  rewrite (func_find_ureg (strip (run W C s0 h)) (set_ureg s0 (union_regs h ++ ureg s0)) (func_regs h) t) by (cbn; exact H3).
  rewrite (func_find_ureg (strip (run W C s0 h)) (set_ureg s0 (union_regs h ++ ureg s0)) (preds s0) t) by (cbn; exact H3).
  destruct (func_find W C (set_ureg s0 (union_regs h ++ ureg s0)) (func_regs h) t); reflexivity.
Qed.

Lemma filter_is_reg_all ops : forallb is_reg (filter is_reg ops) = true.
Proof. induction ops as [|o r IH]; cbn; [reflexivity|]. destruct (is_reg o) eqn:E; cbn; rewrite ?E; exact IH. Qed.

(* C07 for arbitrary operation sequences (registrations interleaved with lookups) *)
Theorem lookup_is_doc_choice s0 ops t :
  Inv s0 -> consistent (preds s0) -> Forall good_op ops ->
  fst (dispatch_c W C (run W C s0 ops) t) = doc_choice s0 (filter is_reg ops) t.
Proof.
  intros HI Hc Hg. rewrite cache_transparent by assumption.
  rewrite lookup_is_spec by (auto using good_filter).
  apply spec_is_doc_choice, filter_is_reg_all.
Qed.

(* registering a hook for one exact type (a union, a NewType) leaves every other type alone *)
Theorem reg_exact_leaves_others s u hd t :
  t <> u -> spec (reg_func C s (PExact u) hd) t = spec s t.
Proof.
  intros Hne. destruct (reg_func_fields s (PExact u) hd) as (_ & _ & Hs & Hu & Hf & Hp). cbn in *.
  rewrite !spec_unfold. unfold single_lookup. rewrite Hs.
  destruct (first_some (assoc (single s)) (w_mro W t)); [reflexivity|].
  rewrite !func_tier_hook. cbn [preds strip set_cache set_direct ureg fallback].
  rewrite Hp, H_front, Hu, Hf. cbn [func_find accepts].
  assert (E : N.eqb u t = false) by (apply N.eqb_neq; congruence). rewrite E.
  rewrite (func_find_ureg (strip (reg_func C s (PExact u) hd)) (strip s) (preds s) t) by (cbn; exact Hu).
  reflexivity.
Qed.

Lemma copy_to_core s s' other k : same_core s s' -> copy_to C s other k = copy_to C s' other k.
Proof. intros (H1 & H2 & _). unfold copy_to. rewrite H1, H2. reflexivity. Qed.

(* ---- C18: copy_to = replay of the user registrations on the target ---- *)
Hypothesis H_copy_suffix : copy_drops_suffix C = true.
Hypothesis H_copy_single : copy_copies_single C = true.
Hypothesis H_copy_cd : has_eff EClearDirect (copy_final C) = true.
Hypothesis H_copy_cc : has_eff ECacheClear (copy_final C) = true.

Definition lookup_equiv (a b : st) : Prop :=
  (forall k, assoc (single a) k = assoc (single b) k) /\
  preds a = preds b /\ ureg a = ureg b /\ fallback a = fallback b.

Lemma first_some_ext {A B} (f g : A -> option B) l : (forall x, f x = g x) -> first_some f l = first_some g l.
Proof. intros H. induction l as [|x l IH]; cbn; [reflexivity|]. rewrite H, IH. reflexivity. Qed.

Lemma spec_lookup_equiv a b t : lookup_equiv a b -> spec a t = spec b t.
Proof.
  intros (Hs & Hp & Hu & Hf). rewrite !spec_unfold. unfold single_lookup.
  rewrite (first_some_ext (assoc (single a)) (assoc (single b)) (w_mro W t) Hs).
  destruct (first_some (assoc (single b)) (w_mro W t)); [reflexivity|].
  apply func_tier_fst; cbn; assumption.
Qed.

Lemma assoc_app {A} (x y : list (N * A)) k :
  assoc (x ++ y) k = match assoc x k with Some v => Some v | None => assoc y k end.
Proof.
  induction x as [|[k' v] x IH]; cbn; [reflexivity|]. destruct (N.eqb k' k); [reflexivity | exact IH].
Qed.

Lemma no_union_regs h : forallb (fun o => match o with ORegUnion _ _ _ => false | _ => true end) h = true -> union_regs h = [].
Proof.
  induction h as [|o h IH]; cbn; [reflexivity|]. intros H. apply andb_true_iff in H. destruct H as [Ho Hh].
  rewrite (IH Hh). destruct o; try reflexivity. discriminate.
Qed.

Lemma copy_to_fields s other k : k <> 0%nat ->
  let r := copy_to C s other k in
  preds r = firstn (length (preds s) - k) (preds s) ++ preds other /\
  single r = single s ++ single other /\ ureg r = ureg other /\ fallback r = fallback other /\
  direct r = [] /\ cache r = [].
Proof.
  intros Hk. cbn. unfold copy_to. rewrite H_copy_suffix, H_copy_single.
  match goal with |- context [apply_effs ?x ?l] => destruct (apply_effs_fields l x) as (E1 & E2 & E3 & E4 & E5 & E6) end.
  rewrite E1, E2, E3, E4, E5, E6, H_copy_cd, H_copy_cc.
  destruct k; [contradiction|]. cbn. repeat split.
Qed.

Theorem copy_to_is_replay s0 other h t :
  forallb is_reg h = true ->
  forallb (fun o => match o with ORegUnion _ _ _ => false | _ => true end) h = true ->
  preds s0 <> [] -> single s0 = single other -> ureg s0 = [] -> ureg other = [] ->
  let r := copy_to C (run W C s0 h) other (length (preds s0)) in
  direct r = [] /\ cache r = [] /\ preds r = preds (run W C other h) /\ spec r t = spec (run W C other h) t.
Proof.
  intros Hr Hn Hne Hsg Hu0 Huo r.
  destruct (run_reg_core h s0 Hr) as (H1 & H2 & H3 & H4).
  destruct (run_reg_core h other Hr) as (G1 & G2 & G3 & G4).
  assert (Hlen : length (preds s0) <> 0%nat) by (destruct (preds s0); [contradiction | cbn; lia]).
  destruct (copy_to_fields (run W C s0 h) other (length (preds s0)) Hlen) as (F1 & F2 & F3 & F4 & F5 & F6).
  fold r in F1, F2, F3, F4, F5, F6.
  assert (Hp : preds r = func_regs h ++ preds other).
  { rewrite F1, H2, app_length, Nat.add_sub, firstn_app, firstn_all, Nat.sub_diag. cbn. rewrite app_nil_r. reflexivity. }
  split; [exact F5|]. split; [exact F6|]. split; [rewrite Hp, G2; reflexivity|].
  apply spec_lookup_equiv. unfold lookup_equiv.
  rewrite Hp, F2, F3, F4, G1, G2, G3, G4, H1, (no_union_regs h Hn). cbn.
  repeat split; auto.
  intros k. rewrite Hsg, !assoc_app. destruct (assoc (cls_regs h) k); [reflexivity|].
  destruct (assoc (single other) k); reflexivity.
Qed.

End Generic.
