(* TemplatesProofs.v -- class-level templates: both generated structure templates
   refine one order-free specification (accept iff every handled attribute is
   "good", the forbid check passes, __init__ accepts and the post-instantiation
   attributes are good), hence agree with each other (C04) and obey the
   forbid_extra_keys contract (C10). *)
From V.Model Require Import Base Templates.
From Coq Require Import Lia Permutation.

Section TP.
Variable V : Type.
Variable K : N -> V -> result V.
Variable opt : topts.
Variable ov : N -> fov.
Variable hs : N -> V -> result V.

Notation field := (field V).
Notation pobj := (pobj V).
Notation fetch := (fetch V opt ov hs).
Notation key_of := (key_of V opt ov).
Notation included := (included V opt ov).
Notation instantiate := (instantiate V K).

(* what one attribute contributes, independent of evaluation order *)
Definition good (o : pobj) (f : field) : bool :=
  match f_dflt f with
  | None => is_ok (fetch o f)
  | Some _ => match o_in o (key_of f) with
              | Ok true => is_ok (fetch o f)
              | Ok false => true
              | _ => false
              end
  end.

Definition contrib (o : pobj) (f : field) : list (N * V) :=
  match f_dflt f with
  | None => match fetch o f with Ok w => [(f_alias f, w)] | _ => [] end
  | Some _ => match o_in o (key_of f) with
              | Ok true => match fetch o f with Ok w => [(f_alias f, w)] | _ => [] end
              | _ => []
              end
  end.

Definition contrib_named (o : pobj) (f : field) : list (N * V) :=
  map (fun kv => (f_name f, snd kv)) (contrib o f).

(* ---- detailed loop ---- *)
Lemma det_loop_good o fs : forall res errs,
  forallb (good o) fs = true ->
  det_loop V opt ov hs o fs res errs = Ok (res ++ flat_map (contrib o) fs, errs).
Proof.
  induction fs as [|f fs IH]; intros res errs H; cbn [det_loop flat_map].
  - now rewrite app_nil_r.
  - cbn in H. apply andb_true_iff in H. destruct H as [Hf Hr].
    unfold good, contrib in *. destruct (f_dflt f) as [d|].
    + destruct (o_in o (key_of f)) as [[|]| |]; try discriminate; cbn [bind].
      * destruct (fetch o f) as [w| |]; try discriminate. rewrite IH by assumption. now rewrite <- app_assoc.
      * now rewrite IH.
    + destruct (fetch o f) as [w| |]; try discriminate. rewrite IH by assumption. now rewrite <- app_assoc.
Qed.

Lemma det_loop_errs_mono o fs : forall res errs r e,
  det_loop V opt ov hs o fs res errs = Ok (r, e) -> errs <> [] -> e <> [].
Proof.
  induction fs as [|f fs IH]; intros res errs r e H Hne; cbn [det_loop] in H.
  - inversion H; subst; assumption.
  - assert (Hatt : match fetch o f with
                   | Ok w => det_loop V opt ov hs o fs (res ++ [(f_alias f, w)]) errs
                   | Err e0 => det_loop V opt ov hs o fs res (errs ++ [(Some (f_name f), e0)])
                   | OutOfFuel => OutOfFuel end = Ok (r, e) -> e <> []).
    { destruct (fetch o f) as [w|e0|]; intros X; try discriminate.
      - eapply IH; eassumption.
      - eapply IH; [eassumption|]. intros Y. apply app_eq_nil in Y. destruct Y; contradiction. }
    destruct (f_dflt f).
    + destruct (o_in o (key_of f)) as [[|]| |]; cbn [bind] in H; try discriminate; auto.
      eapply IH; eassumption.
    + auto.
Qed.

Lemma det_loop_bad o fs : forall res errs r e,
  forallb (good o) fs = false ->
  det_loop V opt ov hs o fs res errs = Ok (r, e) -> e <> [].
Proof.
  induction fs as [|f fs IH]; intros res errs r e H Hd; cbn in H; [discriminate|].
  cbn [det_loop] in Hd. apply andb_false_iff in H.
  unfold good in H. destruct (f_dflt f) as [d|].
  - destruct (o_in o (key_of f)) as [[|]| |]; cbn [bind] in Hd; try discriminate.
    + destruct (fetch o f) as [w|e0|]; try discriminate.
      * destruct H as [H|H]; [discriminate|]. eapply IH; eassumption.
      * eapply det_loop_errs_mono; [eassumption|]. intros Y. apply app_eq_nil in Y. destruct Y; discriminate.
    + destruct H as [H|H]; [discriminate|]. eapply IH; eassumption.
  - destruct (fetch o f) as [w|e0|]; try discriminate.
    + destruct H as [H|H]; [discriminate|]. eapply IH; eassumption.
    + eapply det_loop_errs_mono; [eassumption|]. intros Y. apply app_eq_nil in Y. destruct Y; discriminate.
Qed.

(* ---- detailed post-instantiation loop ---- *)
Fixpoint set_all (i : inst V) (l : list (N * V)) : inst V :=
  match l with [] => i | (n, v) :: r => set_all (inst_set V i n v) r end.

Lemma det_pi_good o fs : forall i errs,
  forallb (good o) fs = true ->
  det_pi V opt ov hs o fs i errs = Ok (set_all i (flat_map (contrib_named o) fs), errs).
Proof.
  induction fs as [|f fs IH]; intros i errs H; cbn [det_pi flat_map set_all]; [reflexivity|].
  cbn in H. apply andb_true_iff in H. destruct H as [Hf Hr].
  unfold good, contrib_named, contrib in *. destruct (f_dflt f) as [d|].
  - destruct (o_in o (key_of f)) as [[|]| |]; try discriminate; cbn [bind].
    + destruct (fetch o f) as [w| |]; try discriminate. cbn. now rewrite IH.
    + cbn. now rewrite IH.
  - destruct (fetch o f) as [w| |]; try discriminate. cbn. now rewrite IH.
Qed.

Lemma det_pi_errs_mono o fs : forall i errs r e,
  det_pi V opt ov hs o fs i errs = Ok (r, e) -> errs <> [] -> e <> [].
Proof.
  induction fs as [|f fs IH]; intros i errs r e H Hne; cbn [det_pi] in H.
  - inversion H; subst; assumption.
  - assert (Hatt : match fetch o f with
                   | Ok w => det_pi V opt ov hs o fs (inst_set V i (f_name f) w) errs
                   | Err e0 => det_pi V opt ov hs o fs i (errs ++ [(Some (f_name f), e0)])
                   | OutOfFuel => OutOfFuel end = Ok (r, e) -> e <> []).
    { destruct (fetch o f) as [w|e0|]; intros X; try discriminate.
      - eapply IH; eassumption.
      - eapply IH; [eassumption|]. intros Y. apply app_eq_nil in Y. destruct Y; contradiction. }
    destruct (f_dflt f).
    + destruct (o_in o (key_of f)) as [[|]| |]; cbn [bind] in H; try discriminate; auto.
      eapply IH; eassumption.
    + auto.
Qed.

Lemma det_pi_bad o fs : forall i errs r e,
  forallb (good o) fs = false ->
  det_pi V opt ov hs o fs i errs = Ok (r, e) -> e <> [].
Proof.
  induction fs as [|f fs IH]; intros i errs r e H Hd; cbn in H; [discriminate|].
  cbn [det_pi] in Hd. apply andb_false_iff in H.
  unfold good in H. destruct (f_dflt f) as [d|].
  - destruct (o_in o (key_of f)) as [[|]| |]; cbn [bind] in Hd; try discriminate.
    + destruct (fetch o f) as [w|e0|]; try discriminate.
      * destruct H as [H|H]; [discriminate|]. eapply IH; eassumption.
      * eapply det_pi_errs_mono; [eassumption|]. intros Y. apply app_eq_nil in Y. destruct Y; discriminate.
    + destruct H as [H|H]; [discriminate|]. eapply IH; eassumption.
  - destruct (fetch o f) as [w|e0|]; try discriminate.
    + destruct H as [H|H]; [discriminate|]. eapply IH; eassumption.
    + eapply det_pi_errs_mono; [eassumption|]. intros Y. apply app_eq_nil in Y. destruct Y; discriminate.
Qed.

(* ---- the forbid_extra_keys check, as a predicate ---- *)
Definition forbid_ok (fs : list field) (o : pobj) : bool :=
  if t_forbid opt then
    match o_keys o with
    | Ok ks => match unknown_keys V opt ov fs ks with [] => true | _ => false end
    | _ => false
    end
  else true.

(* ---- specification of the detailed template ---- *)
Definition inc_init (fs : list field) : list field := filter (@f_init V) (filter included fs).
Definition inc_pi (fs : list field) : list field := filter (fun f => negb (f_init f)) (filter included fs).

Definition spec_struct (fs : list field) (o : pobj) : option (inst V) :=
  if forallb (good o) (inc_init fs) && forbid_ok fs o then
    match instantiate fs [] (flat_map (contrib o) (inc_init fs)) with
    | Ok i => if forallb (good o) (inc_pi fs) then Some (set_all i (flat_map (contrib_named o) (inc_pi fs))) else None
    | _ => None
    end
  else None.

Definition to_opt {A} (r : result A) : option A := match r with Ok a => Some a | _ => None end.

Theorem detailed_refines_spec fs o :
  to_opt (tpl_detailed V K opt ov hs true fs o) = spec_struct fs o.
Proof.
  unfold tpl_detailed, spec_struct. fold (inc_init fs). fold (inc_pi fs).
  destruct (forallb (good o) (inc_init fs)) eqn:Hg.
  - rewrite det_loop_good by assumption. cbn [bind app].
    unfold forbid_ok. destruct (t_forbid opt).
    + destruct (o_keys o) as [ks|e|]; cbn [bind andb]; try reflexivity.
      destruct (unknown_keys V opt ov fs ks) eqn:Hu; cbn.
      * destruct (instantiate fs [] (flat_map (contrib o) (inc_init fs))) as [i| |]; try reflexivity.
        destruct (forallb (good o) (inc_pi fs)) eqn:Hp.
        -- rewrite det_pi_good by assumption. reflexivity.
        -- destruct (det_pi V opt ov hs o (inc_pi fs) i []) as [[i' e2]| |] eqn:Hd; try reflexivity. cbn.
           pose proof (det_pi_bad _ _ _ _ _ _ Hp Hd). destruct e2; [contradiction | reflexivity].
      * reflexivity.
    + cbn. destruct (instantiate fs [] (flat_map (contrib o) (inc_init fs))) as [i| |]; try reflexivity.
      destruct (forallb (good o) (inc_pi fs)) eqn:Hp.
      * rewrite det_pi_good by assumption. reflexivity.
      * destruct (det_pi V opt ov hs o (inc_pi fs) i []) as [[i' e2]| |] eqn:Hd; try reflexivity. cbn.
        pose proof (det_pi_bad _ _ _ _ _ _ Hp Hd). destruct e2; [contradiction | reflexivity].
  - cbn [andb]. destruct (det_loop V opt ov hs o (inc_init fs) [] []) as [[res errs]| |] eqn:Hd; try reflexivity.
    cbn [bind]. pose proof (det_loop_bad _ _ _ _ _ _ Hg Hd) as Hne.
    destruct (t_forbid opt).
    + destruct (o_keys o) as [ks|e|]; cbn [bind]; try reflexivity.
      destruct (unknown_keys V opt ov fs ks); cbn.
      * destruct errs; [contradiction | reflexivity].
      * destruct (errs ++ [(None, EForbidden (t_cl opt) (n :: l))]) eqn:E; [|reflexivity].
        apply app_eq_nil in E. destruct E; discriminate.
    + cbn. destruct errs; [contradiction | reflexivity].
Qed.


(* ================= the fast template ================= *)

Lemma filter_comm {A} (p q : A -> bool) l : filter p (filter q l) = filter q (filter p l).
Proof.
  induction l as [|x l IH]; cbn; [reflexivity|].
  destruct (q x) eqn:Q, (p x) eqn:P; cbn; rewrite ?Q, ?P, IH; reflexivity.
Qed.

Lemma forallb_filter_split {A} (g p : A -> bool) l :
  forallb g l = forallb g (filter p l) && forallb g (filter (fun x => negb (p x)) l).
Proof.
  induction l as [|x l IH]; cbn; [reflexivity|]. rewrite IH.
  destruct (p x); cbn; destruct (g x); cbn; try reflexivity; now rewrite ?andb_false_r.
Qed.

Lemma flat_map_filter_perm {A B} (g : A -> list B) (p : A -> bool) l :
  Permutation (flat_map g l) (flat_map g (filter p l) ++ flat_map g (filter (fun x => negb (p x)) l)).
Proof.
  induction l as [|x l IH]; cbn; [constructor|].
  destruct (p x); cbn.
  - rewrite <- app_assoc. now apply Permutation_app_head.
  - eapply Permutation_trans; [apply Permutation_app_head; exact IH|].
    rewrite !app_assoc. apply Permutation_app_tail. apply Permutation_app_comm.
Qed.

Definition required_f (f : field) : bool := required V f.
Definition optional_f (f : field) : bool := negb (required V f).

Lemma fast_opt_loop_good o fs : forall res,
  forallb optional_f fs = true -> forallb (good o) fs = true ->
  fast_opt_loop V opt ov hs o fs res = Ok (res ++ flat_map (contrib o) fs).
Proof.
  induction fs as [|f fs IH]; intros res Ho Hg; cbn [fast_opt_loop flat_map]; [now rewrite app_nil_r|].
  cbn in Ho, Hg. apply andb_true_iff in Ho. destruct Ho as [Hof Hor].
  apply andb_true_iff in Hg. destruct Hg as [Hgf Hgr].
  unfold optional_f, required, good, contrib in *. destruct (f_dflt f) as [d|]; [|discriminate].
  destruct (o_in o (key_of f)) as [[|]| |]; try discriminate; cbn [bind].
  - destruct (fetch o f) as [w| |]; try discriminate. cbn [bind]. rewrite IH by assumption. now rewrite <- app_assoc.
  - now rewrite IH.
Qed.

Lemma fast_opt_loop_bad o fs : forall res,
  forallb optional_f fs = true -> forallb (good o) fs = false ->
  is_ok (fast_opt_loop V opt ov hs o fs res) = false.
Proof.
  induction fs as [|f fs IH]; intros res Ho Hg; cbn in Hg; [discriminate|].
  cbn in Ho. apply andb_true_iff in Ho. destruct Ho as [Hof Hor].
  cbn [fast_opt_loop]. apply andb_false_iff in Hg.
  unfold optional_f, required, good in *. destruct (f_dflt f) as [d|]; [|discriminate].
  destruct (o_in o (key_of f)) as [[|]| |]; cbn [bind]; try reflexivity.
  - destruct (fetch o f) as [w| |]; cbn [bind]; try reflexivity.
    destruct Hg as [Hg|Hg]; [discriminate|]. now apply IH.
  - destruct Hg as [Hg|Hg]; [discriminate|]. now apply IH.
Qed.

Definition pos_vals (o : pobj) (fs : list field) : list V :=
  flat_map (fun f => map snd (contrib o f)) (filter (fun f => negb (f_kw_seen f)) fs).
Definition kw_vals (o : pobj) (fs : list field) : list (N * V) :=
  flat_map (contrib o) (filter (fun f => f_kw_seen f) fs).

Lemma fast_args_good o fs :
  forallb required_f fs = true -> forallb (good o) fs = true ->
  fast_args V opt ov hs o fs = Ok (pos_vals o fs, kw_vals o fs).
Proof.
  induction fs as [|f fs IH]; intros Hr Hg; cbn [fast_args]; [reflexivity|].
  cbn in Hr, Hg. apply andb_true_iff in Hr. destruct Hr as [Hrf Hrr].
  apply andb_true_iff in Hg. destruct Hg as [Hgf Hgr].
  rewrite (IH Hrr Hgr). unfold pos_vals, kw_vals. cbn [filter].
  unfold required_f, required, good in *.
  destruct (f_dflt f) as [d|] eqn:Ed; [discriminate|].
  destruct (fetch o f) as [w| |] eqn:Ef; try discriminate. cbn [bind fst snd].
  assert (Hc : contrib o f = [(f_alias f, w)]) by (unfold contrib; rewrite Ed, Ef; reflexivity).
  destruct (f_kw_seen f); cbn [negb flat_map]; rewrite Hc; reflexivity.
Qed.

Lemma fast_args_bad o fs :
  forallb required_f fs = true -> forallb (good o) fs = false ->
  is_ok (fast_args V opt ov hs o fs) = false.
Proof.
  induction fs as [|f fs IH]; intros Hr Hg; cbn in Hg; [discriminate|].
  cbn in Hr. apply andb_true_iff in Hr. destruct Hr as [Hrf Hrr].
  cbn [fast_args]. apply andb_false_iff in Hg.
  unfold required_f, required, good in *. destruct (f_dflt f) as [d|]; [discriminate|].
  destruct (fetch o f) as [w| |]; cbn [bind]; try reflexivity.
  destruct Hg as [Hg|Hg]; [discriminate|].
  specialize (IH Hrr Hg). destruct (fast_args V opt ov hs o fs); cbn in *; try reflexivity; discriminate.
Qed.

Lemma fast_pi_req_good o fs : forall i,
  forallb required_f fs = true -> forallb (good o) fs = true ->
  fast_pi_req V opt ov hs o fs i = Ok (set_all i (flat_map (contrib_named o) fs)).
Proof.
  induction fs as [|f fs IH]; intros i Hr Hg; cbn [fast_pi_req flat_map set_all]; [reflexivity|].
  cbn in Hr, Hg. apply andb_true_iff in Hr. destruct Hr as [Hrf Hrr].
  apply andb_true_iff in Hg. destruct Hg as [Hgf Hgr].
  unfold required_f, required, good, contrib_named, contrib in *.
  destruct (f_dflt f) as [d|]; [discriminate|].
  destruct (fetch o f) as [w| |]; try discriminate. cbn. now rewrite IH.
Qed.

Lemma fast_pi_req_bad o fs : forall i,
  forallb required_f fs = true -> forallb (good o) fs = false ->
  is_ok (fast_pi_req V opt ov hs o fs i) = false.
Proof.
  induction fs as [|f fs IH]; intros i Hr Hg; cbn in Hg; [discriminate|].
  cbn in Hr. apply andb_true_iff in Hr. destruct Hr as [Hrf Hrr].
  cbn [fast_pi_req]. apply andb_false_iff in Hg.
  unfold required_f, required, good in *. destruct (f_dflt f) as [d|]; [discriminate|].
  destruct (fetch o f) as [w| |]; cbn [bind]; try reflexivity.
  destruct Hg as [Hg|Hg]; [discriminate|]. now apply IH.
Qed.

Lemma fast_pi_opt_good o fs : forall i,
  forallb optional_f fs = true -> forallb (good o) fs = true ->
  fast_pi_opt V opt ov hs o fs i = Ok (set_all i (flat_map (contrib_named o) fs)).
Proof.
  induction fs as [|f fs IH]; intros i Ho Hg; cbn [fast_pi_opt flat_map set_all]; [reflexivity|].
  cbn in Ho, Hg. apply andb_true_iff in Ho. destruct Ho as [Hof Hor].
  apply andb_true_iff in Hg. destruct Hg as [Hgf Hgr].
  unfold optional_f, required, good, contrib_named, contrib in *. destruct (f_dflt f) as [d|]; [|discriminate].
  destruct (o_in o (key_of f)) as [[|]| |]; try discriminate; cbn [bind].
  - destruct (fetch o f) as [w| |]; try discriminate. cbn. now rewrite IH.
  - cbn. now rewrite IH.
Qed.

Lemma fast_pi_opt_bad o fs : forall i,
  forallb optional_f fs = true -> forallb (good o) fs = false ->
  is_ok (fast_pi_opt V opt ov hs o fs i) = false.
Proof.
  induction fs as [|f fs IH]; intros i Ho Hg; cbn in Hg; [discriminate|].
  cbn in Ho. apply andb_true_iff in Ho. destruct Ho as [Hof Hor].
  cbn [fast_pi_opt]. apply andb_false_iff in Hg.
  unfold optional_f, required, good in *. destruct (f_dflt f) as [d|]; [|discriminate].
  destruct (o_in o (key_of f)) as [[|]| |]; cbn [bind]; try reflexivity.
  - destruct (fetch o f) as [w| |]; cbn [bind]; try reflexivity.
    destruct Hg as [Hg|Hg]; [discriminate|]. now apply IH.
  - destruct Hg as [Hg|Hg]; [discriminate|]. now apply IH.
Qed.


(* ---- __init__: binding by position and by name coincide ---- *)
Definition inst_equiv (i j : inst V) : Prop := forall k, assoc i k = assoc j k.

Lemma assoc_none_notin {B} (l : list (N * B)) k : ~ In k (map fst l) -> assoc l k = None.
Proof.
  induction l as [|[k' v] l IH]; cbn; [reflexivity|]. intros H.
  destruct (N.eqb k' k) eqn:E; [apply N.eqb_eq in E; subst; exfalso; apply H; now left|].
  apply IH. intros X. apply H. now right.
Qed.

Lemma assoc_app2 {B} (x y : list (N * B)) k :
  assoc (x ++ y) k = match assoc x k with Some v => Some v | None => assoc y k end.
Proof. induction x as [|[k' v] x IH]; cbn; [reflexivity|]. destruct (N.eqb k' k); [reflexivity|exact IH]. Qed.

Lemma assoc_perm {B} (l l' : list (N * B)) k :
  NoDup (map fst l) -> Permutation l l' -> assoc l k = assoc l' k.
Proof.
  intros Hnd Hp. induction Hp as [|[a v] l l' Hp IH|[a v] [b w] l|l l' l'' H1 IH1 H2 IH2].
  - reflexivity.
  - cbn. inversion Hnd; subst. rewrite IH by assumption. reflexivity.
  - cbn. destruct (N.eqb b k) eqn:Eb, (N.eqb a k) eqn:Ea; try reflexivity.
    apply N.eqb_eq in Eb, Ea. subst. inversion Hnd as [|? ? Hn _]; subst. exfalso. apply Hn. now left.
  - rewrite IH1 by assumption. apply IH2.
    eapply Permutation_NoDup; [|exact Hnd]. now apply Permutation_map.
Qed.

Lemma bind_kw_ok ps : forall kw bound,
  (forall k, In k (map fst kw) -> existsb (fun p : field => N.eqb (f_alias p) k) ps = true) ->
  NoDup (map fst bound ++ map fst kw) ->
  bind_kw V ps bound kw = Ok (bound ++ kw).
Proof.
  induction kw as [|[k v] kw IH]; intros bound Hin Hnd; cbn [bind_kw]; [now rewrite app_nil_r|].
  rewrite (Hin k) by (now left).
  assert (Hk : ~ In k (map fst bound)).
  { intros X. apply NoDup_remove_2 in Hnd. apply Hnd. apply in_or_app. now left. }
  rewrite (assoc_none_notin _ _ Hk).
  rewrite IH.
  - now rewrite <- app_assoc.
  - intros k' Hk'. apply Hin. now right.
  - rewrite map_app, <- app_assoc. cbn. exact Hnd.
Qed.

Lemma fill_ext fs : forall b b', (forall k, assoc b k = assoc b' k) -> fill V K fs b = fill V K fs b'.
Proof.
  induction fs as [|f fs IH]; intros b b' H; cbn [fill]; [reflexivity|].
  rewrite (H (f_alias f)), (IH b b' H). reflexivity.
Qed.

Lemma keys_contrib_in o l k : In k (map fst (flat_map (contrib o) l)) -> In k (map (@f_alias V) l).
Proof.
  induction l as [|f l IH]; cbn; [auto|]. rewrite map_app, in_app_iff. intros [H|H]; [|right; auto].
  left. unfold contrib in H. destruct (f_dflt f).
  - destruct (o_in o (key_of f)) as [[|]| |]; cbn in H; try contradiction.
    destruct (fetch o f); cbn in H; try contradiction. destruct H as [H|[]]. auto.
  - destruct (fetch o f); cbn in H; try contradiction. destruct H as [H|[]]. auto.
Qed.

Lemma nodup_contrib o l : NoDup (map (@f_alias V) l) -> NoDup (map fst (flat_map (contrib o) l)).
Proof.
  induction l as [|f l IH]; cbn; intros H; [constructor|]. inversion H as [|? ? Hn Hr]; subst.
  rewrite map_app.
  assert (Hrest := IH Hr).
  unfold contrib at 1. destruct (f_dflt f).
  - destruct (o_in o (key_of f)) as [[|]| |]; cbn; try assumption.
    destruct (fetch o f); cbn; try assumption. constructor; [|assumption].
    intros X. apply Hn. eapply keys_contrib_in; eassumption.
  - destruct (fetch o f); cbn; try assumption. constructor; [|assumption].
    intros X. apply Hn. eapply keys_contrib_in; eassumption.
Qed.

Lemma nodup_map_filter {A B} (g : A -> B) (p : A -> bool) l : NoDup (map g l) -> NoDup (map g (filter p l)).
Proof.
  induction l as [|x l IH]; cbn; intros H; [constructor|]. inversion H as [|? ? Hn Hr]; subst.
  destruct (p x); cbn; [constructor|]; auto.
  intros X. apply Hn. apply in_map_iff in X. destruct X as (y & E & Hy). apply filter_In in Hy.
  apply in_map_iff. exists y. tauto.
Qed.

Lemma bind_pos_prefix o R : forall P',
  forallb required_f R = true -> forallb (good o) R = true ->
  bind_pos V (R ++ P') (flat_map (fun f => map snd (contrib o f)) R) = Ok (flat_map (contrib o) R).
Proof.
  induction R as [|f R IH]; intros P' Hr Hg; cbn [app flat_map].
  - destruct P'; reflexivity.
  - cbn in Hr, Hg. apply andb_true_iff in Hr. destruct Hr as [Hrf Hrr].
    apply andb_true_iff in Hg. destruct Hg as [Hgf Hgr].
    unfold required_f, required, good in Hrf, Hgf. unfold contrib at 1 3.
    destruct (f_dflt f); [discriminate|]. destruct (fetch o f) as [w| |]; try discriminate.
    cbn [map snd app bind_pos]. rewrite (IH P' Hrr Hgr). reflexivity.
Qed.

(* ---- well-formedness of a class definition and of the customisation ---- *)
Record wf (fs : list field) : Prop := {
  wf_alias : NoDup (map (@f_alias V) fs);
  wf_name : NoDup (map (@f_name V) fs);
  wf_kw : forall f, In f fs -> f_kw_seen f = f_kw_only f;
  (* attrs / dataclasses refuse a mandatory positional attribute after a defaulted one *)
  wf_prefix : pos_params V fs = filter required_f (pos_params V fs) ++ filter optional_f (pos_params V fs);
  (* the customisation does not omit a mandatory __init__ argument *)
  wf_omit : forall f, In f fs -> f_init f = true -> required_f f = true -> included f = true
}.

Lemma filter_filter {A} (p q : A -> bool) l : filter p (filter q l) = filter (fun x => q x && p x) l.
Proof. induction l as [|x l IH]; cbn; [reflexivity|]. destruct (q x); cbn; [destruct (p x)|]; now rewrite IH. Qed.

Lemma set_all_app i l1 l2 : set_all (set_all i l1) l2 = set_all i (l1 ++ l2).
Proof. revert i. induction l1 as [|[n v] l1 IH]; intros i; cbn; [reflexivity|]. apply IH. Qed.

Lemma assoc_inst_set (i : inst V) n v k :
  assoc (inst_set V i n v) k = if N.eqb n k then Some v else assoc i k.
Proof.
  induction i as [|[n' v'] i IH]; cbn.
  - destruct (N.eqb n k); reflexivity.
  - destruct (N.eqb n' n) eqn:E; cbn.
    + apply N.eqb_eq in E. subst. destruct (N.eqb n k); reflexivity.
    + rewrite IH. destruct (N.eqb n' k) eqn:E2; [|reflexivity].
      apply N.eqb_eq in E2. subst. rewrite N.eqb_sym, E. reflexivity.
Qed.

Lemma assoc_set_all l : forall (i : inst V) k, NoDup (map fst l) ->
  assoc (set_all i l) k = match assoc l k with Some v => Some v | None => assoc i k end.
Proof.
  induction l as [|[n v] l IH]; intros i k Hnd; cbn [set_all assoc]; [reflexivity|].
  inversion Hnd as [|? ? Hn Hr]; subst. rewrite IH by assumption. rewrite assoc_inst_set.
  destruct (N.eqb n k) eqn:E.
  - apply N.eqb_eq in E. subst. rewrite (assoc_none_notin l k Hn). reflexivity.
  - reflexivity.
Qed.

Lemma keys_named_in o l k : In k (map fst (flat_map (contrib_named o) l)) -> In k (map (@f_name V) l).
Proof.
  induction l as [|f l IH]; cbn; [auto|]. rewrite map_app, in_app_iff. intros [H|H]; [|right; auto].
  left. unfold contrib_named in H. rewrite map_map in H. cbn in H.
  apply in_map_iff in H. destruct H as (x & E & _). auto.
Qed.

Lemma contrib_le1 o f : length (contrib o f) <= 1.
Proof.
  unfold contrib. destruct (f_dflt f).
  - destruct (o_in o (key_of f)) as [[|]| |]; cbn; try lia. destruct (fetch o f); cbn; lia.
  - destruct (fetch o f); cbn; lia.
Qed.

Lemma nodup_named o l : NoDup (map (@f_name V) l) -> NoDup (map fst (flat_map (contrib_named o) l)).
Proof.
  induction l as [|f l IH]; cbn; intros H; [constructor|]. inversion H as [|? ? Hn Hr]; subst.
  rewrite map_app. assert (Hrest := IH Hr).
  unfold contrib_named at 1. pose proof (contrib_le1 o f) as Hl.
  destruct (contrib o f) as [|[a w] [|? ?]]; cbn in *; try lia; [assumption|].
  constructor; [|assumption]. intros X. apply Hn. eapply keys_named_in; eassumption.
Qed.

Lemma forallb_sub_filter {A} (g p : A -> bool) l : forallb g l = true -> forallb g (filter p l) = true.
Proof.
  intros H. apply forallb_forall. intros x Hx. apply filter_In in Hx. rewrite forallb_forall in H. apply H. tauto.
Qed.

Lemma in_alias_params fs (f : field) : In f fs -> f_init f = true ->
  existsb (fun p : field => N.eqb (f_alias p) (f_alias f)) (params V fs) = true.
Proof.
  intros Hin Hi. apply existsb_exists. exists f. split; [|apply N.eqb_refl].
  unfold params. apply filter_In. tauto.
Qed.

Lemma instantiate_equiv fs o :
  wf fs ->
  let II := filter (@f_init V) (filter included fs) in
  forallb (good o) (filter required_f II) = true ->
  instantiate fs (pos_vals o (filter required_f II)) (kw_vals o (filter required_f II) ++ flat_map (contrib o) (filter optional_f II))
  = instantiate fs [] (flat_map (contrib o) II).
Proof.
  intros [Wa Wn Wk Wp Wo] II Greq.
  set (RQ := filter required_f II). set (OP := filter optional_f II).
  set (Rpos := filter (fun f => negb (f_kw_seen f)) RQ). set (Rkw := filter (fun f => f_kw_seen f) RQ).
  unfold pos_vals, kw_vals. fold Rpos Rkw.
  (* the mandatory positional arguments are a prefix of the positional parameters *)
  assert (HP : pos_params V fs = Rpos ++ filter optional_f (pos_params V fs)).
  { rewrite Wp at 1. f_equal. subst Rpos RQ II. unfold pos_params, params.
    rewrite !filter_filter. apply filter_ext_in. intros f Hf.
    rewrite (Wk f Hf). unfold required_f.
    destruct (f_init f) eqn:Ei; cbn; [|now rewrite andb_false_r].
    destruct (f_kw_only f); cbn; [now rewrite !andb_false_r|].
    destruct (required V f) eqn:Er; cbn; [|now rewrite !andb_false_r].
    rewrite (Wo f Hf Ei Er). reflexivity. }
  assert (HII : forall f, In f II -> In f fs /\ f_init f = true).
  { intros f Hf. subst II. apply filter_In in Hf. destruct Hf as [Hf Hi]. apply filter_In in Hf. tauto. }
  assert (NDII : NoDup (map (@f_alias V) II)) by (subst II; do 2 apply nodup_map_filter; exact Wa).
  unfold Templates.instantiate.
  rewrite HP at 1.
  rewrite (bind_pos_prefix o Rpos); cycle 1.
  { subst Rpos RQ. apply forallb_sub_filter. apply forallb_forall. intros x Hx. apply filter_In in Hx. tauto. }
  { subst Rpos. now apply forallb_sub_filter. }
  cbn [bind].
  assert (Hperm : Permutation (flat_map (contrib o) II)
                              (flat_map (contrib o) Rpos ++ flat_map (contrib o) Rkw ++ flat_map (contrib o) OP)).
  { eapply Permutation_trans; [apply (flat_map_filter_perm (contrib o) required_f II)|].
    change (fun x : field => negb (required_f x)) with optional_f. fold RQ OP.
    rewrite app_assoc. apply Permutation_app_tail.
    eapply Permutation_trans; [apply (flat_map_filter_perm (contrib o) (fun f => f_kw_seen f) RQ)|].
    fold Rkw Rpos. apply Permutation_app_comm. }
  assert (NDall : NoDup (map fst (flat_map (contrib o) II))) by (now apply nodup_contrib).
  rewrite bind_kw_ok; cycle 1.
  { intros k Hk. rewrite <- flat_map_app in Hk. apply keys_contrib_in in Hk.
    apply in_map_iff in Hk. destruct Hk as (f & E & Hf). subst k.
    assert (Hf' : In f II).
    { apply in_app_or in Hf. destruct Hf as [Hf|Hf].
      - subst Rkw RQ. apply filter_In in Hf. destruct Hf as [Hf _]. apply filter_In in Hf. destruct Hf as [Hf _]. exact Hf.
      - subst OP. apply filter_In in Hf. destruct Hf as [Hf _]. exact Hf. }
    destruct (HII f Hf'). now apply in_alias_params. }
  { rewrite <- map_app. eapply Permutation_NoDup; [|exact NDall]. apply Permutation_map.
    exact Hperm. }
  destruct (pos_params V fs) eqn:Epp; cbn [bind_pos bind].
  - rewrite bind_kw_ok; cycle 1.
    { intros k Hk. apply keys_contrib_in in Hk. apply in_map_iff in Hk. destruct Hk as (f & E & Hf). subst k.
      destruct (HII f Hf). now apply in_alias_params. }
    { exact NDall. }
    cbn [bind app]. apply fill_ext. intros k. symmetry. apply assoc_perm; [exact NDall|].
    exact Hperm.
  - rewrite bind_kw_ok; cycle 1.
    { intros k Hk. apply keys_contrib_in in Hk. apply in_map_iff in Hk. destruct Hk as (f' & E & Hf). subst k.
      destruct (HII f' Hf). now apply in_alias_params. }
    { exact NDall. }
    cbn [bind app]. apply fill_ext. intros k. symmetry. apply assoc_perm; [exact NDall|].
    exact Hperm.
Qed.

Lemma pi_equiv o (PI : list field) (i : inst V) :
  NoDup (map (@f_name V) PI) ->
  inst_equiv (set_all i (flat_map (contrib_named o) (filter required_f PI) ++ flat_map (contrib_named o) (filter optional_f PI)))
             (set_all i (flat_map (contrib_named o) PI)).
Proof.
  intros Hnd k.
  assert (Hperm : Permutation (flat_map (contrib_named o) PI)
            (flat_map (contrib_named o) (filter required_f PI) ++ flat_map (contrib_named o) (filter optional_f PI))).
  { apply (flat_map_filter_perm (contrib_named o) required_f PI). }
  assert (ND : NoDup (map fst (flat_map (contrib_named o) PI))) by (now apply nodup_named).
  rewrite !assoc_set_all; [| exact ND | eapply Permutation_NoDup; [apply Permutation_map; exact Hperm | exact ND]].
  rewrite (assoc_perm _ _ k ND Hperm). reflexivity.
Qed.

Lemma fast_core fs o :
  wf fs ->
  let II := filter (@f_init V) (filter included fs) in
  let PI := filter (fun f => negb (f_init f)) (filter included fs) in
  forallb (good o) (filter required_f II) = true ->
  match
    to_opt
      (do pk <- fast_args V opt ov hs o (filter required_f II);
       do i <- instantiate fs (fst pk) (snd pk ++ flat_map (contrib o) (filter optional_f II));
       do i1 <- fast_pi_req V opt ov hs o (filter required_f PI) i;
       fast_pi_opt V opt ov hs o (filter optional_f PI) i1),
    match instantiate fs [] (flat_map (contrib o) II) with
    | Ok i => if forallb (good o) PI then Some (set_all i (flat_map (contrib_named o) PI)) else None
    | _ => None
    end
  with
  | Some i, Some j => inst_equiv i j
  | None, None => True
  | _, _ => False
  end.
Proof.
  intros W II PI Greq.
  assert (Hall_req : forall l, forallb required_f (filter required_f l) = true).
  { intros l. apply forallb_forall. intros x Hx. apply filter_In in Hx. tauto. }
  assert (Hall_opt : forall l, forallb optional_f (filter optional_f l) = true).
  { intros l. apply forallb_forall. intros x Hx. apply filter_In in Hx. tauto. }
  rewrite (fast_args_good o _ (Hall_req II) Greq). cbn [bind fst snd].
  pose proof (instantiate_equiv fs o W Greq) as Hinst. cbn zeta in Hinst. fold II in Hinst.
  rewrite Hinst.
  destruct (instantiate fs [] (flat_map (contrib o) II)) as [i| |]; cbn [bind to_opt]; try exact I.
  rewrite (forallb_filter_split (good o) required_f PI).
  change (fun x : field => negb (required_f x)) with optional_f.
  destruct (forallb (good o) (filter required_f PI)) eqn:Gr.
  2:{ pose proof (fast_pi_req_bad o _ i (Hall_req PI) Gr) as Hb.
      destruct (fast_pi_req V opt ov hs o (filter required_f PI) i); cbn in *; try discriminate; exact I. }
  rewrite (fast_pi_req_good o _ i (Hall_req PI) Gr). cbn [bind andb].
  destruct (forallb (good o) (filter optional_f PI)) eqn:Go.
  2:{ pose proof (fast_pi_opt_bad o _ (set_all i (flat_map (contrib_named o) (filter required_f PI))) (Hall_opt PI) Go) as Hb.
      destruct (fast_pi_opt V opt ov hs o (filter optional_f PI) _); cbn in *; try discriminate; exact I. }
  rewrite (fast_pi_opt_good o _ _ (Hall_opt PI) Go). cbn [to_opt].
  rewrite set_all_app. apply pi_equiv.
  subst PI. destruct W as [_ Wn _ _ _]. do 2 apply nodup_map_filter. exact Wn.
Qed.

Theorem fast_refines_spec fs o :
  wf fs ->
  match to_opt (tpl_fast V K opt ov hs true fs o), spec_struct fs o with
  | Some i, Some j => inst_equiv i j
  | None, None => True
  | _, _ => False
  end.
Proof.
  intros W.
  unfold tpl_fast, fast_compiles. cbn [orb negb].
  set (inc := filter included fs).
  set (II := filter (@f_init V) inc).
  set (PI := filter (fun f => negb (f_init f)) inc).
  (* the four groups of handled attributes *)
  assert (Hreq : filter (@f_init V) (filter (required V) inc) = filter required_f II).
  { subst II. apply filter_comm. }
  assert (Hopt : filter (@f_init V) (filter (fun f => negb (required V f)) inc) = filter optional_f II).
  { subst II. apply filter_comm. }
  assert (Hpreq : filter (fun f => negb (f_init f)) (filter (required V) inc) = filter required_f PI).
  { subst PI. apply filter_comm. }
  assert (Hpopt : filter (fun f => negb (f_init f)) (filter (fun f => negb (required V f)) inc) = filter optional_f PI).
  { subst PI. apply filter_comm. }
  rewrite Hreq, Hopt, Hpreq, Hpopt.
  unfold spec_struct. fold inc. unfold inc_init, inc_pi. fold inc. fold II. fold PI.
  assert (Hall_req : forall l, forallb required_f (filter required_f l) = true).
  { intros l. apply forallb_forall. intros x Hx. apply filter_In in Hx. tauto. }
  assert (Hall_opt : forall l, forallb optional_f (filter optional_f l) = true).
  { intros l. apply forallb_forall. intros x Hx. apply filter_In in Hx. tauto. }
  rewrite (forallb_filter_split (good o) required_f II).
  change (fun x : field => negb (required_f x)) with optional_f.
  destruct (forallb (good o) (filter optional_f II)) eqn:Gopt.
  2:{ pose proof (fast_opt_loop_bad o _ [] (Hall_opt II) Gopt) as Hb.
      destruct (fast_opt_loop V opt ov hs o (filter optional_f II) []); cbn in *; try discriminate;
        rewrite andb_false_r; exact I. }
  rewrite (fast_opt_loop_good o _ [] (Hall_opt II) Gopt). cbn [bind app].
  rewrite andb_true_r.
  (* forbid check: same predicate in both *)
  unfold forbid_ok. destruct (t_forbid opt) eqn:Ef.
  - destruct (o_keys o) as [ks|e|]; cbn [bind]; try (rewrite andb_false_r; exact I).
    destruct (unknown_keys V opt ov fs ks) eqn:Hu; cbn [bind]; [|rewrite andb_false_r; exact I].
    rewrite andb_true_r.
    destruct (forallb (good o) (filter required_f II)) eqn:Greq.
    2:{ pose proof (fast_args_bad o _ (Hall_req II) Greq) as Hb.
        destruct (fast_args V opt ov hs o (filter required_f II)); cbn in *; try discriminate; exact I. }
    apply fast_core; assumption.
  - cbn [bind]. rewrite andb_true_r.
    destruct (forallb (good o) (filter required_f II)) eqn:Greq.
    2:{ pose proof (fast_args_bad o _ (Hall_req II) Greq) as Hb.
        destruct (fast_args V opt ov hs o (filter required_f II)); cbn in *; try discriminate; exact I. }
    apply fast_core; assumption.
Qed.

End TP.

(* ---------- corollaries used by the property files ---------- *)
Section Corollaries.
Variable V : Type.
Variable K : N -> V -> result V.

Definition agree {A} (eqv : A -> A -> Prop) (a b : option A) : Prop :=
  match a, b with Some x, Some y => eqv x y | None, None => True | _, _ => False end.

Lemma inst_equiv_sym (i j : inst V) : inst_equiv V i j -> inst_equiv V j i.
Proof. intros H k. symmetry. apply H. Qed.

(* C04 at class level: the two generated templates accept the same payloads and build equal instances *)
Theorem templates_agree opt ov hs fs o :
  wf V opt ov fs ->
  agree (inst_equiv V) (to_opt (tpl_detailed V K opt ov hs true fs o)) (to_opt (tpl_fast V K opt ov hs true fs o)).
Proof.
  intros W. rewrite detailed_refines_spec. pose proof (fast_refines_spec V K opt ov hs fs o W) as H.
  unfold agree. destruct (to_opt (tpl_fast V K opt ov hs true fs o)), (spec_struct V K opt ov hs fs o); auto.
  now apply inst_equiv_sym.
Qed.

Lemma fast_always_compiles opt ov fs : fast_compiles V opt ov true fs = true.
Proof. reflexivity. Qed.

(* C10: the forbid flag only adds the rejection of unknown keys *)
Definition set_forbid (b : bool) (opt : topts) : topts :=
  {| t_cl := t_cl opt; t_forbid := b; t_use_alias := t_use_alias opt;
     t_incl_init_false := t_incl_init_false opt; t_omit_if_default := t_omit_if_default opt |}.

Theorem spec_forbid opt ov hs fs o :
  spec_struct V K (set_forbid true opt) ov hs fs o =
  match o_keys o with
  | Ok ks => match unknown_keys V opt ov fs ks with
             | [] => spec_struct V K (set_forbid false opt) ov hs fs o
             | _ => None
             end
  | _ => None
  end.
Proof.
  unfold spec_struct, forbid_ok. cbn [t_forbid set_forbid].
  change (inc_init V (set_forbid true opt) ov fs) with (inc_init V (set_forbid false opt) ov fs).
  change (inc_pi V (set_forbid true opt) ov fs) with (inc_pi V (set_forbid false opt) ov fs).
  change (unknown_keys V (set_forbid true opt) ov fs) with (unknown_keys V opt ov fs).
  destruct (o_keys o) as [ks|e|]; rewrite ?andb_false_r; try reflexivity.
  destruct (unknown_keys V opt ov fs ks); rewrite ?andb_false_r, ?andb_true_r; reflexivity.
Qed.

(* the templates look at the payload only through the keys they handle *)
Definition same_on (ks : list N) (o o' : pobj V) : Prop :=
  forall k, In k ks -> o_in o k = o_in o' k /\ o_get o k = o_get o' k.

Lemma good_ext opt ov hs o o' f : same_on [key_of V opt ov f] o o' -> good V opt ov hs o f = good V opt ov hs o' f.
Proof.
  intros H. destruct (H (key_of V opt ov f) (or_introl eq_refl)) as [Hi Hg].
  unfold good, fetch. rewrite Hi, Hg. reflexivity.
Qed.
Lemma contrib_ext opt ov hs o o' f : same_on [key_of V opt ov f] o o' -> contrib V opt ov hs o f = contrib V opt ov hs o' f.
Proof.
  intros H. destruct (H (key_of V opt ov f) (or_introl eq_refl)) as [Hi Hg].
  unfold contrib, fetch. rewrite Hi, Hg. reflexivity.
Qed.

Lemma same_on_sub ks ks' o o' : (forall k, In k ks' -> In k ks) -> same_on ks o o' -> same_on ks' o o'.
Proof. intros Hs H k Hk. apply H, Hs, Hk. Qed.

Lemma forallb_good_ext opt ov hs o o' l :
  same_on (map (key_of V opt ov) l) o o' -> forallb (good V opt ov hs o) l = forallb (good V opt ov hs o') l.
Proof.
  induction l as [|f l IH]; cbn; intros H; [reflexivity|].
  rewrite (good_ext opt ov hs o o' f), IH; [reflexivity| |].
  - eapply same_on_sub; [|exact H]. intros k Hk. now right.
  - eapply same_on_sub; [|exact H]. intros k [Hk|[]]. now left.
Qed.
Lemma flat_contrib_ext opt ov hs o o' l :
  same_on (map (key_of V opt ov) l) o o' -> flat_map (contrib V opt ov hs o) l = flat_map (contrib V opt ov hs o') l.
Proof.
  induction l as [|f l IH]; cbn; intros H; [reflexivity|].
  rewrite (contrib_ext opt ov hs o o' f), IH; [reflexivity| |].
  - eapply same_on_sub; [|exact H]. intros k Hk. now right.
  - eapply same_on_sub; [|exact H]. intros k [Hk|[]]. now left.
Qed.

Theorem spec_extras_inert opt ov hs fs o o' :
  t_forbid opt = false ->
  same_on (allowed V opt ov fs) o o' ->
  spec_struct V K opt ov hs fs o = spec_struct V K opt ov hs fs o'.
Proof.
  intros Hf H. unfold spec_struct, forbid_ok. rewrite Hf.
  assert (H1 : same_on (map (key_of V opt ov) (inc_init V opt ov fs)) o o').
  { eapply same_on_sub; [|exact H]. intros k Hk. unfold allowed, inc_init in *.
    apply in_map_iff in Hk. destruct Hk as (f & E & Hin). apply filter_In in Hin. apply in_map_iff. exists f. tauto. }
  assert (H2 : same_on (map (key_of V opt ov) (inc_pi V opt ov fs)) o o').
  { eapply same_on_sub; [|exact H]. intros k Hk. unfold allowed, inc_pi in *.
    apply in_map_iff in Hk. destruct Hk as (f & E & Hin). apply filter_In in Hin. apply in_map_iff. exists f. tauto. }
  rewrite (forallb_good_ext _ _ _ _ _ _ H1), (flat_contrib_ext _ _ _ _ _ _ H1), (forallb_good_ext _ _ _ _ _ _ H2).
  destruct (forallb (good V opt ov hs o') (inc_init V opt ov fs) && true); [|reflexivity].
  destruct (instantiate V K fs [] _); try reflexivity.
  destruct (forallb (good V opt ov hs o') (inc_pi V opt ov fs)); [|reflexivity].
  f_equal. f_equal. unfold contrib_named.
  induction (inc_pi V opt ov fs) as [|f l IH]; cbn; [reflexivity|].
  rewrite (contrib_ext opt ov hs o o' f), IH; [reflexivity| |].
  - eapply same_on_sub; [|exact H2]. intros k Hk. now right.
  - eapply same_on_sub; [|exact H2]. intros k [Hk|[]]. now left.
Qed.

(* adding keys outside the accepted set to a dict payload changes nothing the templates look at *)
Lemma dict_extras_same_on (d extras : list (N * V)) ks :
  (forall k, In k ks -> ~ In k (map fst extras)) ->
  same_on ks (dict_obj d) (dict_obj (d ++ extras)).
Proof.
  intros H k Hk. specialize (H k Hk). cbn. split.
  - f_equal. unfold keys, mem_N. rewrite map_app, existsb_app.
    assert (E : existsb (N.eqb k) (map fst extras) = false).
    { apply Bool.not_true_is_false. intros X. apply existsb_exists in X. destruct X as (x & Hx & Ex).
      apply N.eqb_eq in Ex. subst. contradiction. }
    now rewrite E, orb_false_r.
  - rewrite assoc_app2. destruct (assoc d k); [reflexivity|].
    rewrite (assoc_none_notin extras k H). reflexivity.
Qed.

(* exact error content under forbid (dict payloads) *)
Theorem fast_forbid_error opt ov hs fs (d : list (N * V)) u :
  t_forbid opt = true ->
  unknown_keys V opt ov fs (keys d) = u -> u <> [] ->
  forallb (good V opt ov hs (dict_obj d)) (filter (optional_f V) (inc_init V opt ov fs)) = true ->
  tpl_fast V K opt ov hs true fs (dict_obj d) = Err (EForbidden (t_cl opt) u).
Proof.
  intros Hf Hu Hne Hg. unfold tpl_fast. cbn [fast_compiles orb negb].
  assert (Hopt : filter (@f_init V) (filter (fun f => negb (required V f)) (filter (included V opt ov) fs))
                 = filter (optional_f V) (inc_init V opt ov fs)).
  { unfold inc_init. apply filter_comm. }
  rewrite Hopt.
  rewrite (fast_opt_loop_good V opt ov hs (dict_obj d) _ []); [|apply forallb_forall; intros x Hx; apply filter_In in Hx; tauto | exact Hg].
  cbn [bind]. rewrite Hf. cbn [o_keys dict_obj bind]. rewrite Hu.
  destruct u; [contradiction | reflexivity].
Qed.

Theorem detailed_forbid_error opt ov hs fs (d : list (N * V)) u :
  t_forbid opt = true ->
  unknown_keys V opt ov fs (keys d) = u -> u <> [] ->
  (exists errs, tpl_detailed V K opt ov hs true fs (dict_obj d) = Err (EClassVal (t_cl opt) (errs ++ [(None, EForbidden (t_cl opt) u)])))
  \/ tpl_detailed V K opt ov hs true fs (dict_obj d) = OutOfFuel.
Proof.
  intros Hf Hu Hne. unfold tpl_detailed.
  destruct (det_loop V opt ov hs (dict_obj d) _ [] []) as [[res errs]|e|] eqn:Hd.
  - left. exists errs. cbn [bind]. rewrite Hf. cbn [o_keys dict_obj bind]. rewrite Hu.
    destruct u as [|x u]; [contradiction|]. cbn [bind].
    destruct (errs ++ [(None, EForbidden (t_cl opt) (x :: u))]) eqn:E; [|reflexivity].
    apply app_eq_nil in E. destruct E; discriminate.
  - (* on a dict, 'k' in o never raises, so the loop cannot abort with a raw error *)
    exfalso. revert Hd. generalize (@nil (N * V)) as res, (@nil (option N * errkind)) as errs.
    induction (filter (@f_init V) (filter (included V opt ov) fs)) as [|f l IH]; intros res errs; cbn [det_loop]; [discriminate|].
    destruct (f_dflt f).
    + cbn [o_in dict_obj bind]. destruct (mem_N _ _); [|apply IH].
      destruct (fetch V opt ov hs (dict_obj d) f); [apply IH | apply IH | discriminate].
    + destruct (fetch V opt ov hs (dict_obj d) f); [apply IH | apply IH | discriminate].
  - right. reflexivity.
Qed.

End Corollaries.
