(* SubUnionProofs.v -- C14, union-strategy variant: the base-typed round trip reaches the exact class's own hook with the
   instance's own dict. *)
From Coq Require Import Lia.
From V.Model Require Import Base Tagged SubUnion.
From V.Proofs Require Import TemplatesProofs TaggedProofs.

Section SU.
Variable V : Type.
Variable veq : V -> V -> bool.
Hypothesis veq_refl : forall v, veq v v = true.
Variable classes : list N.
Variable is_desc is_child : N -> N -> bool.
Variable tag : N -> V.
Variable tag_name : N.
Variable forbid : bool.
Variable fields : N -> list N.

Hypothesis H_nodup : NoDup classes.
Hypothesis H_refl : forall c, is_desc c c = true.
(* distinct classes have distinct tags (the default tag generator: the class name) *)
Hypothesis H_inj : forall a b, In a classes -> In b classes -> veq (tag a) (tag b) = true -> a = b.

Notation un := (un_sub V classes is_desc is_child tag tag_name forbid fields true).
Notation st := (st_sub V veq classes is_desc is_child tag tag_name forbid true true).

Lemma mem_in c l : In c l -> mem_N c l = true.
Proof. intros H. apply existsb_exists. exists c. split; [exact H | apply N.eqb_refl]. Qed.

Lemma sub_members_in k x : In x classes -> is_desc x k = true -> In x (sub_members classes is_desc k).
Proof. intros Hx Hd. apply filter_In. auto. Qed.

Lemma sub_members_nodup k : NoDup (sub_members classes is_desc k).
Proof. unfold sub_members. clear -H_nodup. induction classes as [|c l IH]; cbn; [constructor|]. inversion H_nodup; subst.
  destruct (is_desc c k); [constructor; [intros X; apply filter_In in X; tauto | auto] | auto]. Qed.

(* a class with a configured proper descendant has a union of more than one class *)
Lemma two_members k x : In k classes -> In x classes -> x <> k -> is_desc x k = true ->
  Nat.ltb 1 (length (sub_members classes is_desc k)) = true.
Proof.
  intros Hk Hx Hne Hd. apply Nat.ltb_lt.
  assert (I1 : In k (sub_members classes is_desc k)) by (apply sub_members_in; auto).
  assert (I2 : In x (sub_members classes is_desc k)) by (apply sub_members_in; auto).
  pose proof (sub_members_nodup k) as Hn.
  destruct (sub_members classes is_desc k) as [|a [|b r]]; cbn; [contradiction | | lia].
  destruct I1 as [<-|[]]. destruct I2 as [E|[]]. congruence.
Qed.

Lemma configured_when k x : In k classes -> In x classes -> x <> k -> is_desc x k = true ->
  configured classes is_desc is_child true = true.
Proof.
  intros Hk Hx Hne Hd. unfold configured. apply existsb_exists. exists k. split; [exact Hk|].
  unfold has_subclasses. apply existsb_exists. exists x. split; [exact Hx|]. rewrite Hd.
  destruct (N.eqb x k) eqn:E; [apply N.eqb_eq in E; contradiction | reflexivity].
Qed.

(* C14, union strategy: K configured, x a configured proper descendant of K (so K's union has at least two classes): the
   payload produced for x through K is x's own dict plus exactly the tag, and structuring it as K hands x's first-pass hook
   x's own dict (when forbidding extra keys: the tag removed from a copy; otherwise with the tag, which that hook ignores) *)
Theorem sub_union_roundtrip k x own :
  In k classes -> In x classes -> x <> k -> is_desc x k = true -> ~ In tag_name (map fst own) ->
  un k x own = Ok (own ++ [(tag_name, tag x)]) /\
  st k (own ++ [(tag_name, tag x)]) = Ok (x, if forbid then own else own ++ [(tag_name, tag x)]).
Proof.
  intros Hk Hx Hne Hd Hfresh. unfold un_sub, st_sub.
  rewrite (configured_when k x Hk Hx Hne Hd), (mem_in k classes Hk), (two_members k x Hk Hx Hne Hd). cbn [andb].
  split.
  - apply (tagged_out V (tcfg_of V tag tag_name forbid classes) x own); [exact Hx | exact Hfresh].
  - apply (tagged_in V veq veq_refl (tcfg_of V tag tag_name forbid (sub_members classes is_desc k)) x own).
    + intros a b Ha Hb. cbn in Ha, Hb. apply filter_In in Ha. apply filter_In in Hb. apply H_inj; tauto.
    + apply sub_members_nodup.
    + now apply sub_members_in.
    + exact Hfresh.
Qed.

(* ... and an instance of K itself structured as K, when K has configured descendants *)
Theorem sub_union_roundtrip_self k x own :
  In k classes -> In x classes -> x <> k -> is_desc x k = true -> ~ In tag_name (map fst own) ->
  un k k own = Ok (own ++ [(tag_name, tag k)]) /\
  st k (own ++ [(tag_name, tag k)]) = Ok (k, if forbid then own else own ++ [(tag_name, tag k)]).
Proof.
  intros Hk Hx Hne Hd Hfresh. unfold un_sub, st_sub.
  rewrite (configured_when k x Hk Hx Hne Hd), (mem_in k classes Hk), (two_members k x Hk Hx Hne Hd). cbn [andb].
  split.
  - apply (tagged_out V (tcfg_of V tag tag_name forbid classes) k own); [exact Hk | exact Hfresh].
  - apply (tagged_in V veq veq_refl (tcfg_of V tag tag_name forbid (sub_members classes is_desc k)) k own).
    + intros a b Ha Hb. cbn in Ha, Hb. apply filter_In in Ha. apply filter_In in Hb. apply H_inj; tauto.
    + apply sub_members_nodup.
    + apply sub_members_in; [exact Hk | apply H_refl].
    + exact Hfresh.
Qed.

(* a configured LEAF class structured as itself keeps its first-pass hook, which receives the payload WITH the tag its own
   unstructure hook added: under forbid_extra_keys that hook rejects it (finding F16) *)
Theorem sub_union_leaf k other own :
  In k classes -> In other classes -> has_subclasses classes is_desc is_child true other = true ->
  length (sub_members classes is_desc k) = 1%nat -> ~ In tag_name (map fst own) ->
  un k k own = Ok (own ++ [(tag_name, tag k)]) /\ st k (own ++ [(tag_name, tag k)]) = Ok (k, own ++ [(tag_name, tag k)]).
Proof.
  intros Hk Ho Hs Hl Hfresh. unfold un_sub, st_sub.
  assert (Hc : configured classes is_desc is_child true = true) by (unfold configured; apply existsb_exists; eauto).
  rewrite Hc, (mem_in k classes Hk), Hl. cbn [andb Nat.ltb Nat.leb]. split; [|reflexivity].
  apply (tagged_out V (tcfg_of V tag tag_name forbid classes) k own); [exact Hk | exact Hfresh].
Qed.

End SU.
