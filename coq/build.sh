#!/bin/sh
# full .vo build of the Coq project (never -vos); run from /verif/coq
set -e
cd "$(dirname "$0")"
ls Model/*.v Gen/*.v Proofs/*.v Props/*.v 2>/dev/null | sort > .files.new
if ! cmp -s .files.new .files 2>/dev/null || [ ! -f Makefile.coq ]; then
  mv .files.new .files
  ( cat _CoqProject.in; cat .files ) > _CoqProject
  coq_makefile -f _CoqProject -o Makefile.coq > /dev/null
fi
exec timeout ${COQ_TIMEOUT:-1500} make -f Makefile.coq -j${COQ_JOBS:-12} "$@"
