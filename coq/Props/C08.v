(* C08 -- caches are transparent: behaviour depends only on options and registrations. *)
From V.Model Require Import Base Dispatch Routing.
From V.Gen Require Import DispatchSrc ConvSrc.
From V.Proofs Require Import DispatchProofs RoutingProofs SrcObligations.

(* For the dispatch configuration and registration tables translated from the
   current source: on a converter of either class built with any options, any
   sequence of public-API operations -- registrations interleaved with any
   number of cached or uncached get-hook / structure / unstructure lookups --
   answers every later lookup, in either direction, exactly like the converter
   that received only the registrations.  Hypothesis: no user factory writes a
   hook other than the one it returns into the direct table (see the refutation
   below for what happens otherwise). *)
Theorem C08_transparent_partial :
  forall (W : world) (full : bool) (o : optmap) (us : list uop) (d : dir) (t : ty),
    Forall good_uop us ->
    conv_lookup W src_cfg (urun W src_cfg src_csrc (build W src_cfg src_csrc full o) us) d t =
    conv_lookup W src_cfg (urun W src_cfg src_csrc (build W src_cfg src_csrc full o) (filter is_ureg_op us)) d t.
Proof.
  intros. apply conv_cache_transparent; auto using src_lookup_order, src_func_reg_clears_direct,
    src_func_reg_clears_cache, src_cls_reg_clears_cache, src_route_un_ok, src_route_st_ok.
Qed.
Print Assumptions C08_transparent_partial.

(* every registration is visible to the very next lookup, also for a type already used *)
Theorem C08_immediate :
  forall (W : world) (full : bool) (o : optmap) (us : list uop) (d : dir) (t : ty) (u : uop),
    Forall good_uop (us ++ [UGet d t true; u]) ->
    conv_lookup W src_cfg (urun W src_cfg src_csrc (build W src_cfg src_csrc full o) (us ++ [UGet d t true; u])) d t =
    conv_lookup W src_cfg (urun W src_cfg src_csrc (build W src_cfg src_csrc full o) (filter is_ureg_op us ++ filter is_ureg_op [u])) d t.
Proof.
  intros. rewrite C08_transparent_partial by assumption. rewrite filter_app. reflexivity.
Qed.
Print Assumptions C08_immediate.

(* The full statement (no hypothesis on factories) is false of the code as it is
   (finding F8): a user factory wrapping one of Converter's gen_* methods leaves
   the inner hook in the direct table; a later unrelated lookup clears the lru
   cache and the inner hook surfaces. *)
Local Open Scope N_scope.
Definition f8_world : world := {|
  w_mro := fun _ => [];
  w_user := fun p t => Some (N.eqb p 1 && N.eqb t 100);
  w_init := fun i t => Some (Nat.eqb i 16%nat && (N.eqb t 100 || N.eqb t 101));
  w_is_union := fun _ => false; w_is_newtype := fun _ => false |}.
Definition f8_ops : list uop :=
  [URegFactory DUn 1 7 false (WOther (HInit 16%nat 100)); UGet DUn 100 true; UGet DUn 101 true].

Theorem C08_refuted_wrapping_factory :
  exists (W : world) (us : list uop) (d : dir) (t : ty),
    conv_lookup W src_cfg (urun W src_cfg src_csrc (build W src_cfg src_csrc true []) us) d t <>
    conv_lookup W src_cfg (urun W src_cfg src_csrc (build W src_cfg src_csrc true []) (filter is_ureg_op us)) d t.
Proof.
  exists f8_world, f8_ops, DUn, 100. vm_compute. discriminate.
Qed.

(* non-vacuity: a history with registrations of every kind interleaved with lookups meets the hypothesis *)
Example C08_nonvacuous :
  Forall good_uop [URegHook DSt 4 (HUser 1); UGet DSt 4 true; URegFunc DSt 1 (HUser 2); UGet DSt 100 false;
                   URegFactory DUn 1 7 true WSelf; UGet DUn 100 true; URegHook DUn 100 (HUser 3); UGet DUn 100 true]
  /\ conv_lookup f8_world src_cfg (urun f8_world src_cfg src_csrc (build f8_world src_cfg src_csrc true [])
       [URegFactory DUn 1 7 true WSelf; UGet DUn 100 true; URegFunc DUn 1 (HUser 9); UGet DUn 100 true]) DUn 100 = HUser 9.
Proof. split; [repeat constructor | vm_compute; reflexivity]. Qed.
Local Close Scope N_scope.

(* ---- what the CACHED hooks compute: generated class hooks and reference cycles (gen/__init__.py) ----
   The dispatch theorems above say WHICH hook a lookup returns.  A generated class hook additionally captures, at generation time,
   the hooks of its attributes -- except where a reference cycle forces late binding, and which attribute that is depends on the
   entry point of the first use (Model/LateBinding.v).  For the late binding translator T1 reads off the current source (the call
   keeps the declared type): for EVERY class graph, class c and value, the hooks generated for c under ANY two working sets -- from
   any two entry points, in any order of earlier calls, by any thread -- agree wherever both answer, and what they compute is the
   documented encoding of the value as c.  So caching whichever of them was generated first changes nothing (findings F34, F36). *)
From V.Model Require Import LateBinding.
From V.Gen Require Import LateSrc.
From V.Proofs Require Import LateBindingProofs.

Lemma src_late_binding_keeps_the_declared_type : src_late_unstructure_by_declared = true.
Proof. reflexivity. Qed.

Theorem C08_generated_hooks_do_not_depend_on_the_entry_point :
  forall (classes : N -> option (list (N * N))) (k1 k2 : nat) (ws1 ws2 : list N) (c : N) (n : nat) (v : lval) (r1 r2 : lout),
    hook_sem classes src_late_unstructure_by_declared k1 ws1 c n v = Some r1 ->
    hook_sem classes src_late_unstructure_by_declared k2 ws2 c n v = Some r2 ->
    r1 = r2 /\ spec classes n c v = Some r1.
Proof.
  intros classes k1 k2 ws1 ws2 c n v r1 r2. rewrite src_late_binding_keeps_the_declared_type. intros H1 H2.
  split; [exact (entry_point_irrelevant classes k1 k2 ws1 ws2 c n v r1 r2 H1 H2) | exact (hook_is_spec classes k1 ws1 c n v r1 H1)].
Qed.
Print Assumptions C08_generated_hooks_do_not_depend_on_the_entry_point.

(* with a late binding that dispatches on the class of the VALUE (the code before /repo 3399ab1; still the TypedDict generator, finding
   F35: src_td_late_unstructure_by_declared = false) the entry point matters *)
Theorem C08_runtime_class_late_binding_refuted :
  exists (classes : N -> option (list (N * N))) (ws1 ws2 : list N) (c : N) (v : lval) (r1 r2 : lout),
    hook_sem classes false 9 ws1 c 9 v = Some r1 /\ hook_sem classes false 9 ws2 c 9 v = Some r2 /\ r1 <> r2.
Proof.
  destruct runtime_class_late_binding_refuted as (ws1 & ws2 & r1 & r2 & H1 & H2 & Hne).
  exists lb_classes, ws1, ws2, 1%N, lb_value, r1, r2. auto.
Qed.
Print Assumptions C08_runtime_class_late_binding_refuted.
