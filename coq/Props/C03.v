(* C03 -- unstructured output is primitive-only (and the documented encoding). *)
From Coq Require Import Lia.
From V.Model Require Import Base Templates Conv ConvSpec ConvEnc.
From V.Gen Require Import GenSrc.
From V.Proofs Require Import TemplatesProofs ConvSound ConvPrim ConvEncProofs ConvCfg.

(* 1. For EVERY environment of classes and enums (enum values primitive), every type expression of the
      nested universe, EVERY value x of that type ([uval]: the container kinds and classes the type
      announces, instances of environment classes at every depth -- also at Any-typed / untyped positions,
      which are encoded by runtime class -- primitive literal values), the Converter under the dict AND the
      tuple strategy, either validation mode, any fuel: if unstructure returns u, then u is built only
      from dict, list, tuple, set, frozenset, None and atoms: no instance and no enum member survives at
      any depth. *)
Theorem C03_output_is_primitive :
  forall (E : env) (dv tup forbid : bool),
    (forall en v, In v (e_enum E en) -> primitive v = true) ->
    forall (n : nat) (t : ty) (x u : val),
      uval E x t -> unstructure E (mk_cfg true dv tup forbid) n t x = Ok u -> primitive u = true.
Proof. intros E dv tup forbid He. now apply unstructure_primitive. Qed.
Print Assumptions C03_output_is_primitive.

(* 1a. The same for BaseConverter, whose collection hooks go by the RUNTIME class of the elements and whose class hooks go by
      the declared attribute types: for every type it has an unstructure hook for ([base_ty]: heterogeneous tuples, NewTypes and
      Annotated are returned unchanged by its fallback -- outside its documented support -- at top level and as declared
      attribute types; inside collections the declared element type plays no part), every value of the type, either strategy. *)
Theorem C03_base_output_is_primitive :
  forall (E : env) (dv tup forbid : bool),
    (forall en v, In v (e_enum E en) -> primitive v = true) ->
    (forall c cd nm ft, e_class E c = Some cd -> assoc (cd_types cd) nm = Some ft -> base_ty ft = true) ->
    forall (n : nat) (t : ty) (x u : val),
      base_ty t = true -> uval E x t -> unstructure E (mk_cfg false dv tup forbid) n t x = Ok u -> primitive u = true.
Proof. intros E dv tup forbid He Henv. now apply base_unstructure_primitive. Qed.
Print Assumptions C03_base_output_is_primitive.

(* 1b. ... and equals the documented encoding.  [encodes] (Model/ConvEnc.v) is the documentation written down as a relation --
      no fuel, no hooks, no templates: classes become dicts keyed by attribute name in attribute order (tuples in attribute
      order under the tuple strategy), enums their values, sequences lists, heterogeneous tuples tuples, sets sets,
      mappings dicts with encoded keys and values, Optional / NewType / Annotated their underlying type.  For EVERY
      environment, every type expression, EVERY value of the type ([rt_value]), Converter under either strategy and either
      validation mode, any fuel: what unstructure returns is related to (t, x) by [encodes], at every depth.
      (Classes whose attributes are all __init__ arguments; forbid_extra_keys plays no part in unstructuring.) *)
Theorem C03_equals_documented_encoding :
  forall (E : env) (dv tup ann : bool),
    (forall c cd, e_class E c = Some cd ->
       wf val (topt (mk_cfg true dv tup false) c) nov (cd_fields cd) /\ (forall f, In f (cd_fields cd) -> f_init f = true)) ->
    forall (n : nat) (t : ty) (x u : val),
      rt_value E ann x t -> unstructure E (mk_cfg true dv tup false) n t x = Ok u -> encodes E tup t x u.
Proof.
  intros E dv tup ann Henv n t x u Hrt Hu.
  exact (unstructure_is_documented_encoding E (mk_cfg true dv tup false) ann eq_refl eq_refl Henv n t x u Hrt Hu).
Qed.
Print Assumptions C03_equals_documented_encoding.

(* 2. Class level, any payload value type, any options and overrides: every value a class hook emits is
      what the handler resolved for that attribute returned on the attribute's value (nothing is copied
      through unconverted), for the generated hook and both interpretive ones. *)
Theorem C03_class_values_generated :
  forall (V : Type) (veq : V -> V -> bool) (opt : topts) (ov : N -> fov) (hs : N -> V -> result V) (i : inst V) (fs : list (field V)) d,
    un_gen V veq opt ov hs fs i = Ok d -> Forall (fun kv => from_handler V hs i (snd kv)) d.
Proof. intros. eapply un_gen_vals; eassumption. Qed.
Theorem C03_class_values_interpretive :
  forall (V : Type) (hs : N -> V -> result V) (i : inst V) (fs : list (field V)),
    (forall d, un_interp_dict V hs fs i = Ok d -> Forall (fun kv => from_handler V hs i (snd kv)) d) /\
    (forall l, un_interp_tuple V hs fs i = Ok l -> Forall (from_handler V hs i) l).
Proof. intros. split; intros; [eapply un_interp_dict_vals | eapply un_interp_tuple_vals]; eassumption. Qed.
Print Assumptions C03_class_values_generated.
Print Assumptions C03_class_values_interpretive.

(* non-vacuity: a class holding an enum-keyed mapping of tuples with a set, a list of instances and an
   untyped attribute holding an instance (encoded by its runtime class) *)
Local Open Scope N_scope.
Definition p_fields : list (field val) :=
  [ {| f_name := 1; f_alias := 1; f_dflt := None; f_init := true; f_kw_only := false; f_kw_seen := false; f_conv := false |};
    {| f_name := 2; f_alias := 2; f_dflt := None; f_init := true; f_kw_only := false; f_kw_seen := false; f_conv := false |} ].
Definition p_cd : cdef := {| cd_fields := p_fields; cd_types := [(1, TDict (TEnum 0) (TTuple [TPrim PInt; TSet (TPrim PStr)]))] |}.
Definition p_env : env :=
  {| e_class := fun c => if N.eqb c 1 then Some p_cd else None;
     e_enum := fun en => if N.eqb en 0 then [VAtom PInt 20; VAtom PInt 21] else [];
     e_coerce := fun _ _ => Err EType; e_in := fun _ _ => Err EType; e_iter := fun _ => Err EType; e_len := fun _ => Err EType |}.
Definition p_x : val :=
  VInst 1 [(1, VDict [(VEnum 0 1, VTuple [VAtom PInt 4; VSet [VAtom PStr 8]])]); (2, VInst 1 [(1, VDict []); (2, VEnum 0 0)])].
Example C03_nonvacuous :
  unstructure p_env (mk_cfg true true false false) 9 (TClass 1) p_x
    = Ok (VDict [(VAtom PStr 1, VDict [(VAtom PInt 21, VTuple [VAtom PInt 4; VSet [VAtom PStr 8]])]);
                 (VAtom PStr 2, VDict [(VAtom PStr 1, VDict []); (VAtom PStr 2, VAtom PInt 20)])])
  /\ unstructure p_env (mk_cfg true true true false) 9 (TClass 1) p_x
    = Ok (VTuple [VDict [(VAtom PInt 21, VTuple [VAtom PInt 4; VSet [VAtom PStr 8]])]; VTuple [VDict []; VAtom PInt 20]]).
Proof. split; vm_compute; reflexivity. Qed.

(* the relation, used by hand on a small value: an enum-keyed mapping of heterogeneous tuples *)
Example C03_encoding_example :
  encodes p_env false (TDict (TEnum 0) (TTuple [TPrim PInt; TSet (TPrim PStr)]))
          (VDict [(VEnum 0 1, VTuple [VAtom PInt 4; VSet [VAtom PStr 8]])])
          (VDict [(VAtom PInt 21, VTuple [VAtom PInt 4; VSet [VAtom PStr 8]])]).
Proof.
  eapply EnDict with (ps := [(VAtom PInt 21, VTuple [VAtom PInt 4; VSet [VAtom PStr 8]])]); [|reflexivity].
  constructor; [|constructor]. split; cbn [fst snd].
  - apply EnEnum. reflexivity.
  - apply EnTuple; [reflexivity|]. cbn [combine]. constructor; [apply EnPrim|]. constructor; [|constructor]. cbn [fst snd].
    eapply EnSet with (r := [VAtom PStr 8]); [|reflexivity]. constructor; [apply EnPrim | constructor].
Qed.
