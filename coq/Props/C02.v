(* C02 -- structuring is sound: on ANY input, structure either raises or returns a value that conforms
   to the requested type at every depth. *)
From Coq Require Import Lia.
From V.Model Require Import Base Templates Conv ConvSpec.
From V.Gen Require Import GenSrc.
From V.Proofs Require Import TemplatesProofs SrcObligationsGen ClassSound ConvSound ConvCfg.

(* [mk_cfg gen dv tuple forbid] (Proofs/ConvCfg.v): the configuration of a converter, with the template flags
   translator T1 read off the current source *)

(* 1. Soundness.  For EVERY environment of classes and enums, every type expression (any nesting of
      Any, primitives, enums, literals, lists / sequences, homogeneous and heterogeneous tuples, sets,
      frozensets, mappings, Optional, classes incl. recursive ones, NewType, Annotated), EVERY input value o
      whatsoever (valid payloads, corrupted ones, junk), Converter and BaseConverter ([gen]), both
      validation modes ([dv]), forbid_extra_keys on or off, and every amount of fuel: if structure
      returns v, then v conforms to t: exact classes, every element / key / value / attribute conforming,
      literals in their value set, tuples of exact arity.
      Assumed of Python, not of cattrs: the primitive constructors int()/float()/str()/bytes()/bool()
      return instances of their own class; len() and iter() of an object agree; and the classes are
      classes attrs / dataclasses can create (distinct names and aliases, mandatory positional attributes
      first) whose defaults conform to their own annotations.  Dict strategy; the tuple strategy is item 3. *)
Theorem C02_structure_sound :
  forall (E : env) (gen dv tup forbid : bool),
    (tup = true -> src_tuple_by_kw = true) ->
    (forall p o v, e_coerce E p o = Ok v -> exists e, v = VAtom p e) ->
    (forall v l k, e_iter E v = Ok l -> e_len E v = Ok k -> length l = k) ->
    (forall c cd, e_class E c = Some cd -> class_ok E (mk_cfg gen dv tup forbid) c cd) ->
    forall (n : nat) (t : ty) (o v : val),
      structure E (mk_cfg gen dv tup forbid) n t o = Ok v -> conforms E v t.
Proof.
  intros E gen dv tup forbid Ht H1 H2 H3.
  apply structure_sound; [assumption | assumption | assumption | exact Ht | apply mk_cfg_recheck | apply mk_cfg_kw_last].
Qed.
Print Assumptions C02_structure_sound.

(* for the current source the side-condition of the tuple strategy holds (obligation src_tuple_passes_kw_only_by_keyword) *)
Theorem C02_structure_sound_both_strategies :
  forall (E : env) (gen dv tup forbid : bool),
    (forall p o v, e_coerce E p o = Ok v -> exists e, v = VAtom p e) ->
    (forall v l k, e_iter E v = Ok l -> e_len E v = Ok k -> length l = k) ->
    (forall c cd, e_class E c = Some cd -> class_ok E (mk_cfg gen dv tup forbid) c cd) ->
    forall (n : nat) (t : ty) (o v : val),
      structure E (mk_cfg gen dv tup forbid) n t o = Ok v -> conforms E v t.
Proof. intros E gen dv tup forbid. apply C02_structure_sound. intros _. exact src_tuple_passes_kw_only_by_keyword. Qed.
Print Assumptions C02_structure_sound_both_strategies.

(* 2. "Never silently drops, defaults or passes through an invalid component": an accepted sequence
      payload is structured element by element -- same length, each output element is exactly what the
      element type's hook returned for the input element at that position. *)
Theorem C02_list_elementwise :
  forall (E : env) (cfg : ccfg) (n : nat) (t : ty) (o v : val),
    is_any t = false ->
    structure E cfg (S n) (TList t) o = Ok v ->
    exists l r, iter_val E o = Ok l /\ v = VList r /\ Forall2 (fun x y => structure E cfg n t x = Ok y) l r.
Proof.
  intros E cfg n t o v Ha H. cbn [structure] in H.
  destruct (iter_val E o) as [l| |]; cbn [bind] in H; try discriminate. rewrite Ha in H.
  destruct (coll cfg (structure E cfg n t) l) as [r| |] eqn:Ec; cbn [bind] in H; try discriminate.
  inversion H; subst. exists l, r. repeat split. eapply coll_ok; exact Ec.
Qed.
Print Assumptions C02_list_elementwise.

(* ... and every attribute of an accepted instance is either the attribute's default or what the
   attribute's OWN handler returned (never another attribute's value, never the raw input), for the
   generated detailed and fast templates and the interpretive dict template, any class, options and
   overrides, any payload object: *)
Theorem C02_class_attributes_detailed :
  forall (V : Type) (K : N -> V -> result V), (forall n v, K n v = Ok v) ->
  forall (opt : topts) (ov : N -> fov) (hs : N -> V -> result V) (fs : list (field V)) (o : pobj V) (i : inst V),
    NoDup (map f_alias fs) -> NoDup (map f_name fs) ->
    tpl_detailed V K opt ov hs src_recheck fs o = Ok i ->
    forall nm v, assoc i nm = Some v -> entry_ok V hs fs nm v.
Proof. intros V K HK opt ov hs fs o i. rewrite src_detailed_rechecks_errors. now apply detailed_sound. Qed.
Theorem C02_class_attributes_fast :
  forall (V : Type) (K : N -> V -> result V), (forall n v, K n v = Ok v) ->
  forall (opt : topts) (ov : N -> fov) (hs : N -> V -> result V) (fs : list (field V)) (o : pobj V) (i : inst V),
    wf V opt ov fs ->
    tpl_fast V K opt ov hs src_kw_last fs o = Ok i ->
    forall nm v, assoc i nm = Some v -> entry_ok V hs fs nm v.
Proof. intros V K HK opt ov hs fs o i. rewrite src_fast_kw_last. now apply fast_sound. Qed.
Theorem C02_class_attributes_interpretive :
  forall (V : Type) (K : N -> V -> result V), (forall n v, K n v = Ok v) ->
  forall (hs : N -> V -> result V) (fs : list (field V)) (o : pobj V) (i : inst V),
    NoDup (map f_alias fs) ->
    tpl_interp_dict V K hs fs o = Ok i ->
    forall nm v, assoc i nm = Some v -> entry_ok V hs fs nm v.
Proof. intros V K HK hs fs o i. now apply interp_dict_sound. Qed.
Print Assumptions C02_class_attributes_detailed.
Print Assumptions C02_class_attributes_fast.
Print Assumptions C02_class_attributes_interpretive.

(* 3. Passing everything positionally under the tuple strategy (finding F27, the code before its repair) is
      UNSOUND: a kw_only attribute is not a positional parameter, so a later value lands on the wrong attribute.  Witness: class K(a: str = "d" (kw_only),
      b: int), payload ["x"]: accepted, and b holds the str. *)
Local Open Scope N_scope.
Definition w_coerce (p : prim) (o : val) : result val :=
  match o with VAtom k e => if prim_eqb k p then Ok o else Err EValue | _ => Err EType end.
Definition w_fields : list (field val) :=
  [ {| f_name := 1; f_alias := 1; f_dflt := Some (VAtom PStr 8); f_init := true; f_kw_only := true; f_kw_seen := true; f_conv := false |};
    {| f_name := 2; f_alias := 2; f_dflt := None; f_init := true; f_kw_only := false; f_kw_seen := false; f_conv := false |} ].
Definition w_cd : cdef := {| cd_fields := w_fields; cd_types := [(1, TPrim PStr); (2, TPrim PInt)] |}.
Definition w_env : env :=
  {| e_class := fun c => if N.eqb c 1 then Some w_cd else None; e_enum := fun _ => []; e_coerce := w_coerce;
     e_in := fun _ _ => Err EType; e_iter := fun _ => Err EType; e_len := fun _ => Err EType |}.

Lemma w_coerce_ok : forall p o v, w_coerce p o = Ok v -> exists e, v = VAtom p e.
Proof.
  intros p o v. unfold w_coerce. destruct o; try discriminate. destruct (prim_eqb k p) eqn:Ek; [|discriminate].
  intros H. inversion H; subst. exists e. destruct k, p; try discriminate; reflexivity.
Qed.

Lemma w_class_ok cfg : forall c cd, e_class w_env c = Some cd -> class_ok w_env cfg c cd.
Proof.
  intros c cd H. cbn in H. destruct (N.eqb c 1); [|discriminate]. inversion H; subst cd. split.
  - constructor; cbn.
    + repeat constructor; cbn; intuition discriminate.
    + repeat constructor; cbn; intuition discriminate.
    + intros f [<-|[<-|[]]]; reflexivity.
    + reflexivity.
    + intros f [<-|[<-|[]]]; cbn; intros; reflexivity.
  - intros f d [<-|[<-|[]]]; cbn; intros Hd; inversion Hd; subst. constructor.
Qed.

Definition positional_tuple_cfg (gen dv : bool) : ccfg :=
  {| c_gen := gen; c_dv := dv; c_tuple := true; c_forbid := false; c_recheck := true; c_kw_last := true; c_tuple_kw := false |}.
Theorem C02_refuted_positional_tuple_strategy :
  exists (E : env) (gen dv : bool) (t : ty) (o v : val),
    (forall p o v, e_coerce E p o = Ok v -> exists e, v = VAtom p e) /\
    (forall v l k, e_iter E v = Ok l -> e_len E v = Ok k -> length l = k) /\
    (forall c cd, e_class E c = Some cd -> class_ok E (positional_tuple_cfg gen dv) c cd) /\
    structure E (positional_tuple_cfg gen dv) 5 t o = Ok v /\ ~ conforms E v t.
Proof.
  exists w_env, true, false, (TClass 1), (VList [VAtom PStr 9]), (VInst 1 [(1, VAtom PStr 8); (2, VAtom PStr 9)]).
  split; [exact w_coerce_ok|]. split; [intros v l k H; discriminate|]. split; [apply w_class_ok|].
  split; [vm_compute; reflexivity|].
  intros C. inversion C as [| | | | | | | | | | | |c cd i Hc Ha| |]; subst.
  cbn in Hc. inversion Hc; subst cd.
  destruct (Ha 2 (VAtom PStr 9) eq_refl) as (_ & Hbad). cbn in Hbad. inversion Hbad.
Qed.
Print Assumptions C02_refuted_positional_tuple_strategy.

(* non-vacuity of item 1: the same class under the dict strategy; a nested payload (a list of two
   instances, one given by a default) is accepted, one with a corrupted leaf is rejected in both modes *)
Example C02_nonvacuous :
  structure w_env (mk_cfg true true false false) 6 (TList (TClass 1))
            (VList [VDict [(VAtom PStr 2, VAtom PInt 7)]; VDict [(VAtom PStr 1, VAtom PStr 3); (VAtom PStr 2, VAtom PInt 0)]])
    = Ok (VList [VInst 1 [(1, VAtom PStr 8); (2, VAtom PInt 7)]; VInst 1 [(1, VAtom PStr 3); (2, VAtom PInt 0)]])
  /\ is_ok (structure w_env (mk_cfg true true false false) 6 (TList (TClass 1)) (VList [VDict [(VAtom PStr 2, VAtom PStr 7)]])) = false
  /\ is_ok (structure w_env (mk_cfg false false false false) 6 (TList (TClass 1)) (VList [VDict [(VAtom PStr 2, VAtom PStr 7)]])) = false.
Proof. vm_compute. repeat split. Qed.

(* ---- TypedDicts (gen/typeddicts.py), no overrides ----
   For EVERY TypedDict definition, handlers and dict payload, whatever either template accepts: every
   required key is present, and every declared key that is present holds the result of its handler applied
   to the payload's value (so conformance of the parts carries over); every other key holds the payload's
   own value.  The last clause is where the property fails for TypedDicts: undeclared keys are passed
   through (finding F4, open; C10_typeddict_unknown_keys_change_outcome_refuted has the witness). *)
From V.Model Require Import TdTemplates.
From V.Proofs Require Import TdProofs.
Theorem C02_typeddict_result :
  forall (V : Type) (opt : tdopts) (hs : N -> V -> result V) (d : list (N * V)) (fs : list tdfield) r,
    NoDup (keys d) ->
    (to_opt (td_detailed V opt (fun _ => neutral) hs fs (dict_obj d)) = Some (Some r) \/
     to_opt (td_fast V opt (fun _ => neutral) hs fs (dict_obj d)) = Some (Some r)) ->
    keys r = keys d /\
    (forall f, In f fs -> d_required f = true -> In (d_name f) (keys r)) /\
    (forall k v, assoc d k = Some v ->
       if mem_N k (map d_name fs) then exists w, hs k v = Ok w /\ assoc r k = Some w
       else assoc r k = Some v).
Proof.
  intros V opt hs d fs r Hnd H.
  rewrite (td_detailed_refines_spec V opt hs d Hnd fs), (td_fast_refines_spec V opt hs d Hnd fs) in H.
  assert (Hs : td_spec V opt hs d fs = Some r).
  { destruct (td_spec V opt hs d fs) as [x|]; cbn in H; destruct H as [H|H]; congruence. }
  split; [exact (td_spec_keys V opt hs d fs r Hs)|]. split.
  - intros f Hin Hr. exact (td_spec_required V opt hs d fs r f Hs Hin Hr).
  - intros k v Ha. destruct (td_spec_values V opt hs d fs r k v Hs Ha) as [H1 H2].
    destruct (mem_N k (map d_name fs)) eqn:Hm; [|exact H1].
    specialize (H2 eq_refl). unfold nv in H1. destruct (hs k v) as [w| |]; try discriminate. now exists w.
Qed.
Print Assumptions C02_typeddict_result.
