(* C17 -- generic classes behave like their monomorphised copies. *)
From V.Model Require Import Base Generics.
From V.Proofs Require Import GenericsProofs.

(* cattrs resolves the annotation of an attribute of G[args] by building a TypeVar-NAME -> argument
   mapping (generate_mapping) and rewriting the annotation by name (deep_copy_with); the
   monomorphised copy substitutes by TypeVar identity.  For EVERY parameter list with pairwise
   distinct names, every tuple of concrete arguments, and every annotation -- the parameter bare,
   inside containers, Optional, nested generics, Annotated inside a container, to any depth -- whose
   TypeVars are parameters of the class and that mentions no class named like a parameter, the two
   coincide. *)
Theorem C17_annotations_monomorphised :
  forall (params : list (N * N)) (args : list gty) (t : gty),
    NoDup (map snd params) -> NoDup (map fst params) -> Forall concrete args ->
    scoped params t -> (forall t' m, t <> GAnnot t' m) ->
    resolve_field (zip_mapping params args []) t = subst_id (zip_env params args) t.
Proof. intros. now apply resolve_field_is_subst. Qed.
Print Assumptions C17_annotations_monomorphised.

(* the same for a class deriving from a concretely parametrised base, Child(Base[int]) *)
Theorem C17_inherited_from_concrete_base :
  forall (bparams : list (N * N)) (bargs : list gty) (t : gty),
    NoDup (map snd bparams) -> NoDup (map fst bparams) -> Forall concrete bargs ->
    scoped bparams t -> (forall t' m, t <> GAnnot t' m) ->
    resolve_field (class_mapping {| g_params := []; g_base := Some (bparams, bargs) |} []) t =
    subst_id (class_env {| g_params := []; g_base := Some (bparams, bargs) |} []) t.
Proof.
  intros. cbn [class_mapping class_env g_params g_base zip_mapping zip_env app].
  assert (E : map (subst_id []) bargs = bargs).
  { clear. induction bargs as [|a l IH]; [reflexivity|]. cbn. rewrite IH. f_equal.
    induction a using gty_ind'; cbn; try reflexivity.
    - f_equal. induction args as [|x xs IHx]; [reflexivity|]. inversion H; subst. cbn. now rewrite H2, IHx.
    - now rewrite IHa. }
  rewrite E. now apply resolve_field_is_subst.
Qed.
Print Assumptions C17_inherited_from_concrete_base.

(* Where the hypotheses fail, so does the statement -- each refutation is a finding replayed on the
   implementation by the GEN lane. *)
Local Open Scope N_scope.
(* F14: Child(Base[int], Generic[T]) where Base's own parameter is also called T: Child[str].z : T is read as int *)
Theorem C17_refuted_name_reuse :
  exists g args t, resolve_field (class_mapping g args) t <> subst_id (class_env g args) t.
Proof.
  exists {| g_params := [(1, 100)]; g_base := Some ([(2, 100)], [GCls 7]) |}, [GCls 8], (GVar 1 100).
  vm_compute. discriminate.
Qed.
(* F13: a CLASS whose __name__ equals a parameter's name is rewritten too *)
Theorem C17_refuted_class_named_like_typevar :
  exists params args t, resolve_field (zip_mapping params args []) t <> subst_id (zip_env params args) t.
Proof. exists [(1, 100)], [GCls 8], (GApp 5 [GCls 100]). vm_compute. discriminate. Qed.
(* F25: an annotation that IS Annotated[T, ...] is not rewritten at all *)
Theorem C17_refuted_top_level_annotated :
  exists params args t, resolve_field (zip_mapping params args []) t <> subst_id (zip_env params args) t.
Proof. exists [(1, 100)], [GCls 8], (GAnnot (GVar 1 100) 0). vm_compute. discriminate. Qed.
(* F26: Child(Base[T], Generic[T]) with Base(Generic[U]): U is never bound *)
Theorem C17_refuted_base_parametrised_by_typevar :
  exists g args t, resolve_field (class_mapping g args) t <> subst_id (class_env g args) t.
Proof.
  exists {| g_params := [(1, 100)]; g_base := Some ([(2, 200)], [GVar 1 100]) |}, [GCls 8], (GVar 2 200).
  vm_compute. discriminate.
Qed.

(* non-vacuity: G[int, str] with xs: Dict[str, List[Optional[T]]], y: Annotated-inside-a-list, z: Inner[U] *)
Example C17_nonvacuous :
  let params := [(1, 100); (2, 200)] in let args := [GCls 8; GCls 9] in
  resolve_field (zip_mapping params args []) (GApp 20 [GCls 9; GApp 21 [GApp 22 [GVar 1 100; GOpaque 0]]])
    = GApp 20 [GCls 9; GApp 21 [GApp 22 [GCls 8; GOpaque 0]]]
  /\ resolve_field (zip_mapping params args []) (GApp 21 [GAnnot (GVar 1 100) 5]) = GApp 21 [GAnnot (GCls 8) 5]
  /\ resolve_field (zip_mapping params args []) (GApp 30 [GVar 2 200]) = GApp 30 [GCls 9].
Proof. vm_compute. repeat split. Qed.
