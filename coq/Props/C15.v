(* C15 -- union passthrough validates by exact class or literal value, order-independent. *)
From V.Model Require Import Base Passthrough.
From V.Gen Require Import UnionsSrc.
From V.Proofs Require Import PassthroughProofs.
From Coq Require Import Permutation.

(* tie obligation: the source checks literals as (class, value) pairs (fixed finding F6) *)
Lemma src_literals_checked_as_pairs : src_lit_pairs = true.
Proof. reflexivity. Qed.

(* For every subclass relation, configured class set S, union U (classes, NewTypes, literals,
   spill-over members, any number and order) and every value v = (class, equality class):
   the hook returns v itself exactly when v's class is an accepted member of U (a configured
   subclass of a member counts) or v is a literal of U of the same class and value; otherwise
   the value goes to exactly the members the strategy does not handle, or is rejected when
   there are none.  [Pass] IS "returns v itself, uncoerced": the model hook has no other way
   to produce a value. *)
Theorem C15_rule :
  forall (sub : N -> N -> bool) (S : list N) (U : list member) (v : atom),
    structure_native sub S src_lit_pairs U v = doc_outcome sub S U v.
Proof. intros. rewrite src_literals_checked_as_pairs. apply native_is_doc. Qed.
Print Assumptions C15_rule.

(* the outcome is the same for every ordering of U's members (spill-over compared as a set) *)
Theorem C15_order_independent :
  forall (sub : N -> N -> bool) (S : list N) (U U' : list member) (v : atom),
    Permutation U U' ->
    outcome_same (structure_native sub S src_lit_pairs U v) (structure_native sub S src_lit_pairs U' v) = true.
Proof. intros. now apply native_order_independent. Qed.
Print Assumptions C15_order_independent.

(* what the unfixed check (class and value tested independently) did: the rule only for
   "rectangular" literal sets -- and a counterexample otherwise (finding F6, now fixed) *)
Theorem C15_unpaired_partial :
  forall sub S U v, rectangular sub S U -> structure_native sub S false U v = doc_outcome sub S U v.
Proof. intros. now apply native_unpaired_is_doc_partial. Qed.

Local Open Scope N_scope.
(* classes: 1 = str, 2 = bool, 3 = int; equality classes: 10 = {0, False}, 11 = {1, True} *)
Theorem C15_unpaired_refuted_lookalike :
  exists sub S U v, structure_native sub S false U v <> doc_outcome sub S U v.
Proof.
  exists (fun a c => N.eqb a c), [1; 2; 3], [MLit [(3, 11)]; MLit [(2, 10)]; MCls 1], (2, 11).
  vm_compute. discriminate.
Qed.

(* non-vacuity: a union with literals, a NewType, a subclass and a spill-over member *)
Example C15_nonvacuous :
  let sub := fun a c => N.eqb a c || (N.eqb a 2 && N.eqb c 3) in   (* bool is a subclass of int *)
  let S := [1; 2; 3] in
  let U := [MLit [(1, 20); (3, 11)]; MNewType 50 3; MCls 9] in     (* Literal["a", 1] | NewType(int) | SomeClass *)
  structure_native sub S src_lit_pairs U (1, 20) = Pass /\          (* "a" *)
  structure_native sub S src_lit_pairs U (1, 21) = Delegate [MCls 9] /\  (* "b": not a literal, str not a member *)
  structure_native sub S src_lit_pairs U (2, 11) = Pass /\          (* True: bool is a configured subclass of int *)
  structure_native sub S src_lit_pairs [MLit [(3, 11)]; MCls 1] (2, 11) = Reject.   (* True vs Literal[1] | str *)
Proof. vm_compute. repeat split. Qed.
