(* C04 -- detailed_validation changes only error reporting, never acceptance or results. *)
From V.Model Require Import Base Templates.
From V.Gen Require Import GenSrc.
From V.Model Require Import Conv.
From V.Proofs Require Import TemplatesProofs SrcObligationsGen ConvAgree ConvCfg.

(* tie obligation (fixed finding F43): the TypedDict structure generator binds a reference cycle late in BOTH validation modes -- every
   attribute hook lookup catches the RecursionError that signals "already being generated" (the fast branch used not to, and a
   TypedDict reaching itself through a mapping could be structured in detailed mode only) *)
Lemma src_td_structure_binds_cycles_late_in_both_modes : src_td_structure_lookups_catch_cycles = true.
Proof. reflexivity. Qed.

(* Class level, for the template flags translated from the current source.
   For EVERY payload value type V, field converter K, class definition fs
   (any number, order and mix of required / defaulted / factory / kw_only /
   init=False / aliased attributes), generator options, per-attribute
   overrides, per-attribute handlers hs (whatever the nested types do) and
   EVERY payload object o -- a dict or arbitrary junk, seen through the
   operations the generated code performs on it -- the detailed-validation hook
   and the fast hook either both reject, or both accept and build instances
   with equal attributes.  [wf] are the conditions under which the class and
   the customisation exist at all: distinct names and aliases, mandatory
   positional attributes before defaulted ones (attrs and dataclasses refuse
   anything else), the generator sees the real kw_only flags, and no override
   omits a mandatory __init__ argument. *)
Theorem C04_templates_agree :
  forall (V : Type) (K : N -> V -> result V) (opt : topts) (ov : N -> fov) (hs : N -> V -> result V)
         (fs : list (field V)) (o : pobj V),
    wf V opt ov fs ->
    agree (inst_equiv V)
          (to_opt (tpl_detailed V K opt ov hs src_recheck fs o))
          (to_opt (tpl_fast V K opt ov hs src_kw_last fs o)).
Proof.
  intros. rewrite src_detailed_rechecks_errors, src_fast_kw_last. now apply templates_agree.
Qed.
Print Assumptions C04_templates_agree.

(* creating the hook succeeds in one mode exactly when it succeeds in the other:
   the detailed template always compiles, and so does the fast one *)
Theorem C04_generation :
  forall (V : Type) (opt : topts) (ov : N -> fov) (fs : list (field V)),
    fast_compiles V opt ov src_kw_last fs = true.
Proof. intros. rewrite src_fast_kw_last. reflexivity. Qed.
Print Assumptions C04_generation.

(* Nested.  For EVERY environment of classes (attributes all __init__ arguments) and enums, every type
   expression of the nested universe (Model/Conv.v), EVERY input whatsoever and every amount of fuel: the
   same converter class with detailed validation on and off either both reject the input or both accept it
   with the same result -- through every collection loop (whose detailed and fast variants check things in
   a different order), heterogeneous tuples, mappings, Optional, NewType, Annotated and classes at any
   depth, with forbid_extra_keys on or off (on: also whether the input is rejected for an unknown key at any class position --
   the TypeError raised while the error message is built for a non-str key included). *)
Theorem C04_nested_modes_agree :
  forall (E : env) (gen dv1 dv2 forbid : bool),
    (forall c cd, e_class E c = Some cd ->
       wf val (topt (mk_cfg gen dv1 false forbid) c) nov (cd_fields cd) /\ (forall f, In f (cd_fields cd) -> f_init f = true)) ->
    forall (n : nat) (t : ty) (o : val),
      to_opt (structure E (mk_cfg gen dv1 false forbid) n t o) = to_opt (structure E (mk_cfg gen dv2 false forbid) n t o).
Proof.
  intros E gen dv1 dv2 forbid Henv n t o.
  apply structure_agree; [reflexivity | reflexivity | reflexivity | intros X; exfalso; apply X; reflexivity | apply mk_cfg_recheck | apply mk_cfg_recheck
                          | apply mk_cfg_kw_last | apply mk_cfg_kw_last | exact Henv | left; reflexivity].
Qed.
Print Assumptions C04_nested_modes_agree.

(* non-vacuity: kw_only before positional, a default, an init=False attribute, a converter;
   a payload both accept, and one (bad value for the init=False attribute) both reject *)
Local Open Scope N_scope.
Definition c04_fs : list (field N) :=
  [ {| f_name := 1; f_alias := 1; f_dflt := None; f_init := true; f_kw_only := true; f_kw_seen := true; f_conv := false |};
    {| f_name := 2; f_alias := 2; f_dflt := None; f_init := true; f_kw_only := false; f_kw_seen := false; f_conv := true |};
    {| f_name := 3; f_alias := 3; f_dflt := Some 7; f_init := true; f_kw_only := false; f_kw_seen := false; f_conv := false |};
    {| f_name := 4; f_alias := 4; f_dflt := None; f_init := false; f_kw_only := false; f_kw_seen := false; f_conv := false |} ].
Definition c04_opt := {| t_cl := 9; t_forbid := true; t_use_alias := false; t_incl_init_false := true; t_omit_if_default := false |}.
Definition c04_hs (n v : N) : result N := if N.ltb v 50 then Ok (1000 * n + v) else Err EValue.
Definition c04_K (n v : N) : result N := Ok (v + 500000).

Example C04_nonvacuous_wf : wf N c04_opt (fun _ => neutral) c04_fs.
Proof.
  constructor; cbn.
  - repeat constructor; cbn; intuition discriminate.
  - repeat constructor; cbn; intuition discriminate.
  - intros f [H|[H|[H|[H|[]]]]]; subst; reflexivity.
  - reflexivity.
  - intros f [H|[H|[H|[H|[]]]]]; subst; cbn; intros; try reflexivity; discriminate.
Qed.
Example C04_nonvacuous_runs :
  tpl_fast N c04_K c04_opt (fun _ => neutral) c04_hs src_kw_last c04_fs (dict_obj [(2, 5); (1, 6); (4, 8)])
    = Ok [(1, 1006); (2, 502005); (3, 7); (4, 4008)]
  /\ is_ok (tpl_detailed N c04_K c04_opt (fun _ => neutral) c04_hs src_recheck c04_fs (dict_obj [(2, 5); (1, 6); (4, 80)])) = false
  /\ is_ok (tpl_fast N c04_K c04_opt (fun _ => neutral) c04_hs src_kw_last c04_fs (dict_obj [(2, 5); (1, 6); (4, 80)])) = false.
Proof. vm_compute. repeat split. Qed.

(* ---- TypedDicts (gen/typeddicts.py), the templates a converter generates on its own (no overrides) ----
   For EVERY payload value type, per-key handlers hs, TypedDict definition fs (any mix of required and
   NotRequired keys), generator options, and EVERY dict payload d: the detailed-validation template and
   the fast one either both reject, or both accept and return the same dict -- same keys, same order,
   same values.  (The two templates process the keys in a different order: required first in the fast
   one.) *)
From V.Model Require Import TdTemplates.
From V.Proofs Require Import TdProofs.
Theorem C04_typeddict_templates_agree :
  forall (V : Type) (opt : tdopts) (hs : N -> V -> result V) (d : list (N * V)) (fs : list tdfield),
    NoDup (keys d) ->
    to_opt (td_detailed V opt (fun _ => neutral) hs fs (dict_obj d))
    = to_opt (td_fast V opt (fun _ => neutral) hs fs (dict_obj d)).
Proof. intros V opt hs d fs Hnd. exact (td_templates_agree V opt hs d Hnd fs). Qed.
Print Assumptions C04_typeddict_templates_agree.

(* the restriction to dict payloads is necessary: on a non-mapping object that has .copy() (a list), a
   TypedDict without required keys is accepted by the fast template and rejected by the detailed one
   (finding F11, open) *)
Definition c04_list_obj : pobj N :=
  {| o_in := fun _ => Ok false; o_get := fun _ => Err EType; o_keys := Err EAttr; o_iter := Ok [];
     o_is_mapping := false; o_copy := Ok None |}.
Theorem C04_typeddict_nonmapping_refuted :
  exists (opt : tdopts) (hs : N -> N -> result N) (fs : list tdfield) (o : pobj N),
    is_ok (td_fast N opt (fun _ => neutral) hs fs o) = true /\
    is_ok (td_detailed N opt (fun _ => neutral) hs fs o) = false.
Proof.
  exists {| td_cl := 1; td_forbid := false; td_skip_self_rename := true |}, (fun _ v => Ok v),
         [{| d_name := 1; d_required := false |}], c04_list_obj.
  vm_compute. split; reflexivity.
Qed.
Print Assumptions C04_typeddict_nonmapping_refuted.

Definition c04_td : list tdfield :=
  [ {| d_name := 1; d_required := false |}; {| d_name := 2; d_required := true |}; {| d_name := 3; d_required := true |} ].
Definition c04_tdopt := {| td_cl := 9; td_forbid := false; td_skip_self_rename := true |}.
Example C04_typeddict_nonvacuous :
  td_fast N c04_tdopt (fun _ => neutral) c04_hs c04_td (dict_obj [(3, 5); (8, 70); (1, 6); (2, 7)])
    = Ok (Some [(3, 3005); (8, 70); (1, 1006); (2, 2007)])
  /\ td_detailed N c04_tdopt (fun _ => neutral) c04_hs c04_td (dict_obj [(3, 5); (8, 70); (1, 6); (2, 7)])
    = Ok (Some [(3, 3005); (8, 70); (1, 1006); (2, 2007)])
  /\ is_ok (td_fast N c04_tdopt (fun _ => neutral) c04_hs c04_td (dict_obj [(3, 5); (1, 60); (2, 7)])) = false
  /\ is_ok (td_detailed N c04_tdopt (fun _ => neutral) c04_hs c04_td (dict_obj [(3, 5); (1, 60); (2, 7)])) = false
  /\ is_ok (td_fast N c04_tdopt (fun _ => neutral) c04_hs c04_td (dict_obj [(3, 5)])) = false
  /\ is_ok (td_detailed N c04_tdopt (fun _ => neutral) c04_hs c04_td (dict_obj [(3, 5)])) = false.
Proof. vm_compute. repeat split. Qed.
