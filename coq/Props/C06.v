(* C06 -- the generated-code Converter and the interpretive BaseConverter agree. *)
From Coq Require Import Lia.
From V.Model Require Import Base Templates Conv ConvSpec.
From V.Gen Require Import GenSrc.
From V.Proofs Require Import ConvUnAgree TemplatesProofs SrcObligationsGen ClassRoundtrip ConvSound ConvRoundtrip ConvAgree ConvCfg.

(* 1. Class level, structuring.  For every payload value type, every class whose attributes are all
      __init__ arguments (any number / order / mix of required, defaulted, kw_only, aliased attributes,
      field converters), converter-default options, EVERY per-attribute handlers (whatever the nested
      types do) and EVERY dict payload (missing, extra, badly typed entries included): BaseConverter's
      structure_attrs_fromdict accepts exactly what the specification of the generated hooks accepts and
      builds the same instance ... *)
Theorem C06_interpretive_is_spec :
  forall (V : Type) (K : N -> V -> result V) (opt : topts),
    t_use_alias opt = false -> t_forbid opt = false ->
    forall (hs : N -> V -> result V) (fs : list (field V)),
      wf V opt (fun _ => neutral) fs -> (forall f, In f fs -> f_init f = true) ->
      forall d : list (N * V),
        to_opt (tpl_interp_dict V K hs fs (dict_obj d)) = spec_struct V K opt (fun _ => neutral) hs fs (dict_obj d).
Proof. intros. now apply interp_refines_spec. Qed.
Print Assumptions C06_interpretive_is_spec.

(* ... which is the specification both generated templates refine (C04 / C10), so on every dict payload
   the three code paths either all reject or all accept with attribute-wise equal instances: *)
Theorem C06_class_agreement :
  forall (V : Type) (K : N -> V -> result V) (opt : topts),
    t_use_alias opt = false -> t_forbid opt = false ->
    forall (hs : N -> V -> result V) (fs : list (field V)),
      wf V opt (fun _ => neutral) fs -> (forall f, In f fs -> f_init f = true) ->
      forall d : list (N * V),
        to_opt (tpl_interp_dict V K hs fs (dict_obj d)) = to_opt (tpl_detailed V K opt (fun _ => neutral) hs src_recheck fs (dict_obj d)) /\
        agree (inst_equiv V) (to_opt (tpl_fast V K opt (fun _ => neutral) hs src_kw_last fs (dict_obj d)))
                             (to_opt (tpl_interp_dict V K hs fs (dict_obj d))).
Proof.
  intros V K opt Ha Hf hs fs W Hi d. rewrite src_detailed_rechecks_errors, src_fast_kw_last.
  rewrite (interp_refines_spec V K opt Ha Hf hs fs W Hi d), detailed_refines_spec. split; [reflexivity|].
  now apply fast_refines_spec.
Qed.
Print Assumptions C06_class_agreement.

(* 2. Class level, unstructuring: with the same handlers both classes emit the same dict. *)
Theorem C06_class_unstructure_agreement :
  forall (V : Type) (d0 : V) (veq : V -> V -> bool) (opt : topts),
    t_use_alias opt = false -> t_omit_if_default opt = false ->
    forall fs : list (field V), wf V opt (fun _ => neutral) fs -> (forall f, In f fs -> f_init f = true) ->
    forall i : inst V, map fst i = map f_name fs ->
    forall (hs_u : N -> V -> result V) (hu : N -> V -> V),
      (forall f, In f fs -> hs_u (f_name f) (aval V d0 i f) = Ok (hu (f_name f) (aval V d0 i f))) ->
      un_gen V veq opt (fun _ => neutral) hs_u fs i = un_interp_dict V hs_u fs i.
Proof.
  intros V d0 veq opt Ha Ho fs W Hi i Hk hs_u hu Hh.
  rewrite (un_gen_all V d0 opt Ha Ho fs W Hi i Hk hs_u hu Hh veq). symmetry. now apply un_interp_all.
Qed.
Print Assumptions C06_class_unstructure_agreement.

(* 3. Nested.  For EVERY environment of classes (attributes all __init__ arguments) and enums, every type
      expression of the nested universe, every amount of fuel and EVERY input whose class positions hold
      mappings ([shaped]: at each class position the walk reaches the payload is a dict; no Annotated, which
      BaseConverter has no hook for): Converter in either validation mode and BaseConverter in either
      validation mode both reject the input or both accept it with the same result. *)
Theorem C06_nested_classes_agree :
  forall (E : env) (dv1 dv2 : bool),
    (forall c cd, e_class E c = Some cd ->
       wf val (topt (mk_cfg true dv1 false false) c) nov (cd_fields cd) /\ (forall f, In f (cd_fields cd) -> f_init f = true)) ->
    forall (n : nat) (t : ty) (o : val),
      shaped E n t o ->
      to_opt (structure E (mk_cfg true dv1 false false) n t o) = to_opt (structure E (mk_cfg false dv2 false false) n t o).
Proof.
  intros E dv1 dv2 Henv n t o Hs.
  apply structure_agree; [reflexivity | reflexivity | reflexivity | intros _; reflexivity | apply mk_cfg_recheck | apply mk_cfg_recheck | apply mk_cfg_kw_last | apply mk_cfg_kw_last | exact Henv | right; exact Hs].
Qed.
Print Assumptions C06_nested_classes_agree.

(* ... in particular on the unstructured form of any value of T both classes return that value: *)
Theorem C06_nested_agree_on_valid_payloads :
  forall (E : env) (dvU dv1 dv2 : bool),
    (forall p e, e_coerce E p (VAtom p e) = Ok (VAtom p e)) ->
    (forall c cd, e_class E c = Some cd -> rt_class_ok (mk_cfg true dv1 false false) c cd) ->
    (forall c cd, e_class E c = Some cd -> rt_class_ok (mk_cfg false dv2 false false) c cd) ->
    forall (n : nat) (t : ty) (x u : val),
      rt_value E false x t ->
      unstructure E (mk_cfg true dvU false false) n t x = Ok u ->
      structure E (mk_cfg true dv1 false false) n t u = structure E (mk_cfg false dv2 false false) n t u.
Proof.
  intros E dvU dv1 dv2 Hc H1 H2 n t x u Hrt Hu.
  assert (R1 : structure E (mk_cfg true dv1 false false) n t u = Ok x).
  { apply (roundtrip E (mk_cfg true dvU false false) (mk_cfg true dv1 false false) false);
      [reflexivity | reflexivity | (intros X; discriminate X) | reflexivity | reflexivity | apply mk_cfg_recheck | apply mk_cfg_kw_last | discriminate | exact Hc | exact H1 | exact Hrt | exact Hu]. }
  assert (R2 : structure E (mk_cfg false dv2 false false) n t u = Ok x).
  { apply (roundtrip E (mk_cfg true dvU false false) (mk_cfg false dv2 false false) false);
      [reflexivity | reflexivity | (intros X; discriminate X) | reflexivity | reflexivity | apply mk_cfg_recheck | apply mk_cfg_kw_last | discriminate | exact Hc | exact H2 | exact Hrt | exact Hu]. }
  now rewrite R1, R2.
Qed.
Print Assumptions C06_nested_agree_on_valid_payloads.

(* the full statement is false outside the mapping-shaped inputs the property names: a list payload at
   a class position is accepted by the generated hook of an all-defaults class ('a' in [..] is False for
   every key) and rejected by BaseConverter ([..]['a'] raises TypeError) *)
Local Open Scope N_scope.
Definition q_fields : list (field val) :=
  [ {| f_name := 1; f_alias := 1; f_dflt := Some (VAtom PInt 0); f_init := true; f_kw_only := false; f_kw_seen := false; f_conv := false |} ].
Definition q_env : env :=
  {| e_class := fun c => if N.eqb c 1 then Some {| cd_fields := q_fields; cd_types := [(1, TPrim PInt)] |} else None;
     e_enum := fun _ => []; e_coerce := fun _ _ => Err EType; e_in := fun _ _ => Err EType; e_iter := fun _ => Err EType; e_len := fun _ => Err EType |}.
Example C06_needs_mapping_shaped_inputs :
  structure q_env (mk_cfg true false false false) 4 (TClass 1) (VList [VAtom PInt 5]) = Ok (VInst 1 [(1, VAtom PInt 0)])
  /\ is_ok (structure q_env (mk_cfg false false false false) 4 (TClass 1) (VList [VAtom PInt 5])) = false.
Proof. split; vm_compute; reflexivity. Qed.


(* 4. Unstructuring, nested.  For EVERY environment (classes whose attributes are all __init__ arguments, declared attribute types
      BaseConverter has hooks for), every type BaseConverter has unstructure hooks for at every depth ([base_deep]: no heterogeneous
      tuples, NewTypes or Annotated), EVERY value of the type, either strategy, any validation modes and any fuel: whatever Converter
      (declared types everywhere) returns, BaseConverter (collections by the runtime class of their elements) returns too, with the
      same fuel, and the two results are equal once tuples are read as lists ([lst]) -- the documented container difference:
      Converter turns homogeneous tuples into lists, BaseConverter keeps the container's class. *)
Theorem C06_nested_unstructure_agreement :
  forall (E : env) (dvG dvB tup : bool),
    (forall c cd, e_class E c = Some cd ->
       wf val (topt (mk_cfg true dvG tup false) c) nov (cd_fields cd) /\ (forall f, In f (cd_fields cd) -> f_init f = true) /\
       (forall nm ft, assoc (cd_types cd) nm = Some ft -> base_deep ft = true)) ->
    forall (n : nat) (t : ty) (x u : val),
      rt_value E false x t -> base_deep t = true ->
      unstructure E (mk_cfg true dvG tup false) n t x = Ok u ->
      exists u', unstructure E (mk_cfg false dvB tup false) n t x = Ok u' /\ lst u' = lst u.
Proof.
  intros E dvG dvB tup Henv. apply unstructure_agree; [reflexivity | reflexivity | reflexivity | exact Henv].
Qed.
Print Assumptions C06_nested_unstructure_agreement.

(* non-vacuity: a class holding a homogeneous tuple of enum members and a list of instances of itself: Converter emits a list for
   the tuple, BaseConverter a tuple; read as lists they coincide *)
Local Open Scope N_scope.
Definition u_fields : list (field val) :=
  [ {| f_name := 1; f_alias := 1; f_dflt := None; f_init := true; f_kw_only := false; f_kw_seen := false; f_conv := false |};
    {| f_name := 2; f_alias := 2; f_dflt := Some (VList []); f_init := true; f_kw_only := false; f_kw_seen := false; f_conv := false |} ].
Definition u_env : env :=
  {| e_class := fun c => if N.eqb c 1 then Some {| cd_fields := u_fields; cd_types := [(1, TTupleHom (TEnum 0)); (2, TList (TClass 1))] |} else None;
     e_enum := fun en => if N.eqb en 0 then [VAtom PInt 20; VAtom PInt 21] else [];
     e_coerce := fun _ _ => Err EType; e_in := fun _ _ => Err EType; e_iter := fun _ => Err EType; e_len := fun _ => Err EType |}.
Definition u_x : val := VInst 1 [(1, VTuple [VEnum 0 1; VEnum 0 0]); (2, VList [VInst 1 [(1, VTuple []); (2, VList [])]])].
Example C06_unstructure_example :
  unstructure u_env (mk_cfg true true false false) 9 (TClass 1) u_x
    = Ok (VDict [(VAtom PStr 1, VList [VAtom PInt 21; VAtom PInt 20]); (VAtom PStr 2, VList [VDict [(VAtom PStr 1, VList []); (VAtom PStr 2, VList [])]])])
  /\ unstructure u_env (mk_cfg false true false false) 9 (TClass 1) u_x
    = Ok (VDict [(VAtom PStr 1, VTuple [VAtom PInt 21; VAtom PInt 20]); (VAtom PStr 2, VList [VDict [(VAtom PStr 1, VTuple []); (VAtom PStr 2, VList [])]])])
  /\ base_deep (TClass 1) = true.
Proof. repeat split; vm_compute; reflexivity. Qed.
