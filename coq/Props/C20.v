(* C20 -- attrs field converters compose with structure hooks as documented. *)
From V.Model Require Import Base FieldConv.

(* The decision domain is finite: (has converter) x (prefer_attrib_converters) x (what is
   known about the declared type).  The theorems are closed by case analysis over all of it. *)

(* generated hooks (Converter, both validation modes: the handler choice is made once, by
   find_structure_handler) follow the documented rule whenever "a hook can be found for T"
   means what it says -- the lookup fails, or the hook found handles the value *)
Theorem C20_generated_follows_rule :
  forall (has_conv prefer : bool) (t : tkind),
    t <> TLazyNotFound ->
    gen_field has_conv prefer t = doc_field has_conv prefer (hook_exists_of t).
Proof. intros [|] [|] [| | | |] H; try reflexivity; contradiction. Qed.
Print Assumptions C20_generated_follows_rule.

(* the interpretive BaseConverter follows it for every kind of type, lazily failing hooks included *)
Theorem C20_interpretive_follows_rule :
  forall (has_conv prefer : bool) (t : tkind),
    interp_field has_conv prefer t = doc_field has_conv prefer (hook_exists_of t).
Proof. intros [|] [|] [| | | |]; reflexivity. Qed.
Print Assumptions C20_interpretive_follows_rule.

(* hence the two converter classes agree, except on the lazily failing hooks *)
Theorem C20_agree_partial :
  forall (has_conv prefer : bool) (t : tkind),
    t <> TLazyNotFound -> gen_field has_conv prefer t = interp_field has_conv prefer t.
Proof.
  intros. rewrite C20_generated_follows_rule by assumption. symmetry. apply C20_interpretive_follows_rule.
Qed.
Print Assumptions C20_agree_partial.

(* fields without a converter are unaffected by prefer_attrib_converters *)
Theorem C20_no_converter_unaffected :
  forall (prefer : bool) (t : tkind),
    gen_field false prefer t = gen_field false false t /\ interp_field false prefer t = interp_field false false t.
Proof. intros [|] [| | | |]; split; reflexivity. Qed.
Print Assumptions C20_no_converter_unaffected.

(* the full statement ("Converter and BaseConverter agree") is false of the code (finding F15):
   a field with a converter whose type is a container of an unsupported element type *)
Theorem C20_refuted_lazy :
  exists has_conv prefer t, gen_field has_conv prefer t <> interp_field has_conv prefer t.
Proof. exists true, false, TLazyNotFound. discriminate. Qed.

(* non-vacuity: the interesting cells *)
Example C20_nonvacuous :
  gen_field true false TFound = VK VHook /\ gen_field true false TNotFound = VK VRaw /\
  gen_field true true TFound = VK VRaw /\ gen_field false true TFound = VHook /\ interp_field true false TLazyNotFound = VK VRaw.
Proof. repeat split. Qed.
