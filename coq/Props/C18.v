(* C18 -- copy() behaves identically at copy time; converters are isolated afterwards. *)
From V.Model Require Import Base Dispatch Routing.
From V.Gen Require Import DispatchSrc ConvSrc.
From V.Proofs Require Import DispatchProofs RoutingProofs SrcObligations.

(* For the configuration translated from the current source: take a converter
   of either class built with any options, drive it through ANY sequence of
   public-API operations (registrations of every kind interleaved with lookups),
   and copy it with any overrides.  At that moment the copy answers every lookup,
   in both directions, exactly like a converter freshly built from the
   forwarded options (current value unless overridden) that then received the
   original's registrations in the same order. *)
Theorem C18_copy_is_replay :
  forall (W : world) (full : bool) (o : optmap) (us : list uop) (ov : optmap) (d : dir) (t : ty),
    Forall good_uop us ->
    conv_lookup W src_cfg (copy_conv W src_cfg src_csrc (urun W src_cfg src_csrc (build W src_cfg src_csrc full o) us) ov) d t =
    conv_lookup W src_cfg
      (urun W src_cfg src_csrc
         (build W src_cfg src_csrc full (copy_opts (if full then copy_full src_csrc else copy_base src_csrc) o ov))
         (filter is_ureg_op us)) d t.
Proof.
  intros. apply conv_copy_is_replay; auto using src_lookup_order, src_func_reg_clears_direct,
    src_func_reg_clears_cache, src_cls_reg_clears_cache, src_insert_front, src_route_un_ok, src_route_st_ok,
    src_copy_drops_suffix, src_copy_copies_single, src_copy_clears_direct, src_copy_clears_cache,
    src_route_un_plain, src_route_st_plain, src_copy_no_ureg, src_first_un, src_first_st.
Qed.
Print Assumptions C18_copy_is_replay.

(* ... and the forwarded options are ALL the construction options: the value the copy is
   built with is the override when one is given, else the original's current value. *)
Lemma copy_opts_get passes cur ov o :
  existsb (copt_eqb o) passes = true ->
  opt_get (copy_opts passes cur ov) o = Some (match opt_get ov o with Some v => v | None => opt_val cur o end).
Proof.
  unfold copy_opts. induction passes as [|p ps IH]; cbn; [discriminate|].
  destruct (copt_eqb o p) eqn:E.
  - intros _. assert (p = o) by (destruct o, p; try discriminate; reflexivity). subst p.
    assert (R : copt_eqb o o = true) by (destruct o; reflexivity). rewrite R. reflexivity.
  - cbn. intros H. assert (R : copt_eqb p o = false) by (destruct o, p; try discriminate; reflexivity).
    rewrite R. apply IH, H.
Qed.

Theorem C18_options_forwarded :
  forall (full : bool) (cur ov : optmap) (o : copt),
    In o (if full then all_full_opts else all_base_opts) ->
    opt_get (copy_opts (if full then copy_full src_csrc else copy_base src_csrc) cur ov) o =
    Some (match opt_get ov o with Some v => v | None => opt_val cur o end).
Proof.
  intros full cur ov o Hin. apply copy_opts_get.
  destruct full.
  - pose proof src_copy_full_forwards_all as H. unfold covers in H. rewrite forallb_forall in H. exact (H o Hin).
  - pose proof src_copy_base_forwards_all as H. unfold covers in H. rewrite forallb_forall in H. exact (H o Hin).
Qed.
Print Assumptions C18_options_forwarded.

(* Isolation after the copy: in the model a converter is an immutable value, so the
   statement "operations on one do not change the other" is vacuous there; it is
   decided by translator T1 (copy() builds a new instance and copy_to rebuilds the
   containers) and by the DISP lane in copy mode, not by a theorem.  See DESIGN.md. *)

(* non-vacuity: hooks of every kind and a custom fallback survive a copy with an override *)
Local Open Scope N_scope.
Definition c18_world : world := {|
  w_mro := fun t => if N.eqb t 11 then [11; 10; 1] else if N.eqb t 10 then [10; 1] else [];
  w_user := fun p t => Some (N.eqb p 1 && N.eqb t 100);
  w_init := fun i t => Some false;
  w_is_union := fun t => N.eqb t 200; w_is_newtype := fun t => N.eqb t 300 |}.
Example C18_nonvacuous :
  let c0 := urun c18_world src_cfg src_csrc (build c18_world src_cfg src_csrc true [(OStructFallback, 7)])
             [URegHook DSt 10 (HUser 1); URegFunc DSt 1 (HUser 2); UGet DSt 100 true;
              URegFactory DSt 1 5 true WSelf; URegHook DSt 200 (HUser 3); URegHook DSt 300 (HUser 4)] in
  let c1 := copy_conv c18_world src_cfg src_csrc c0 [(ODetailed, 1)] in
  conv_lookup c18_world src_cfg c1 DSt 11 = HUser 1 /\ conv_lookup c18_world src_cfg c1 DSt 100 = HMade 5 100 true /\
  conv_lookup c18_world src_cfg c1 DSt 200 = HUser 3 /\ conv_lookup c18_world src_cfg c1 DSt 300 = HUser 4 /\
  conv_lookup c18_world src_cfg c1 DSt 999 = HFallback 7 999 /\ opt_val (c_opts c1) ODetailed = 1.
Proof. vm_compute. repeat split. Qed.
