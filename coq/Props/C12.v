(* C12 -- automatic union disambiguation never picks the wrong class; it refuses instead. *)
From V.Model Require Import Base Disambig.
From V.Gen Require Import DisSrc.
From V.Proofs Require Import DisambigProofs.

(* tie obligation: only __init__ attributes may discriminate (fixed finding F7) *)
Lemma src_only_init_attributes_discriminate : src_dis_skip_noninit = true.
Proof. reflexivity. Qed.

(* tie obligation: [df_required] means "no default value AND no default factory" -- a dataclass field declared with
   default_factory keeps `default` MISSING, and a payload may leave its key out all the same (fixed finding F41) *)
Lemma src_factory_defaults_are_defaults : src_dis_factory_is_default = true.
Proof. reflexivity. Qed.

(* A member class is its list of attributes (final key, has-no-default, init, Literal values).
   [choose] is the iteration order of a Python set of names -- the hash seed -- and is universally
   quantified: any function returning a sub-list of its argument.  [payload_of cl keys]: the keys of
   the unstructured form of an instance of cl -- at least the attributes that may discriminate, at
   most cl's attributes. *)

(* 1. unique-required-key disambiguation: whenever hook creation succeeds, every member's payload
      is attributed to that member and to no other -- for every hash seed and every union order
      (the theorem is about [sort_desc classes] for ANY list [classes]). *)
Theorem C12_keys_never_wrong :
  forall (choose : list N -> list N) (skip : bool) (classes : list dclass) (a : list (N * N)) (fb : option N),
    (forall l x, In x (choose l) -> In x l) ->
    NoDup (ids classes) ->
    key_loop choose skip (sort_desc classes) (sort_desc classes) [] None = Ok (a, fb) ->
    forall cl keys, In cl classes -> payload_of skip cl keys -> dis_keys a fb keys = Ok (dc_id cl).
Proof. intros. eapply create_dis_keys_correct; eassumption. Qed.
Print Assumptions C12_keys_never_wrong.

(* 2. literal discriminators: the bucket selected by an instance's discriminator value contains the
      instance's class (a singleton bucket is the class itself; a larger one is a smaller union that is
      disambiguated recursively) *)
Theorem C12_literal_bucket_contains_class :
  forall (classes : list dclass) (disc : N) (cl : dclass) (v : N),
    In cl classes -> In v (lit_values cl disc) ->
    exists cs, assoc (lit_mapping classes disc) v = Some cs /\ In (dc_id cl) cs.
Proof. intros. now apply lit_mapping_contains. Qed.
Print Assumptions C12_literal_bucket_contains_class.

(* 3. it refuses instead of guessing: a second member without a usable unique key makes creation fail *)
Theorem C12_refuses_second_fallback :
  forall choose skip cl rest all a f,
    find (usable_key skip cl) (choose (filter (fun n => negb (mem_N n (flat_map names
          (filter (fun c => negb (N.eqb (dc_id c) (dc_id cl)) && negb (mem_N (dc_id c) (map snd a))) all)))) (names cl))) = None ->
    key_loop choose skip (cl :: rest) all a (Some f) = Err EType.
Proof. intros. cbn [key_loop]. rewrite H. reflexivity. Qed.

(* 4. Order independence.  The RESULT of structuring cannot depend on the member order or the hash
      seed (theorem 1 holds for every order and every [choose]).  Whether hook creation SUCCEEDS does
      depend on the member order: the greedy pass is refuted as order-independent (finding F23). *)
Local Open Scope N_scope.
Definition fld (n : N) : dfield := {| df_name := n; df_required := true; df_init := true; df_lit := None |}.
Definition cA := {| dc_id := 1; dc_fields := [fld 10; fld 11] |}.   (* A(a, x) *)
Definition cB := {| dc_id := 2; dc_fields := [fld 11; fld 12] |}.   (* B(x, y) *)
Definition cC := {| dc_id := 3; dc_fields := [fld 12] |}.           (* C(y)    *)
Theorem C12_success_order_dependent_refuted :
  is_ok (create_dis (fun l => l) true true [cA; cB; cC]) = true /\
  is_ok (create_dis (fun l => l) true true [cB; cA; cC]) = false.
Proof. vm_compute. split; reflexivity. Qed.

(* finding F7 (fixed when [skip] is on): a required init=False attribute must not discriminate *)
Definition cP := {| dc_id := 1; dc_fields := [fld 10] |}.
Definition cQ := {| dc_id := 2; dc_fields := [fld 10; {| df_name := 20; df_required := true; df_init := false; df_lit := None |}] |}.
Example C12_init_false_key :
  create_dis (fun l => l) false true [cP; cQ] = Ok (DKeys [(20, 2); (10, 1)] None) /\   (* Q is to be recognised by a key its payloads never have ... *)
  dis_keys [(20, 2); (10, 1)] None [10] = Ok 1 /\                                      (* ... so Q's payload {x} is attributed to P *)
  is_ok (create_dis (fun l => l) true true [cP; cQ]) = false.                     (* with the fix: refused *)
Proof. vm_compute. repeat split; reflexivity. Qed.

(* non-vacuity of theorem 1 *)
Example C12_nonvacuous :
  exists a fb, key_loop (fun l => l) true (sort_desc [cA; cB; cC]) (sort_desc [cA; cB; cC]) [] None = Ok (a, fb) /\
               dis_keys a fb [11; 12] = Ok 2 /\ dis_keys a fb [12] = Ok 3 /\ dis_keys a fb [10; 11] = Ok 1.
Proof. eexists. eexists. vm_compute. repeat split. Qed.

(* 5. "required" as the source reads it (Model/DisambigSrc.v).  With the reading T1 finds in disambiguators.py today -- a default
      FACTORY is a default -- what the disambiguator takes for required is exactly what no valid payload leaves out, so theorem 1
      applies to every valid payload of every member: it is attributed to that member and to no other. *)
From V.Model Require Import DisambigSrc.
Lemma read_required_is_truly_required f : read_required true f = truly_required f.
Proof. unfold read_required, truly_required. cbn. reflexivity. Qed.

Lemma valid_payload_is_payload_of (c : sclass) (keys : list N) :
  valid_payload c keys = true -> payload_of true (read_class true c) keys.
Proof.
  unfold valid_payload. intros H. apply andb_prop in H. destruct H as [H1 H2]. split.
  - intros n Hn. unfold usable_key in Hn. cbn [read_class dc_fields] in Hn. apply existsb_exists in Hn.
    destruct Hn as (df & Hin & E). apply in_map_iff in Hin. destruct Hin as (f & Ef & Hf). subst df.
    cbn [read_field df_name df_required df_init negb orb] in E.
    apply andb_prop in E. destruct E as [E Ei]. apply andb_prop in E. destruct E as [En Er].
    apply N.eqb_eq in En. rewrite read_required_is_truly_required in Er.
    rewrite forallb_forall in H1. specialize (H1 f Hf). rewrite Er, Ei in H1. cbn in H1.
    subst n. apply mem_N_In. exact H1.
  - intros n Hn. rewrite forallb_forall in H2. specialize (H2 n Hn). apply mem_N_In in H2.
    unfold names. cbn [read_class dc_fields]. rewrite map_map. cbn [read_field df_name]. exact H2.
Qed.

Theorem C12_valid_payloads_never_wrong :
  forall (choose : list N -> list N) (classes : list sclass) (a : list (N * N)) (fb : option N),
    src_dis_skip_noninit = true -> src_dis_factory_is_default = true ->
    (forall l x, In x (choose l) -> In x l) ->
    NoDup (ids (map (read_class src_dis_factory_is_default) classes)) ->
    key_loop choose src_dis_skip_noninit (sort_desc (map (read_class src_dis_factory_is_default) classes))
             (sort_desc (map (read_class src_dis_factory_is_default) classes)) [] None = Ok (a, fb) ->
    forall c keys, In c classes -> valid_payload c keys = true -> dis_keys a fb keys = Ok (sc_id c).
Proof.
  intros choose classes a fb Es Ef Hc Hnd Hk c keys Hin Hv. rewrite Es, Ef in *.
  change (sc_id c) with (dc_id (read_class true c)).
  eapply C12_keys_never_wrong; [exact Hc | exact Hnd | exact Hk | now apply in_map | now apply valid_payload_is_payload_of].
Qed.
Print Assumptions C12_valid_payloads_never_wrong.

(* ... and with the other reading (finding F41 as it was: only `default` is looked at) the statement is false: Plain(a) and
   WithFac(a, b = default_factory) -- the hook IS created, b being taken for required, and the valid payload {a} of a WithFac
   instance is attributed to Plain *)
Definition sPlain := {| sc_id := 1; sc_fields := [ {| sf_name := 10; sf_default_value := false; sf_default_factory := false; sf_init := true; sf_lit := None |} ] |}.
Definition sWithFac := {| sc_id := 2; sc_fields := [ {| sf_name := 10; sf_default_value := false; sf_default_factory := false; sf_init := true; sf_lit := None |};
                                                     {| sf_name := 11; sf_default_value := false; sf_default_factory := true; sf_init := true; sf_lit := None |} ] |}.
Theorem C12_factory_read_as_required_refuted :
  exists a fb, key_loop (fun l => l) true (sort_desc (map (read_class false) [sPlain; sWithFac])) (sort_desc (map (read_class false) [sPlain; sWithFac])) [] None = Ok (a, fb)
               /\ valid_payload sWithFac [10] = true /\ dis_keys a fb [10] = Ok (sc_id sPlain).
Proof. eexists. eexists. vm_compute. repeat split. Qed.
Print Assumptions C12_factory_read_as_required_refuted.
Example C12_factory_default_refused_today :
  is_ok (create_dis (fun l => l) src_dis_skip_noninit true (map (read_class src_dis_factory_is_default) [sPlain; sWithFac])) = false.
Proof. vm_compute. reflexivity. Qed.
