(* C19 -- a shared converter is thread-safe, including concurrent first use of a type (partial). *)
From V.Model Require Import Base Threads.
From V.Gen Require Import ThreadSrc.
From V.Proofs Require Import ThreadsProofs.

(* tie obligation: the working set of the hook generators is thread-local *)
Lemma src_working_set_is_thread_local : src_thread_local = true.
Proof. reflexivity. Qed.

(* tie obligation: EVERY hook generator (attrs / dataclass, TypedDict and NamedTuple, both directions) adds its class to the working
   set, refuses re-entry and removes it in a finally -- the model's [enter] / [mem_N c (eff_ws s t)] steps are what every generator
   does.  (Finding F36: the TypedDict structure generator had no guard; a cycle that only it could cut ran to the interpreter's
   recursion limit, near which the dispatcher chooses and caches wrong hooks.) *)
Lemma src_every_generator_is_guarded : src_all_generators_guarded = true.
Proof. reflexivity. Qed.

(* tie obligation: every attribute hook lookup made while a structure hook is generated catches the cycle signal -- the model's
   "RecursionError caught -> late binding" step ([catches] in Model/Threads.v).  (Finding F43: the fast branch of the TypedDict structure
   generator did not; the signal unwound every generator in progress and reached the caller of structure().) *)
Lemma src_every_lookup_catches_the_cycle_signal : src_lookups_catch_cycles = true.
Proof. reflexivity. Qed.

(* For the scope read off the current source: ANY number of threads, ANY class graph (deep,
   recursive, overlapping, with references through caching and non-caching lookups), ANY lists
   of first-use requests and EVERY schedule (interleaving at the granularity "one field resolved /
   one generator entered / one generator left"): no thread ever sees the RecursionError that
   signals a reference cycle anywhere but inside a generator that catches it -- i.e. no call
   raises an error its sequential execution does not raise.  What a finished request returns is
   the hook of the requested class; hooks differ only in whether nested hooks are bound directly
   or late, which is not observable (both dispatch to the same converter).
   PARTIAL: CPython's GIL, the atomicity of dict / set / lru_cache operations and of attribute
   access are assumed, not modelled. *)
Theorem C19_no_spurious_errors_partial :
  forall (fields : cls -> list (cls * bool)) (reqs : list (list cls)) (sched : list nat),
    any_failed (run fields src_thread_local src_lookups_catch_cycles (init reqs) sched) = false.
Proof. intros. rewrite src_working_set_is_thread_local, src_every_lookup_catches_the_cycle_signal. apply no_thread_fails. Qed.
Print Assumptions C19_no_spurious_errors_partial.

(* "... return exactly what the same calls return when executed sequentially", at the model's level of observation (which requests
   completed, in which order): for EVERY number of threads, class graph, request lists and schedule, every thread's completed
   requests followed by its pending ones are exactly its own request list -- nothing skipped, nothing done twice, nothing out of
   order, whatever the other threads did to the shared cache meanwhile -- and no thread has failed; so a thread with nothing left
   to do has completed exactly the requests the sequential execution completes.
   (What a completed request RETURNS is the hook of the class; hooks generated under different schedules differ in which nested
   positions are late-bound, and late-bound positions behave like directly bound ones since /repo 3399ab1 -- finding F34, decided
   by the RECWARM schedules, open for TypedDicts as F35.) *)
Theorem C19_completed_requests_are_sequential :
  forall (fields : cls -> list (cls * bool)) (reqs : list (list cls)) (sched : list nat),
    Forall2 (fun t r => failed t = false /\ finished t ++ todo t = r) (threads (run fields src_thread_local src_lookups_catch_cycles (init reqs) sched)) reqs.
Proof. intros. rewrite src_working_set_is_thread_local, src_every_lookup_catches_the_cycle_signal. apply finished_is_a_prefix. Qed.
Print Assumptions C19_completed_requests_are_sequential.

Corollary C19_idle_thread_completed_its_requests :
  forall (fields : cls -> list (cls * bool)) (reqs : list (list cls)) (sched : list nat) (i : nat) (t : thread) (r : list cls),
    nth_error (threads (run fields src_thread_local src_lookups_catch_cycles (init reqs) sched)) i = Some t -> nth_error reqs i = Some r ->
    todo t = [] -> failed t = false /\ finished t = r.
Proof. intros fields reqs sched i t r. rewrite src_working_set_is_thread_local, src_every_lookup_catches_the_cycle_signal. apply idle_thread_completed_its_requests. Qed.
Print Assumptions C19_idle_thread_completed_its_requests.

(* ... and what a completed request RETURNS does not depend on the schedule either: a thread that finds a class in ITS working set
   binds that attribute late, another thread binds it directly, and whichever hook reaches the shared cache first is the one every
   later call uses -- for the late binding T1 reads off the current source all of them compute the documented encoding
   (Model/LateBinding.v; the working set [ws] is whatever the generating thread had in progress). *)
From V.Model Require Import LateBinding.
From V.Gen Require Import LateSrc.
From V.Proofs Require Import LateBindingProofs.
Theorem C19_hooks_generated_under_any_working_set_agree :
  forall (classes : N -> option (list (N * N))) (k1 k2 : nat) (ws1 ws2 : list N) (c : N) (n : nat) (v : lval) (r1 r2 : lout),
    src_late_unstructure_by_declared = true ->
    hook_sem classes src_late_unstructure_by_declared k1 ws1 c n v = Some r1 ->
    hook_sem classes src_late_unstructure_by_declared k2 ws2 c n v = Some r2 -> r1 = r2.
Proof. intros classes k1 k2 ws1 ws2 c n v r1 r2 E. rewrite E. apply entry_point_irrelevant. Qed.
Print Assumptions C19_hooks_generated_under_any_working_set_agree.
Lemma src_late_binding_keeps_the_declared_type_19 : src_late_unstructure_by_declared = true.
Proof. reflexivity. Qed.

(* the model CAN exhibit the failure: with one working set shared by all threads, a second thread
   that first-uses class 1 while the first thread is still generating its hook gets a RecursionError *)
Local Open Scope N_scope.
Definition c19_fields (c : cls) : list (cls * bool) := if N.eqb c 1 then [(2, false)] else [].
Theorem C19_shared_working_set_refuted :
  exists fields reqs sched, any_failed (run fields false true (init reqs) sched) = true.
Proof. exists c19_fields, [[1]; [1]], [0; 1]%nat. vm_compute. reflexivity. Qed.

(* ... and the other failure: with a lookup that does NOT catch the cycle signal, ONE thread structuring a class that refers to
   itself -- no concurrency at all -- gets the RecursionError at the top level (finding F43 as it was: `class Shelf(TypedDict): sub:
   Dict[str, Shelf]` under detailed_validation=False), the working set is left clean by the unwinding, and the request is lost *)
Definition c19_self (c : cls) : list (cls * bool) := if N.eqb c 1 then [(1, false)] else [].
Theorem C19_uncaught_cycle_signal_refuted :
  exists fields reqs sched,
    observe (run fields true false (init reqs) sched) = [(true, [])] /\
    map ws (threads (run fields true false (init reqs) sched)) = [[]].
Proof. exists c19_self, [[1]], [0; 0; 0]%nat. vm_compute. split; reflexivity. Qed.
Print Assumptions C19_uncaught_cycle_signal_refuted.
Example C19_self_reference_is_bound_late :
  observe (run c19_self src_thread_local src_lookups_catch_cycles (init [[1]]) [0; 0; 0]%nat) = [(false, [1])].
Proof. vm_compute. reflexivity. Qed.

(* non-vacuity: the same schedule under the thread-local scope completes both requests *)
Example C19_nonvacuous :
  observe (run c19_fields src_thread_local src_lookups_catch_cycles (init [[1]; [1]]) [0; 1; 0; 1; 0; 1; 0; 1; 0; 1]%nat)
  = [(false, [1]); (false, [1])].
Proof. vm_compute. reflexivity. Qed.
