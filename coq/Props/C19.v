(* C19 -- a shared converter is thread-safe, including concurrent first use of a type (partial). *)
From V.Model Require Import Base Threads.
From V.Gen Require Import ThreadSrc.
From V.Proofs Require Import ThreadsProofs.

(* tie obligation: the working set of the hook generators is thread-local *)
Lemma src_working_set_is_thread_local : src_thread_local = true.
Proof. reflexivity. Qed.

(* For the scope read off the current source: ANY number of threads, ANY class graph (deep,
   recursive, overlapping, with references through caching and non-caching lookups), ANY lists
   of first-use requests and EVERY schedule (interleaving at the granularity "one field resolved /
   one generator entered / one generator left"): no thread ever sees the RecursionError that
   signals a reference cycle anywhere but inside a generator that catches it -- i.e. no call
   raises an error its sequential execution does not raise.  What a finished request returns is
   the hook of the requested class; hooks differ only in whether nested hooks are bound directly
   or late, which is not observable (both dispatch to the same converter).
   PARTIAL: CPython's GIL, the atomicity of dict / set / lru_cache operations and of attribute
   access are assumed, not modelled. *)
Theorem C19_no_spurious_errors_partial :
  forall (fields : cls -> list (cls * bool)) (reqs : list (list cls)) (sched : list nat),
    any_failed (run fields src_thread_local (init reqs) sched) = false.
Proof. intros. rewrite src_working_set_is_thread_local. apply no_thread_fails. Qed.
Print Assumptions C19_no_spurious_errors_partial.

(* the model CAN exhibit the failure: with one working set shared by all threads, a second thread
   that first-uses class 1 while the first thread is still generating its hook gets a RecursionError *)
Local Open Scope N_scope.
Definition c19_fields (c : cls) : list (cls * bool) := if N.eqb c 1 then [(2, false)] else [].
Theorem C19_shared_working_set_refuted :
  exists fields reqs sched, any_failed (run fields false (init reqs) sched) = true.
Proof. exists c19_fields, [[1]; [1]], [0; 1]%nat. vm_compute. reflexivity. Qed.

(* non-vacuity: the same schedule under the thread-local scope completes both requests *)
Example C19_nonvacuous :
  observe (run c19_fields src_thread_local (init [[1]; [1]]) [0; 1; 0; 1; 0; 1; 0; 1; 0; 1]%nat)
  = [(false, [1]); (false, [1])].
Proof. vm_compute. reflexivity. Qed.
