(* C09 -- customised hooks round-trip: rename, omit, omit_if_default, aliases, init=False. *)
From V.Model Require Import Base Templates.
From V.Gen Require Import GenSrc.
From V.Proofs Require Import TemplatesProofs UnstructProofs SrcObligationsGen.

(* A customisation is consistent when the final keys of the handled attributes are
   pairwise distinct and no mandatory __init__ argument is omitted.  [val f] is the
   value attribute f has on the instance; [hs_u] are the per-attribute unstructure
   handlers, [hu n (val f)] what they return on the instance's values, [hs_s] the structure
   handlers, which undo them ON THESE VALUES (nothing is assumed about other inputs). *)

(* 1. The generated unstructure hook emits EXACTLY the configured key set: the final key
      (rename, else alias under use_alias, else name) of every handled attribute, except
      those for which omit_if_default applies (per attribute, else converter-wide) and whose
      value equals the default.  Any class, any options and overrides, any instance. *)
Theorem C09_exact_key_set :
  forall (V : Type) (veq : V -> V -> bool) (opt : topts) (ov : N -> fov) (hs_u : N -> V -> result V) (hu : N -> V -> V)
         (fs : list (field V)) (i : inst V) (val : field V -> V),
    (forall f, In f (filter (included V opt ov) fs) -> assoc i (f_name f) = Some (val f)) ->
    NoDup (map (key_of V opt ov) (filter (included V opt ov) fs)) ->
    (forall f, In f (filter (included V opt ov) fs) -> hs_u (f_name f) (val f) = Ok (hu (f_name f) (val f))) ->
    forall d, un_gen V veq opt ov hs_u fs i = Ok d ->
    forall k, In k (map fst d) <->
              exists f, In f (filter (included V opt ov) fs) /\ key_of V opt ov f = k /\ emitted V veq opt ov val f = true.
Proof. intros. eapply un_gen_keys; eassumption. Qed.
Print Assumptions C09_exact_key_set.

(* ... and it never fails on such an instance; its output is this dict: *)
Theorem C09_unstructure_total :
  forall (V : Type) (veq : V -> V -> bool) (opt : topts) (ov : N -> fov) (hs_u : N -> V -> result V) (hu : N -> V -> V)
         (fs : list (field V)) (i : inst V) (val : field V -> V),
    (forall f, In f (filter (included V opt ov) fs) -> assoc i (f_name f) = Some (val f)) ->
    NoDup (map (key_of V opt ov) (filter (included V opt ov) fs)) ->
    (forall f, In f (filter (included V opt ov) fs) -> hs_u (f_name f) (val f) = Ok (hu (f_name f) (val f))) ->
    un_gen V veq opt ov hs_u fs i =
    Ok (lit_of V opt ov hu val (filter (included V opt ov) fs) ++ cnd_of V veq opt ov hu val (filter (included V opt ov) fs)).
Proof. intros. eapply un_gen_exact; eassumption. Qed.
Print Assumptions C09_unstructure_total.

(* 2. The structure hook generated with the same customisation (either validation mode) accepts
      that dict and restores every handled attribute.  [agree] lifts attribute-wise equality to
      the fast template, which refines the same specification. *)
Theorem C09_roundtrip_detailed :
  forall (V : Type) (K : N -> V -> result V) (veq : V -> V -> bool) (opt : topts) (ov : N -> fov)
         (hu : N -> V -> V) (fs : list (field V)) (val : field V -> V) (hs_s : N -> V -> result V),
    NoDup (map (key_of V opt ov) (filter (included V opt ov) fs)) ->
    (forall f, In f (filter (included V opt ov) fs) -> hs_s (f_name f) (hu (f_name f) (val f)) = Ok (val f)) ->
    NoDup (map f_alias fs) -> NoDup (map f_name fs) ->
    (forall f, In f fs -> f_conv f = false) ->
    (forall a b, veq a b = true -> a = b) ->
    (forall f, In f fs -> f_init f = true -> included V opt ov f = false -> f_dflt f <> None) ->
    t_forbid opt = false ->
    exists i', tpl_detailed V K opt ov hs_s src_recheck fs
                 (dict_obj (lit_of V opt ov hu val (filter (included V opt ov) fs) ++
                            cnd_of V veq opt ov hu val (filter (included V opt ov) fs))) = Ok i' /\
               forall f, In f (filter (included V opt ov) fs) -> assoc i' (f_name f) = Some (val f).
Proof.
  intros V K veq opt ov hu fs val hs_s H1 H2 H3 H4 H5 H6 H7 H8.
  destruct (roundtrip_spec V K veq opt ov hu fs val H1 hs_s H2 H3 H4 H5 H6 H7 H8) as (i' & E & A).
  rewrite src_detailed_rechecks_errors. rewrite <- detailed_refines_spec in E.
  destruct (tpl_detailed V K opt ov hs_s true fs _) as [j| |]; cbn in E; try discriminate.
  inversion E; subst. exists i'. auto.
Qed.
Print Assumptions C09_roundtrip_detailed.

Theorem C09_roundtrip_fast :
  forall (V : Type) (K : N -> V -> result V) (veq : V -> V -> bool) (opt : topts) (ov : N -> fov)
         (hu : N -> V -> V) (fs : list (field V)) (val : field V -> V) (hs_s : N -> V -> result V),
    wf V opt ov fs ->
    NoDup (map (key_of V opt ov) (filter (included V opt ov) fs)) ->
    (forall f, In f (filter (included V opt ov) fs) -> hs_s (f_name f) (hu (f_name f) (val f)) = Ok (val f)) ->
    (forall f, In f fs -> f_conv f = false) ->
    (forall a b, veq a b = true -> a = b) ->
    (forall f, In f fs -> f_init f = true -> included V opt ov f = false -> f_dflt f <> None) ->
    t_forbid opt = false ->
    exists i', tpl_fast V K opt ov hs_s src_kw_last fs
                 (dict_obj (lit_of V opt ov hu val (filter (included V opt ov) fs) ++
                            cnd_of V veq opt ov hu val (filter (included V opt ov) fs))) = Ok i' /\
               forall f, In f (filter (included V opt ov) fs) -> assoc i' (f_name f) = Some (val f).
Proof.
  intros V K veq opt ov hu fs val hs_s W H1 H2 H5 H6 H7 H8.
  destruct (roundtrip_spec V K veq opt ov hu fs val H1 hs_s H2 (wf_alias _ _ _ _ W) (wf_name _ _ _ _ W) H5 H6 H7 H8) as (i' & E & A).
  rewrite src_fast_kw_last.
  pose proof (fast_refines_spec V K opt ov hs_s fs (dict_obj (lit_of V opt ov hu val (filter (included V opt ov) fs) ++
                            cnd_of V veq opt ov hu val (filter (included V opt ov) fs))) W) as R.
  rewrite E in R. destruct (tpl_fast V K opt ov hs_s true fs _) as [j| |]; cbn in R; try contradiction.
  exists j. split; [reflexivity|]. intros f Hf. rewrite (R (f_name f)). now apply A.
Qed.
Print Assumptions C09_roundtrip_fast.

(* 3. Hook generation: the attribute order can never make it fail (fixed finding F1).  Key TEXT
      is outside this model: a key containing a quote still breaks generation (open finding F3),
      which is why this part of the statement is only `_partial`. *)
Theorem C09_generation_partial :
  forall (V : Type) (opt : topts) (ov : N -> fov) (fs : list (field V)), fast_compiles V opt ov src_kw_last fs = true.
Proof. intros. rewrite src_fast_kw_last. reflexivity. Qed.

(* non-vacuity: rename + omit_if_default + private alias + init=False, through both templates *)
Local Open Scope N_scope.
Definition c09_fs : list (field N) :=
  [ {| f_name := 1; f_alias := 11; f_dflt := None; f_init := true; f_kw_only := false; f_kw_seen := false; f_conv := false |};
    {| f_name := 2; f_alias := 2; f_dflt := Some 7; f_init := true; f_kw_only := true; f_kw_seen := true; f_conv := false |};
    {| f_name := 3; f_alias := 3; f_dflt := Some 9; f_init := false; f_kw_only := false; f_kw_seen := false; f_conv := false |} ].
Definition c09_opt := {| t_cl := 9; t_forbid := false; t_use_alias := true; t_incl_init_false := true; t_omit_if_default := true |}.
Definition c09_ov (n : N) : fov := if N.eqb n 1 then {| ov_omit := None; ov_rename := Some 100; ov_oid := None |} else neutral.
Example C09_nonvacuous :
  un_gen N N.eqb c09_opt c09_ov (fun n v => Ok (v + 1)) c09_fs [(1, 5); (2, 7); (3, 4)] = Ok [(100, 6); (3, 5)]
  /\ tpl_fast N (fun _ v => Ok v) c09_opt c09_ov (fun n v => Ok (v - 1)) src_kw_last c09_fs (dict_obj [(100, 6); (3, 5)])
     = Ok [(1, 5); (2, 7); (3, 4)].
Proof. vm_compute. split; reflexivity. Qed.
