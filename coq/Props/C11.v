(* C11 -- un/structuring never mutates its argument nor aliases its mutable containers. *)
From V.Model Require Import Base Alias.
From V.Gen Require Import AliasSrc.
From V.Proofs Require Import AliasProofs.

(* The hooks of cattrs that edit a dict in place are the TypedDict hooks (res[...] = ..., del res[...],
   res.pop(...)) and the tagged-union structure hooks under forbid_extra_keys (val.pop(tag)); every other
   hook builds its result with constructors / comprehensions.  [inplace copy_first ops] is such a hook:
   a working dict -- a fresh copy of the argument when [copy_first], else the argument itself -- on which an
   ARBITRARY sequence of edits runs until one raises.  Whether the source copies first is read off the
   current source by translator T1 (Gen/AliasSrc.v): every in-place edit of `val` in the four
   structure_tagged_union variants is dominated by `val = val.copy()`, the unstructure wrapper never edits its
   argument, and the generated TypedDict hooks edit `res`, initialised by `res = o.copy()` /
   `res = instance.copy()`. *)

(* 1. No mutation, success or failure: for every store, argument, sequence of edits (any length, any
      stopping point), every object that existed before the call -- the argument included -- has exactly
      the contents it had. *)
Theorem C11_argument_never_modified :
  forall (ops : list iop) (s : store) (arg r : oid) (o : obj),
    assoc s r = Some o ->
    assoc (fst (inplace src_td_struct_copy_first ops s arg)) r = Some o /\
    assoc (fst (inplace src_td_unstruct_copy_first ops s arg)) r = Some o /\
    assoc (fst (inplace src_tagged_copy_first ops s arg)) r = Some o.
Proof. intros. repeat split; now apply copy_first_frames. Qed.
Print Assumptions C11_argument_never_modified.

(* the tagged-union hooks that do not copy (no forbid_extra_keys) perform no edit at all; the unstructure
   wrapper writes the tag into the dict the member hook returned, never into its argument *)
Theorem C11_no_copy_only_without_edits :
  forall (s : store) (arg r : oid) (o : obj), assoc s r = Some o -> assoc (fst (inplace false [] s arg)) r = Some o.
Proof. exact no_edit_frames. Qed.
Theorem C11_tagged_unstructure_leaves_argument : src_tagged_un_leaves_arg = true.
Proof. reflexivity. Qed.
Print Assumptions C11_no_copy_only_without_edits.

(* 2. No aliasing of the edited container: what such a hook returns is an object that did not exist before. *)
Theorem C11_result_is_a_new_object :
  forall (ops : list iop) (s : store) (arg t : oid),
    snd (inplace src_td_struct_copy_first ops s arg) = Ok t -> assoc s t = None /\ t <> arg.
Proof. intros ops s arg t. now apply copy_first_result_is_new. Qed.
Print Assumptions C11_result_is_a_new_object.

(* 3. The model CAN exhibit the failure: editing without the copy modifies the caller's dict ... *)
Theorem C11_refuted_without_copy : exists ops s arg, assoc (fst (inplace false ops s arg)) arg <> assoc s arg.
Proof. exact edit_without_copy_mutates. Qed.
(* ... and the full "shares no mutable container" statement is FALSE for TypedDict payloads with unknown
   keys (finding F4): the copy is shallow, the values of untouched keys are the very same cells *)
Theorem C11_refuted_shallow_copy_shares_untouched_values :
  forall (s : store) (arg t : oid) (o : obj),
    assoc s arg = Some o -> snd (inplace true [] s arg) = Ok t -> assoc (fst (inplace true [] s arg)) t = Some o.
Proof. intros. eapply untouched_values_are_shared; eassumption. Qed.
Print Assumptions C11_refuted_shallow_copy_shares_untouched_values.

(* non-vacuity: the forbid variant of the tagged-union hook on {tag: 7, a: ref 9}: the copy loses the tag,
   the argument keeps it; an unknown key to delete raises and still leaves the argument alone *)
Local Open Scope N_scope.
Example C11_nonvacuous :
  let s := [(1, [(10, CAtom 7); (11, CRef 9)]); (9, [])] in
  inplace true [IPop 10] s 1 = ([(1, [(10, CAtom 7); (11, CRef 9)]); (9, []); (10, [(11, CRef 9)])], Ok 10)
  /\ fst (inplace true [IDel 99] s 1) = [(1, [(10, CAtom 7); (11, CRef 9)]); (9, []); (10, [(10, CAtom 7); (11, CRef 9)])]
  /\ snd (inplace true [IDel 99] s 1) = Err EKey.
Proof. vm_compute. repeat split. Qed.
