(* C14 -- include_subclasses preserves the exact subclass through a base-typed round trip. *)
From V.Model Require Import Base Disambig Subclasses.
From V.Gen Require Import DisSrc.
From V.Proofs Require Import DisambigProofs SubclassesProofs.
From Coq Require Import Permutation.

(* Automatic variant.  [classes] is the whole tree, each class with ALL its attributes (inherited ones
   included); [is_desc x k] = x is k or a descendant of k; [ord] is the (hash-dependent) order in which
   _get_union_type lists a class and its descendants, [choose] the iteration order of sets of
   attribute names: both arbitrary.  Whenever include_subclasses was accepted -- a disambiguator could
   be built at every node that has subclasses -- then for EVERY class k of the tree, every class x that
   is k or a descendant of k (any depth, any branching, shared and own attributes), and the payload of
   any instance of x: the hook registered for k hands the payload to x itself, in at most two hops.
   The instance built is then x's own, by x's class hook (C01/C09): no subclass attribute is lost or
   misattributed.  (Unstructuring as k dispatches on the exact runtime class, see the model.) *)
Theorem C14_automatic_exact_class :
  forall (choose : list N -> list N) (ord : list dclass -> list dclass) (classes : list dclass)
         (is_desc : N -> N -> bool) (k : N) (x : dclass) (keys : list N) (fuel : nat),
    (forall l y, In y (choose l) -> In y l) ->
    (forall l, Permutation (ord l) l) ->
    (forall y, is_desc y y = true) ->
    NoDup (ids classes) ->
    (forall c, node_ok choose ord src_dis_skip_noninit classes is_desc c = true) ->
    (exists ck, In ck classes /\ dc_id ck = k) ->
    In x classes -> is_desc (dc_id x) k = true -> payload_of src_dis_skip_noninit x keys ->
    auto_resolve choose ord src_dis_skip_noninit classes is_desc (S (S fuel)) k keys = Ok (dc_id x).
Proof. intros. eapply auto_resolve_exact; eassumption. Qed.
Print Assumptions C14_automatic_exact_class.

(* The union-strategy variant (two-pass registration around the circular reference) is not modelled:
   it is decided by the SUB lane's oracle only, where finding F16 (a leaf class under forbid_extra_keys
   rejects the tag its own unstructure hook adds) is reported as KNOWN-FINDING.  Hence `_partial`
   in the claim. *)

(* non-vacuity: Base(a) <- Mid(a, b) <- Leaf(a, b, c), and a sibling Other(a, d) *)
Local Open Scope N_scope.
Definition f14 (n : N) : dfield := {| df_name := n; df_required := true; df_init := true; df_lit := None |}.
Definition t14 : list dclass :=
  [ {| dc_id := 1; dc_fields := [f14 10] |}; {| dc_id := 2; dc_fields := [f14 10; f14 11] |};
    {| dc_id := 3; dc_fields := [f14 10; f14 11; f14 12] |}; {| dc_id := 4; dc_fields := [f14 10; f14 13] |} ].
Definition d14 (x k : N) : bool :=
  N.eqb x k || (N.eqb k 1) || (N.eqb k 2 && N.eqb x 3).
Example C14_nonvacuous :
  forallb (node_ok (fun l => l) (fun l => l) src_dis_skip_noninit t14 d14) [1; 2; 3; 4] = true /\
  auto_resolve (fun l => l) (fun l => l) src_dis_skip_noninit t14 d14 3 1 [10; 11; 12] = Ok 3 /\
  auto_resolve (fun l => l) (fun l => l) src_dis_skip_noninit t14 d14 3 1 [10; 11] = Ok 2 /\
  auto_resolve (fun l => l) (fun l => l) src_dis_skip_noninit t14 d14 3 2 [10; 11; 12] = Ok 3 /\
  auto_resolve (fun l => l) (fun l => l) src_dis_skip_noninit t14 d14 3 1 [10] = Ok 1.
Proof. vm_compute. repeat split. Qed.
