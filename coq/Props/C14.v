(* C14 -- include_subclasses preserves the exact subclass through a base-typed round trip. *)
From V.Model Require Import Base Disambig Subclasses Tagged SubUnion.
From V.Gen Require Import DisSrc SubSrc.
From V.Proofs Require Import DisambigProofs SubclassesProofs TaggedProofs SubUnionProofs.
From Coq Require Import Permutation.

(* Automatic variant.  [classes] is the whole tree, each class with ALL its attributes (inherited ones
   included); [is_desc x k] = x is k or a descendant of k; [ord] is the (hash-dependent) order in which
   _get_union_type lists a class and its descendants, [choose] the iteration order of sets of
   attribute names: both arbitrary.  Whenever include_subclasses was accepted -- a disambiguator could
   be built at every node that has subclasses -- then for EVERY class k of the tree, every class x that
   is k or a descendant of k (any depth, any branching, shared and own attributes), and the payload of
   any instance of x: the hook registered for k hands the payload to x itself, in at most two hops.
   The instance built is then x's own, by x's class hook (C01/C09): no subclass attribute is lost or
   misattributed.  (Unstructuring as k dispatches on the exact runtime class, see the model.) *)
Theorem C14_automatic_exact_class :
  forall (choose : list N -> list N) (ord : list dclass -> list dclass) (classes : list dclass)
         (is_desc : N -> N -> bool) (k : N) (x : dclass) (keys : list N) (fuel : nat),
    (forall l y, In y (choose l) -> In y l) ->
    (forall l, Permutation (ord l) l) ->
    (forall y, is_desc y y = true) ->
    NoDup (ids classes) ->
    (forall c, node_ok choose ord src_dis_skip_noninit classes is_desc c = true) ->
    (exists ck, In ck classes /\ dc_id ck = k) ->
    In x classes -> is_desc (dc_id x) k = true -> payload_of src_dis_skip_noninit x keys ->
    auto_resolve choose ord src_dis_skip_noninit classes is_desc (S (S fuel)) k keys = Ok (dc_id x).
Proof. intros. eapply auto_resolve_exact; eassumption. Qed.
Print Assumptions C14_automatic_exact_class.

(* Union-strategy variant (configure_tagged_union), the two-pass registration of _include_subclasses_with_union_strategy
   (Model/SubUnion.v; the two facts it depends on -- descendants, not only direct children, make a class a parent; the second
   pass goes ancestors first -- are read off the source by T1: src_sub_transitive, src_sub_anc_first).  For ANY list of
   configured classes without repetition (the root and the `subclasses` argument in any order, possibly skipping intermediate
   classes), any tag generator that gives distinct classes distinct tags, any tag name that is not an attribute of the
   instance, forbid_extra_keys on or off: for every configured class K and every configured PROPER descendant x of K,
   unstructuring an instance of x as K gives x's own dict plus exactly the tag, and structuring that as K runs x's own
   first-pass hook on x's own dict (the tag removed from a copy when extra keys are forbidden, left in place and ignored
   otherwise); likewise for an instance of K itself whenever K has a configured proper descendant. *)
Theorem C14_union_strategy_exact_class :
  forall (V : Type) (veq : V -> V -> bool) (classes : list N) (is_desc is_child : N -> N -> bool) (tag : N -> V) (tag_name : N)
         (forbid : bool) (fields : N -> list N) (k x : N) (own : list (N * V)),
    (forall v, veq v v = true) -> NoDup classes -> (forall c, is_desc c c = true) ->
    (forall a b, In a classes -> In b classes -> veq (tag a) (tag b) = true -> a = b) ->
    In k classes -> In x classes -> x <> k -> is_desc x k = true -> ~ In tag_name (map fst own) ->
    (un_sub V classes is_desc is_child tag tag_name forbid fields src_sub_transitive k x own = Ok (own ++ [(tag_name, tag x)]) /\
     st_sub V veq classes is_desc is_child tag tag_name forbid src_sub_transitive src_sub_anc_first k (own ++ [(tag_name, tag x)])
       = Ok (x, if forbid then own else own ++ [(tag_name, tag x)])) /\
    (un_sub V classes is_desc is_child tag tag_name forbid fields src_sub_transitive k k own = Ok (own ++ [(tag_name, tag k)]) /\
     st_sub V veq classes is_desc is_child tag tag_name forbid src_sub_transitive src_sub_anc_first k (own ++ [(tag_name, tag k)])
       = Ok (k, if forbid then own else own ++ [(tag_name, tag k)])).
Proof.
  intros V veq classes is_desc is_child tag tag_name forbid fields k x own Hr Hn Hd Hi Hk Hx Hne Hxk Hf.
  change src_sub_transitive with true. change src_sub_anc_first with true. split.
  - now apply sub_union_roundtrip.
  - now apply (sub_union_roundtrip_self V veq Hr classes is_desc is_child tag tag_name forbid fields Hn Hd Hi k x own).
Qed.
Print Assumptions C14_union_strategy_exact_class.

(* A configured LEAF class structured as itself keeps its first-pass hook and receives the payload WITH the tag its own
   unstructure hook added -- harmless without forbid_extra_keys, rejected with it: finding F16 (open), stated here as what the
   code does. *)
Theorem C14_union_strategy_leaf_keeps_the_tag :
  forall (V : Type) (classes : list N) (is_desc is_child : N -> N -> bool) (tag : N -> V) (tag_name : N)
         (forbid : bool) (fields : N -> list N) (veq : V -> V -> bool) (k other : N) (own : list (N * V)),
    In k classes -> In other classes -> has_subclasses classes is_desc is_child src_sub_transitive other = true ->
    length (sub_members classes is_desc k) = 1%nat -> ~ In tag_name (map fst own) ->
    un_sub V classes is_desc is_child tag tag_name forbid fields src_sub_transitive k k own = Ok (own ++ [(tag_name, tag k)]) /\
    st_sub V veq classes is_desc is_child tag tag_name forbid src_sub_transitive src_sub_anc_first k (own ++ [(tag_name, tag k)])
      = Ok (k, own ++ [(tag_name, tag k)]).
Proof. intros. change src_sub_transitive with true in *. change src_sub_anc_first with true. eapply sub_union_leaf; eassumption. Qed.
Print Assumptions C14_union_strategy_leaf_keeps_the_tag.

(* non-vacuity: Base(a) <- Mid(a, b) <- Leaf(a, b, c), and a sibling Other(a, d) *)
Local Open Scope N_scope.
Definition f14 (n : N) : dfield := {| df_name := n; df_required := true; df_init := true; df_lit := None |}.
Definition t14 : list dclass :=
  [ {| dc_id := 1; dc_fields := [f14 10] |}; {| dc_id := 2; dc_fields := [f14 10; f14 11] |};
    {| dc_id := 3; dc_fields := [f14 10; f14 11; f14 12] |}; {| dc_id := 4; dc_fields := [f14 10; f14 13] |} ].
Definition d14 (x k : N) : bool :=
  N.eqb x k || (N.eqb k 1) || (N.eqb k 2 && N.eqb x 3).
Example C14_nonvacuous :
  forallb (node_ok (fun l => l) (fun l => l) src_dis_skip_noninit t14 d14) [1; 2; 3; 4] = true /\
  auto_resolve (fun l => l) (fun l => l) src_dis_skip_noninit t14 d14 3 1 [10; 11; 12] = Ok 3 /\
  auto_resolve (fun l => l) (fun l => l) src_dis_skip_noninit t14 d14 3 1 [10; 11] = Ok 2 /\
  auto_resolve (fun l => l) (fun l => l) src_dis_skip_noninit t14 d14 3 2 [10; 11; 12] = Ok 3 /\
  auto_resolve (fun l => l) (fun l => l) src_dis_skip_noninit t14 d14 3 1 [10] = Ok 1.
Proof. vm_compute. repeat split. Qed.

(* non-vacuity, union strategy: the chain 1 > 2 > 3 with a sibling 4; only the grand-child and the sibling are configured next to
   the root (the subclasses tuple skips class 2): the root's union still reaches class 3 (finding F32, repaired) *)
Definition kd14 (x k : N) : bool := N.eqb x k || N.eqb k 1 || (N.eqb k 2 && N.eqb x 3).
Definition kc14 (x k : N) : bool := (N.eqb k 1 && (N.eqb x 2 || N.eqb x 4)) || (N.eqb k 2 && N.eqb x 3).
Example C14_union_nonvacuous :
  un_sub N [1; 3; 4] kd14 kc14 (fun c => 100 + c) 99 true (fun _ => [10]) src_sub_transitive 1 3 [(10, 5); (12, 6)]
    = Ok [(10, 5); (12, 6); (99, 103)] /\
  st_sub N N.eqb [1; 3; 4] kd14 kc14 (fun c => 100 + c) 99 true src_sub_transitive src_sub_anc_first 1 [(10, 5); (12, 6); (99, 103)]
    = Ok (3, [(10, 5); (12, 6)]).
Proof. vm_compute. split; reflexivity. Qed.
