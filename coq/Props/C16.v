(* C16 -- preconfigured converters: dumps never fails, loads(dumps(x, T), T) == x.  (partial: the JSON converter inside the model; see below) *)
From Coq Require Import Lia.
From V.Model Require Import Base Templates Conv ConvSpec ConvLane Preconf PreconfSpec.
From V.Gen Require Import GenSrc.
From V.Proofs Require Import SrcObligationsGen ConvPrim PreconfProofs ConvRoundtrip JsonRoundtrip YamlRoundtrip ConvCfg.

(* The JSON converter (preconf/json.py) is the plain Converter plus a context-free post-processing of its
   unstructured form ([jsonify]: bytes -> base85 text, abc.Set -> list); json.dumps accepts exactly
   [jsonable] data.  The base85 codec and json's key coercion are oracles, computed by the harness with the
   real functions; that base85 text is text is the only thing assumed of them here. *)

(* "dumps never fails -- the unstructured data contains only what the library can encode": for EVERY
   environment (enum values primitive), type expression of the nested universe and value x of that type,
   under either strategy: if the converter unstructures x to u, and the mapping keys in u are atoms (the
   documented limit of JSON object keys), then what the JSON converter hands to json.dumps is encodable. *)
Theorem C16_json_dumps_total :
  forall (E : env) (b85 : val -> option val) (dv tup forbid : bool),
    (forall en v, In v (e_enum E en) -> primitive v = true) ->
    (forall e, exists s, b85 (VAtom PBytes e) = Some (VAtom PStr s)) ->
    forall (n : nat) (t : ty) (x u : val),
      uval E x t -> unstructure E (mk_cfg true dv tup forbid) n t x = Ok u ->
      keys_atomic u = true -> jsonable (jsonify b85 u) = true.
Proof.
  intros E b85 dv tup forbid He Hb n t x u Hv Hu Hk.
  apply jsonify_jsonable; [exact Hb | | exact Hk].
  apply (unstructure_primitive E (mk_cfg true dv tup forbid) eq_refl He n t x u Hv Hu).
Qed.
Print Assumptions C16_json_dumps_total.

(* "loads(dumps(x, unstructure_as=T), T) equals x", inside the model.  [wire] is dumps followed by the LIBRARY's loads on
   what the JSON converter hands to json.dumps: bytes have become base85 text, sets and frozensets lists, tuples (also the
   tuples of the tuple strategy) lists, every mapping key the string json writes for it.  For EVERY environment of classes and
   enums, every type expression of the nested universe and every value x of it within JSON's limits ([jvalue]: exact classes at
   every depth; Any-typed / untyped positions, literals and enum values that are None or atoms other than bytes; mapping keys
   of str / int / float types, also behind NewType / Annotated; every attribute set), either validation mode on either
   side, either strategy: if the converter unstructures x to u, then structuring [wire u] -- with the JSON converter's hooks:
   e_coerce E PBytes is its bytes structure hook -- returns x itself (Leibniz: equal and of the same classes at every depth:
   sets are sets again, tuples tuples, int keys ints, bytes bytes).
   Assumed of Python and the base85 codec, not of cattrs (hypotheses 1-3, computed per case by the real functions in the PRE
   lane): int(5) is 5 etc.; b85decode(b85encode(b)) == b and base85 text is a str; int / float of the string json.dumps writes
   for an int / float key is that key.  Bool keys are finding F19 and outside [jkey_ty]. *)
Definition cfgJ (dv tup : bool) : ccfg := mk_cfg true dv tup false.

Theorem C16_json_roundtrip :
  forall (E : env) (b85 keystr : val -> option val) (dvU dvS tup : bool),
    (forall p e, p <> PBytes -> e_coerce E p (VAtom p e) = Ok (VAtom p e)) ->
    (forall e, exists s, b85 (VAtom PBytes e) = Some (VAtom PStr s) /\ e_coerce E PBytes (VAtom PStr s) = Ok (VAtom PBytes e)) ->
    (forall p e, p = PInt \/ p = PFloat -> exists s, keystr (VAtom p e) = Some (VAtom PStr s) /\ e_coerce E p (VAtom PStr s) = Ok (VAtom p e)) ->
    (forall c cd, e_class E c = Some cd -> rt_class_ok (cfgJ dvS tup) c cd) ->
    forall (n : nat) (t : ty) (x u : val),
      jvalue E x t ->
      unstructure E (cfgJ dvU tup) n t x = Ok u ->
      structure E (cfgJ dvS tup) n t (wire b85 keystr u) = Ok x.
Proof.
  intros E b85 keystr dvU dvS tup Hco Hb Hk Henv.
  apply json_roundtrip; [reflexivity | reflexivity | reflexivity | intros _; exact src_tuple_passes_kw_only_by_keyword | reflexivity | reflexivity
                         | apply mk_cfg_recheck | apply mk_cfg_kw_last | exact Hco | exact Hb | exact Hk | exact Henv].
Qed.
Print Assumptions C16_json_roundtrip.

(* never vacuous, and "dumps never fails" for the converter's half: for every value within the limits there IS an amount of
   fuel (linear in the size of the value) for which unstructure returns, and the wire image of what it returns comes back as x *)
Theorem C16_json_roundtrip_total :
  forall (E : env) (b85 keystr : val -> option val) (dvU dvS tup : bool) (M : nat),
    (forall p e, p <> PBytes -> e_coerce E p (VAtom p e) = Ok (VAtom p e)) ->
    (forall e, exists s, b85 (VAtom PBytes e) = Some (VAtom PStr s) /\ e_coerce E PBytes (VAtom PStr s) = Ok (VAtom PBytes e)) ->
    (forall p e, p = PInt \/ p = PFloat -> exists s, keystr (VAtom p e) = Some (VAtom PStr s) /\ e_coerce E p (VAtom PStr s) = Ok (VAtom p e)) ->
    (forall c cd, e_class E c = Some cd -> rt_class_ok (cfgJ dvS tup) c cd) ->
    (forall c cd nm ft, e_class E c = Some cd -> assoc (cd_types cd) nm = Some ft -> maxw ft <= M) -> 2 <= M ->
    forall (t : ty) (x : val),
      jvalue E x t -> maxw t <= M ->
      exists n u, unstructure E (cfgJ dvU tup) n t x = Ok u /\ structure E (cfgJ dvS tup) n t (wire b85 keystr u) = Ok x.
Proof.
  intros E b85 keystr dvU dvS tup M Hco Hb Hk Henv HM HM2.
  apply json_roundtrip_total; [reflexivity | reflexivity | reflexivity | intros _; exact src_tuple_passes_kw_only_by_keyword | reflexivity | reflexivity
                               | apply mk_cfg_recheck | apply mk_cfg_kw_last | exact Hco | exact Hb | exact Hk | exact Henv | exact HM | exact HM2].
Qed.
Print Assumptions C16_json_roundtrip_total.

(* the restriction on Any-typed positions cannot be dropped: bytes at an Any-typed position come back as text *)
Theorem C16_bytes_at_any_refuted :
  exists (E : env) (b85 keystr : val -> option val) (x u : val),
    unstructure E (cfgJ true false) 5 TAny x = Ok u /\ structure E (cfgJ true false) 5 TAny (wire b85 keystr u) <> Ok x.
Proof.
  exists {| e_class := fun _ => None; e_enum := fun _ => []; e_coerce := fun _ v => Ok v; e_in := fun _ _ => Err EType; e_iter := fun _ => Err EType; e_len := fun _ => Err EType |},
         (fun v => match v with VAtom PBytes e => Some (VAtom PStr (100 + e)) | _ => None end), (fun _ => None), (VAtom PBytes 7), (VAtom PBytes 7).
  split; [reflexivity | vm_compute; discriminate].
Qed.
Print Assumptions C16_bytes_at_any_refuted.

Local Open Scope N_scope.
(* non-vacuity of the round trip: a class with a mapping keyed by ints whose values are sets of bytes, a heterogeneous
   tuple holding a float-keyed mapping, and an untyped attribute; the hypotheses hold for a concrete codec, the value is a
   value within the limits, and the theorem's conclusion computes *)
Definition j_coerce (p : prim) (o : val) : result val :=
  match p, o with
  | PBytes, VAtom PStr s => if N.leb 100 s then Ok (VAtom PBytes (s - 100)) else Err EValue
  | PInt, VAtom PStr s => if N.leb 200 s then Ok (VAtom PInt (s - 200)) else Err EValue
  | PFloat, VAtom PStr s => if N.leb 300 s then Ok (VAtom PFloat (s - 300)) else Err EValue
  | _, VAtom k e => if prim_eqb k p then Ok o else Err EValue
  | _, _ => Err EType
  end.
Definition j_b85 (v : val) : option val := match v with VAtom PBytes e => Some (VAtom PStr (100 + e)) | _ => None end.
Definition j_keystr (v : val) : option val :=
  match v with VAtom PInt e => Some (VAtom PStr (200 + e)) | VAtom PFloat e => Some (VAtom PStr (300 + e)) | _ => None end.
Definition j_fields : list (field val) :=
  [ {| f_name := 1; f_alias := 1; f_dflt := None; f_init := true; f_kw_only := false; f_kw_seen := false; f_conv := false |};
    {| f_name := 2; f_alias := 2; f_dflt := None; f_init := true; f_kw_only := false; f_kw_seen := false; f_conv := false |};
    {| f_name := 3; f_alias := 3; f_dflt := Some VNone; f_init := true; f_kw_only := false; f_kw_seen := false; f_conv := false |} ].
Definition j_cd : cdef :=
  {| cd_fields := j_fields;
     cd_types := [(1, TDict (TPrim PInt) (TSet (TPrim PBytes))); (2, TTuple [TPrim PBytes; TDict (TNewType 5 (TPrim PFloat)) (TOpt (TClass 1))])] |}.
Definition j_env : env :=
  {| e_class := fun c => if N.eqb c 1 then Some j_cd else None; e_enum := fun _ => [];
     e_coerce := j_coerce; e_in := fun _ _ => Err EType; e_iter := fun _ => Err EType; e_len := fun _ => Err EType |}.
Definition j_inner : val := VInst 1 [(1, VDict []); (2, VTuple [VAtom PBytes 2; VDict []]); (3, VAtom PStr 9)].
Definition j_x : val :=
  VInst 1 [(1, VDict [(VAtom PInt 4, VSet [VAtom PBytes 7; VAtom PBytes 8]); (VAtom PInt 5, VSet [])]);
           (2, VTuple [VAtom PBytes 1; VDict [(VAtom PFloat 6, j_inner); (VAtom PFloat 3, VNone)]]); (3, VNone)].

Example C16_json_roundtrip_runs :
  unstructure j_env (cfgJ true false) 12 (TClass 1) j_x
    = Ok (VDict [(VAtom PStr 1, VDict [(VAtom PInt 4, VSet [VAtom PBytes 7; VAtom PBytes 8]); (VAtom PInt 5, VSet [])]);
                 (VAtom PStr 2, VTuple [VAtom PBytes 1; VDict [(VAtom PFloat 6, VDict [(VAtom PStr 1, VDict []); (VAtom PStr 2, VTuple [VAtom PBytes 2; VDict []]); (VAtom PStr 3, VAtom PStr 9)]);
                                                                 (VAtom PFloat 3, VNone)]]);
                 (VAtom PStr 3, VNone)])
  /\ match unstructure j_env (cfgJ true false) 12 (TClass 1) j_x with
     | Ok u => wire j_b85 j_keystr u
               = VDict [(VAtom PStr 1, VDict [(VAtom PStr 204, VList [VAtom PStr 107; VAtom PStr 108]); (VAtom PStr 205, VList [])]);
                        (VAtom PStr 2, VList [VAtom PStr 101; VDict [(VAtom PStr 306, VDict [(VAtom PStr 1, VDict []); (VAtom PStr 2, VList [VAtom PStr 102; VDict []]); (VAtom PStr 3, VAtom PStr 9)]);
                                                                       (VAtom PStr 303, VNone)]]);
                        (VAtom PStr 3, VNone)]
               /\ forall dvS, structure j_env (cfgJ dvS false) 12 (TClass 1) (wire j_b85 j_keystr u) = Ok j_x
     | _ => False end.
Proof. split; [vm_compute; reflexivity|]. vm_compute. split; [reflexivity|]. intros [|]; reflexivity. Qed.

Example C16_json_roundtrip_hypotheses :
  (forall p e, p <> PBytes -> e_coerce j_env p (VAtom p e) = Ok (VAtom p e)) /\
  (forall e, exists s, j_b85 (VAtom PBytes e) = Some (VAtom PStr s) /\ e_coerce j_env PBytes (VAtom PStr s) = Ok (VAtom PBytes e)) /\
  (forall p e, p = PInt \/ p = PFloat -> exists s, j_keystr (VAtom p e) = Some (VAtom PStr s) /\ e_coerce j_env p (VAtom PStr s) = Ok (VAtom p e)) /\
  (forall dvS c cd, e_class j_env c = Some cd -> rt_class_ok (cfgJ dvS false) c cd) /\
  jvalue j_env j_x (TClass 1).
Proof.
  assert (Hsub : forall a e, (a + e - a = e)%N) by (intros; lia).
  assert (Hle : forall a e, N.leb a (a + e) = true) by (intros; apply N.leb_le; lia).
  split; [|split; [|split; [|split]]].
  - intros p e Hp. destruct p; try reflexivity.
  - intros e. exists (100 + e). split; [reflexivity|]. unfold j_env; cbn [e_coerce]; unfold j_coerce. rewrite Hle, Hsub. reflexivity.
  - intros p e [->| ->]; [exists (200 + e) | exists (300 + e)]; (split; [reflexivity|]); unfold j_env; cbn [e_coerce]; unfold j_coerce; rewrite Hle, Hsub; reflexivity.
  - intros dvS c cd H. cbn in H. destruct (N.eqb c 1); [|discriminate]. inversion H; subst cd. split.
    + constructor; cbn.
      * repeat constructor; cbn; intuition discriminate.
      * repeat constructor; cbn; intuition discriminate.
      * intros f [<-|[<-|[<-|[]]]]; reflexivity.
      * reflexivity.
      * intros f [<-|[<-|[<-|[]]]]; cbn; intros; reflexivity.
    + intros f [<-|[<-|[<-|[]]]]; split; reflexivity.
  - unfold j_x, j_inner.
    repeat first
      [ reflexivity
      | apply Forall_nil | apply Forall_cons | apply Forall2_nil | apply Forall2_cons | split
      | apply JPrim | apply JOptNone
      | (eapply JClass; [reflexivity | reflexivity |])
      | (apply JDict; [reflexivity | | reflexivity])
      | (apply JSet; [reflexivity | | reflexivity])
      | apply JTuple
      | (apply JAny; reflexivity)
      | (apply JNewType; apply JPrim)
      | (apply JOptSome)
      | progress cbn [fst snd field_ty j_cd cd_types assoc N.eqb Pos.eqb] ].
Qed.
Local Close Scope N_scope.

(* The pyyaml converter (preconf/pyyaml.py) inside the model.  [ywire] is dumps followed by the LIBRARY's loads on what the
   converter hands to yaml.safe_dump: frozensets have become lists (the converter's collection override), tuples -- also the
   tuples of the tuple strategy -- come back as lists (safe_dump writes them as sequences); sets, bytes and scalar mapping keys
   of every kind survive.  For EVERY environment, nested type and value x of it ([rt_value], as in C01: no restriction on bytes
   or on the key types beyond hashable leaf types), either validation mode on either side, either strategy: if the converter
   unstructures x to u, then structuring [ywire u] returns x itself.  Assumed of Python: int(5) is 5 etc. *)
Theorem C16_yaml_roundtrip :
  forall (E : env) (dvU dvS tup ann : bool),
    (forall p e, e_coerce E p (VAtom p e) = Ok (VAtom p e)) ->
    (forall c cd, e_class E c = Some cd -> rt_class_ok (cfgJ dvS tup) c cd) ->
    forall (n : nat) (t : ty) (x u : val),
      rt_value E ann x t ->
      unstructure E (cfgJ dvU tup) n t x = Ok u ->
      structure E (cfgJ dvS tup) n t (ywire u) = Ok x.
Proof.
  intros E dvU dvS tup ann Hco Henv.
  apply yaml_roundtrip; [reflexivity | reflexivity | reflexivity | intros _; exact src_tuple_passes_kw_only_by_keyword | reflexivity | reflexivity
                         | apply mk_cfg_recheck | apply mk_cfg_kw_last | exact Hco | exact Henv].
Qed.
Print Assumptions C16_yaml_roundtrip.

Theorem C16_yaml_roundtrip_total :
  forall (E : env) (dvU dvS tup ann : bool) (M : nat),
    (forall p e, e_coerce E p (VAtom p e) = Ok (VAtom p e)) ->
    (forall c cd, e_class E c = Some cd -> rt_class_ok (cfgJ dvS tup) c cd) ->
    (forall c cd nm ft, e_class E c = Some cd -> assoc (cd_types cd) nm = Some ft -> maxw ft <= M) -> 2 <= M ->
    forall (t : ty) (x : val),
      rt_value E ann x t -> maxw t <= M ->
      exists n u, unstructure E (cfgJ dvU tup) n t x = Ok u /\ structure E (cfgJ dvS tup) n t (ywire u) = Ok x.
Proof.
  intros E dvU dvS tup ann M Hco Henv HM HM2.
  apply yaml_roundtrip_total; [reflexivity | reflexivity | reflexivity | intros _; exact src_tuple_passes_kw_only_by_keyword | reflexivity | reflexivity
                               | apply mk_cfg_recheck | apply mk_cfg_kw_last | exact Hco | exact Henv | exact HM | exact HM2].
Qed.
Print Assumptions C16_yaml_roundtrip_total.

Local Open Scope N_scope.
Example C16_yaml_nonvacuous :
  let u := VDict [(VAtom PStr 1, VFrozenSet [VAtom PBytes 7; VAtom PBytes 8]); (VAtom PStr 2, VDict [(VAtom PBool 3, VTuple [VAtom PInt 4; VSet [VNone]])])] in
  yamlify u = VDict [(VAtom PStr 1, VList [VAtom PBytes 7; VAtom PBytes 8]); (VAtom PStr 2, VDict [(VAtom PBool 3, VTuple [VAtom PInt 4; VSet [VNone]])])]
  /\ ywire u = VDict [(VAtom PStr 1, VList [VAtom PBytes 7; VAtom PBytes 8]); (VAtom PStr 2, VDict [(VAtom PBool 3, VList [VAtom PInt 4; VSet [VNone]])])]
  /\ yamlable u = false /\ yamlable (yamlify u) = true.
Proof. vm_compute. repeat split. Qed.
Local Close Scope N_scope.

(* STILL PARTIAL.  The serialisation library itself is data: [jsonable] / [json_rt] are its model, compared with the real
   json.dumps / json.loads on every case of the PRE lane, like [jsonify] with the real converter's unstructured form and
   the model's structure side (the plain Converter's structure with the bytes hook's table) with the real loads.  datetime /
   date, Counter, literals with enums, the union passthrough, typed NamedTuples in pyyaml, and msgspec: PRE lane only (round trip + user hooks). *)

Local Open Scope N_scope.
Example C16_nonvacuous :
  let b85 := fun v => match v with VAtom PBytes e => Some (VAtom PStr (100 + e)) | _ => None end in
  let keys := fun v => match v with VAtom PInt e => Some (VAtom PStr (200 + e)) | _ => None end in
  let u := VDict [(VAtom PStr 1, VSet [VAtom PBytes 7; VAtom PBytes 8]); (VAtom PStr 2, VDict [(VAtom PInt 3, VTuple [VAtom PInt 4; VNone])])] in
  jsonify b85 u = VDict [(VAtom PStr 1, VList [VAtom PStr 107; VAtom PStr 108]); (VAtom PStr 2, VDict [(VAtom PInt 3, VTuple [VAtom PInt 4; VNone])])]
  /\ json_rt keys (jsonify b85 u) = VDict [(VAtom PStr 1, VList [VAtom PStr 107; VAtom PStr 108]); (VAtom PStr 2, VDict [(VAtom PStr 203, VList [VAtom PInt 4; VNone])])]
  /\ jsonable u = false /\ jsonable (jsonify b85 u) = true.
Proof. vm_compute. repeat split. Qed.
