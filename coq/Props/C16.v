(* C16 -- preconfigured converters: dumps never fails, loads(dumps(x, T), T) == x.  (partial: see below) *)
From V.Model Require Import Base Templates Conv ConvSpec ConvLane Preconf.
From V.Gen Require Import GenSrc.
From V.Proofs Require Import ConvPrim PreconfProofs ConvCfg.

(* The JSON converter (preconf/json.py) is the plain Converter plus a context-free post-processing of its
   unstructured form ([jsonify]: bytes -> base85 text, abc.Set -> list); json.dumps accepts exactly
   [jsonable] data.  The base85 codec and json's key coercion are oracles, computed by the harness with the
   real functions; that base85 text is text is the only thing assumed of them here. *)

(* "dumps never fails -- the unstructured data contains only what the library can encode": for EVERY
   environment (enum values primitive), type expression of the nested universe and value x of that type,
   under either strategy: if the converter unstructures x to u, and the mapping keys in u are atoms (the
   documented limit of JSON object keys), then what the JSON converter hands to json.dumps is encodable. *)
Theorem C16_json_dumps_total :
  forall (E : env) (b85 : val -> option val) (dv tup forbid : bool),
    (forall en v, In v (e_enum E en) -> primitive v = true) ->
    (forall e, exists s, b85 (VAtom PBytes e) = Some (VAtom PStr s)) ->
    forall (n : nat) (t : ty) (x u : val),
      uval E x t -> unstructure E (mk_cfg true dv tup forbid) n t x = Ok u ->
      keys_atomic u = true -> jsonable (jsonify b85 u) = true.
Proof.
  intros E b85 dv tup forbid He Hb n t x u Hv Hu Hk.
  apply jsonify_jsonable; [exact Hb | | exact Hk].
  apply (unstructure_primitive E (mk_cfg true dv tup forbid) eq_refl He n t x u Hv Hu).
Qed.
Print Assumptions C16_json_dumps_total.

(* PARTIAL.  No theorem states loads(dumps(x, T), T) == x: it would need the serialisation library itself.
   What is checked on every run instead (PRE lane): for json, pyyaml and msgspec -- the libraries importable
   here -- dumps succeeds and the round trip returns a deeply equal value on generated worlds including bytes,
   datetime, date, sets, enums, literals and non-string mapping keys; the model's [jsonify] equals the real
   JSON converter's unstructured form and the model's [json_rt] equals json.loads(json.dumps(.)) on every
   case; user hooks are honoured at top level, in a list, inside an attrs class and inside a dataclass (the
   precedence rule itself is C07's theorem). *)

Local Open Scope N_scope.
Example C16_nonvacuous :
  let b85 := fun v => match v with VAtom PBytes e => Some (VAtom PStr (100 + e)) | _ => None end in
  let keys := fun v => match v with VAtom PInt e => Some (VAtom PStr (200 + e)) | _ => None end in
  let u := VDict [(VAtom PStr 1, VSet [VAtom PBytes 7; VAtom PBytes 8]); (VAtom PStr 2, VDict [(VAtom PInt 3, VTuple [VAtom PInt 4; VNone])])] in
  jsonify b85 u = VDict [(VAtom PStr 1, VList [VAtom PStr 107; VAtom PStr 108]); (VAtom PStr 2, VDict [(VAtom PInt 3, VTuple [VAtom PInt 4; VNone])])]
  /\ json_rt keys (jsonify b85 u) = VDict [(VAtom PStr 1, VList [VAtom PStr 107; VAtom PStr 108]); (VAtom PStr 2, VDict [(VAtom PStr 203, VList [VAtom PInt 4; VNone])])]
  /\ jsonable u = false /\ jsonable (jsonify b85 u) = true.
Proof. vm_compute. repeat split. Qed.
