(* C05 -- detailed validation reports exactly the faulty paths, one leaf error per fault. *)
From Coq Require Import Lia.
From V.Model Require Import Base Templates Conv ConvErr.
From V.Gen Require Import GenSrc.
From V.Proofs Require Import TemplatesProofs ConvErrProofs ConvErrGlobal ConvCfg.

(* The exception trees are those Model/Conv.v builds (EIterVal / EClassVal with the notes the hooks attach);
   [paths] is cattrs.transform_error.  No hypothesis on the payload anywhere: the statements hold for every
   number and placement of faults. *)

(* 1. Collections (list / Sequence / homogeneous tuple loops): the group holds EXACTLY one entry per element
      whose hook failed -- that element's own error, annotated with that element's index, in order -- and
      nothing for the elements that succeeded; when no element fails, the structured elements are returned. *)
Theorem C05_sequence_group_is_exact :
  forall (cfg : ccfg) (f : val -> result val) (l : list val),
    c_dv cfg = true -> (forall x, In x l -> f x <> OutOfFuel) ->
    coll cfg f l = match errs_at f l 0 with [] => Ok (oks f l) | errs => Err (EIterVal errs) end
    /\ forall k e, In (Some k, e) (errs_at f l 0) <-> exists j x, nth_error l j = Some x /\ f x = Err e /\ k = N.of_nat j.
Proof.
  intros cfg f l Hdv Hf. split; [now apply coll_exact|]. intros k e. rewrite errs_at_spec.
  split; intros (j & x & H1 & H2 & H3); exists j, x; repeat split; auto; lia.
Qed.
Print Assumptions C05_sequence_group_is_exact.

(* ... hence transform_error reports, for a failing sequence, exactly the paths of the failing elements
   below [index], in index order, and nothing else *)
Theorem C05_sequence_paths :
  forall (E : env) (cfg : ccfg) (n : nat) (t : ty) (o : val) (l : list val) (e : errkind) (p : list step),
    c_dv cfg = true -> is_any t = false -> iter_val E o = Ok l ->
    (forall x, In x l -> structure E cfg n t x <> OutOfFuel) ->
    structure E cfg (S n) (TList t) o = Err e ->
    paths e p = flat_map (child_paths SIdx p) (errs_at (structure E cfg n t) l 0).
Proof.
  intros E cfg n t o l e p Hdv Ha Hi Hf H. cbn [structure] in H. rewrite Hi in H. cbn [bind] in H. rewrite Ha in H.
  rewrite (coll_exact cfg Hdv _ l Hf) in H.
  destruct (errs_at (structure E cfg n t) l 0) as [|ne r] eqn:Ee; cbn [bind] in H; [discriminate|]. inversion H; subst e.
  rewrite paths_iter. rewrite <- Ee.
  assert (G : forall subs : list (option N * errkind), (forall ne, In ne subs -> exists k, fst ne = Some k) -> flat_map (own_paths p) subs = []).
  { induction subs as [|a r' IH]; intros Hn; [reflexivity|]. cbn [flat_map].
    destruct (Hn a (or_introl eq_refl)) as (k & Hk). unfold own_paths at 1. rewrite Hk. cbn [app]. apply IH. intros x Hx. apply Hn. now right. }
  assert (X : flat_map (own_paths p) (errs_at (structure E cfg n t) l 0) = []) by (apply G; apply errs_at_noted).
  rewrite X. apply app_nil_r.
Qed.
Print Assumptions C05_sequence_paths.

(* 2. Heterogeneous tuples and mappings: the same exactness (tuples: per failing position; mappings: per
      entry whose value, or else whose key / insertion, failed, annotated with the entry's key). *)
Theorem C05_tuple_group_is_exact :
  forall (f : ty -> val -> result val) (ts : list ty) (l : list val),
    (forall t x, f t x <> OutOfFuel) ->
    zip_det f ts l 0 [] [] = Ok (zoks f ts l, zerrs f ts l 0).
Proof. intros. now rewrite zip_det_exact. Qed.
Theorem C05_mapping_group_is_exact :
  forall (fk fv : val -> result val) (kvs : list (val * val)),
    (forall x, fk x <> OutOfFuel) -> (forall x, fv x <> OutOfFuel) ->
    map_det fk fv kvs [] [] = Ok (moks fk fv kvs [], merrs fk fv kvs []).
Proof. intros. now rewrite map_det_exact. Qed.
Print Assumptions C05_tuple_group_is_exact.
Print Assumptions C05_mapping_group_is_exact.

(* 3. Classes (any class, options and overrides, any handlers, any dict payload): the class-level group
      holds exactly one entry per attempted attribute (required, or optional with its key present) whose
      handler -- or whose key lookup -- failed, annotated with the attribute's name, in attribute order,
      followed by at most one un-annotated ForbiddenExtraKeysError naming the class and exactly the unknown
      keys; nothing for attributes that were structured successfully or legitimately absent. *)
Theorem C05_class_group_is_exact :
  forall (V : Type) (K : N -> V -> result V) (opt : topts) (ov : N -> fov) (hs : N -> V -> result V) (d : list (N * V)) (fs : list (field V)),
    (forall f, In f fs -> fetch V opt ov hs (dict_obj d) f <> OutOfFuel) ->
    field_errs V opt ov hs d (filter f_init (filter (included V opt ov) fs)) ++ forbidden_entry V opt ov d fs <> [] ->
    tpl_detailed V K opt ov hs src_recheck fs (dict_obj d)
    = Err (EClassVal (t_cl opt) (field_errs V opt ov hs d (filter f_init (filter (included V opt ov) fs)) ++ forbidden_entry V opt ov d fs)).
Proof. intros. now apply detailed_errors. Qed.
Print Assumptions C05_class_group_is_exact.

(* 4. transform_error is a total function on these trees ([paths] is a Gallina function: it cannot raise),
      and it walks them compositionally: a leaf is reported at its own path; a group reports, for every
      annotated child in order, the child's paths below .name / [index], then its un-annotated entries at
      its own path. *)
Theorem C05_transform_is_compositional :
  (forall e p, is_group e = false -> paths e p = [p]) /\
  (forall subs p, paths (EIterVal subs) p = flat_map (child_paths SIdx p) subs ++ flat_map (own_paths p) subs) /\
  (forall c subs p, paths (EClassVal c subs) p = flat_map (child_paths SField p) subs ++ flat_map (own_paths p) subs).
Proof. split; [exact paths_leaf | split; [exact paths_iter | exact paths_class]]. Qed.
Print Assumptions C05_transform_is_compositional.

(* 5. ... and position-independently: what a tree reports below a position is what it reports at the root, prefixed with
      that position.  Hence, at ANY depth, the paths of a failing sequence are, for each failing element in index order and
      nothing else, [index] followed by the paths the element's own error reports (just [index] when that error is a leaf). *)
Theorem C05_paths_are_prefix_compositional :
  forall e p, paths e p = map (fun s => p ++ s) (paths e []).
Proof. exact paths_prefix. Qed.
Print Assumptions C05_paths_are_prefix_compositional.

Theorem C05_sequence_paths_any_depth :
  forall (E : env) (cfg : ccfg) (n : nat) (t : ty) (o : val) (l : list val) (e : errkind) (p : list step),
    c_dv cfg = true -> is_any t = false -> iter_val E o = Ok l ->
    (forall x, In x l -> structure E cfg n t x <> OutOfFuel) ->
    structure E cfg (S n) (TList t) o = Err e ->
    paths e p = flat_map (fun ne => match ne with
                                    | (Some k, s) => map (fun q => p ++ SIdx k :: q) (paths s [])
                                    | (None, _) => []
                                    end) (errs_at (structure E cfg n t) l 0).
Proof.
  intros E cfg n t o l e p Hdv Ha Hi Hf H.
  rewrite (C05_sequence_paths E cfg n t o l e p Hdv Ha Hi Hf H).
  induction (errs_at (structure E cfg n t) l 0) as [|[[k|] s] r IH]; cbn [flat_map]; [reflexivity| |exact IH].
  rewrite IH. f_equal. unfold child_paths. destruct (is_group s) eqn:Eg.
  - rewrite paths_prefix. apply map_ext. intros q. now rewrite <- app_assoc.
  - rewrite (paths_leaf s [] Eg). cbn [map]. reflexivity.
Qed.
Print Assumptions C05_sequence_paths_any_depth.

(* 6. The global statement.  [fpaths] (Proofs/ConvErrGlobal.v) is the specification of "the fault positions": it looks only at the
      KIND of every sub-result (accepted / failed with a leaf exception / failed with a group), never inside an error tree, and
      composes positions -- nothing for an accepted position (no path for a valid sibling), the position itself for a leaf
      failure, [index] / .name + the child's fault positions below sequences, tuples, Optional / NewType / Annotated and classes
      (dict payloads; attempted attributes in order, then the class position once for forbidden extra keys), the tuple's own
      position for a wrong arity; below sets [index] + the element's fault positions, or [index] itself for a structured element
      that cannot be hashed; below mappings [key] + the value's fault positions, else the key's, else [key] itself for a key that
      cannot be hashed.  For EVERY environment, fuel, type and input, Converter with detailed validation under the dict
      strategy, forbid_extra_keys on or off: whenever structure fails, transform_error reports exactly those positions, in that
      order.  (Taken as reported, not re-derived: junk -- a non-dict -- at a class position, an un-iterable object at a collection
      position, Any/Any mappings, and the case where only __init__ itself failed.) *)
Theorem C05_paths_are_exactly_the_fault_positions :
  forall (E : env) (forbid : bool) (n : nat) (t : ty) (o : val) (e : errkind),
    structure E (mk_cfg true true false forbid) n t o = Err e ->
    paths e [] = fpaths E (mk_cfg true true false forbid) n t o.
Proof. intros E forbid. apply paths_are_fault_positions; reflexivity. Qed.
Print Assumptions C05_paths_are_exactly_the_fault_positions.

(* non-vacuity: a list of two instances under forbid_extra_keys, three independent faults at depth
   (a bad leaf in a nested list, a missing required key, an extra key): exactly three paths, none for
   the valid siblings *)
Local Open Scope N_scope.
Definition x_coerce (p : prim) (o : val) : result val :=
  match o with VAtom k e => if prim_eqb k p then Ok o else Err EValue | _ => Err EType end.
Definition x_fields : list (field val) :=
  [ {| f_name := 1; f_alias := 1; f_dflt := None; f_init := true; f_kw_only := false; f_kw_seen := false; f_conv := false |};
    {| f_name := 2; f_alias := 2; f_dflt := None; f_init := true; f_kw_only := false; f_kw_seen := false; f_conv := false |} ].
Definition x_env : env :=
  {| e_class := fun c => if N.eqb c 1 then Some {| cd_fields := x_fields; cd_types := [(1, TList (TPrim PInt)); (2, TPrim PStr)] |} else None;
     e_enum := fun _ => []; e_coerce := x_coerce; e_in := fun _ _ => Err EType; e_iter := fun _ => Err EType; e_len := fun _ => Err EType |}.
Example C05_nonvacuous :
  match structure x_env (mk_cfg true true false true) 6 (TList (TClass 1))
          (VList [VDict [(VAtom PStr 1, VList [VAtom PInt 5; VAtom PStr 6; VAtom PInt 7]); (VAtom PStr 2, VAtom PStr 8)];
                  VDict [(VAtom PStr 1, VList []); (VAtom PStr 9, VAtom PInt 0)]]) with
  | Err e => paths e [] = [[SIdx 0; SField 1; SIdx 1]; [SIdx 1; SField 2]; [SIdx 1]]
  | _ => False
  end.
Proof. vm_compute. reflexivity. Qed.

(* the specification evaluated on the same input: the three fault positions, computed without looking at the error tree *)
Example C05_fault_positions_example :
  fpaths x_env (mk_cfg true true false true) 6 (TList (TClass 1))
         (VList [VDict [(VAtom PStr 1, VList [VAtom PInt 5; VAtom PStr 6; VAtom PInt 7]); (VAtom PStr 2, VAtom PStr 8)];
                 VDict [(VAtom PStr 1, VList []); (VAtom PStr 9, VAtom PInt 0)]])
  = [[SIdx 0; SField 1; SIdx 1]; [SIdx 1; SField 2]; [SIdx 1]].
Proof. vm_compute. reflexivity. Qed.

(* 6. What theorem 3 does NOT say (finding F45, open): it speaks of the __init__ attributes.  A hook that INCLUDES init=False attributes
      structures those after the instance has been created; when an __init__ attribute is faulty the collected errors are raised before
      instantiation and the faults of the init=False attributes are never looked at.  In the class-level template model: class 9 with
      attribute 1 (an __init__ argument) and attribute 2 (init=False, default 0, included through _cattrs_include_init_false), a
      handler that rejects the leaf 99: *)
Local Open Scope N_scope.
Definition f45_a : field N := {| f_name := 1; f_alias := 1; f_dflt := None; f_init := true; f_kw_only := false; f_kw_seen := false; f_conv := false |}.
Definition f45_p : field N := {| f_name := 2; f_alias := 2; f_dflt := Some 0; f_init := false; f_kw_only := false; f_kw_seen := false; f_conv := false |}.
Definition f45_opt : topts := {| t_cl := 9; t_forbid := false; t_use_alias := false; t_incl_init_false := true; t_omit_if_default := false |}.
Definition f45_hs (_ v : N) : result N := if N.eqb v 99 then Err EValue else Ok v.
Definition f45_run (d : list (N * N)) : result (inst N) :=
  tpl_detailed N (fun _ v => Ok v) f45_opt (fun _ => neutral) f45_hs src_recheck [f45_a; f45_p] (dict_obj d).
Theorem C05_initfalse_fault_hidden_by_init_fault_refuted :
  f45_run [(1, 99); (2, 99)] = Err (EClassVal 9 [(Some 1, EValue)])       (* two faults, ONE leaf: attribute 2's fault is not reported ... *)
  /\ f45_run [(1, 5); (2, 99)] = Err (EClassVal 9 [(Some 2, EValue)])     (* ... although alone it is *)
  /\ f45_run [(1, 5); (2, 7)] = Ok [(1, 5); (2, 7)].
Proof. vm_compute. repeat split; reflexivity. Qed.
Print Assumptions C05_initfalse_fault_hidden_by_init_fault_refuted.
