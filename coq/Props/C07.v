(* C07 -- hook precedence follows the documented rule after any registration history. *)
From V.Model Require Import Base Dispatch Routing.
From V.Gen Require Import DispatchSrc ConvSrc.
From V.Proofs Require Import DispatchProofs RoutingProofs SrcObligations.

(* For the configuration translated from the current source: after ANY sequence
   of public-API operations on a converter of either class, the hook found for
   any type t in either direction is [doc_choice]: the latest registration for
   the most specific class of t's MRO; else the most recently registered
   predicate hook / factory / exact-type entry accepting t (a factory yields
   [HMade f t ext]: it received t, and the converter iff ext); else what the
   converter was born with; else the fallback factory.  In [doc_choice]
   structure-direction union registrations sit where the code puts them (inside
   the born-with table); see C07_refuted_union_struct for the documented reading. *)
Theorem C07_precedence :
  forall (W : world) (full : bool) (o : optmap) (us : list uop) (d : dir) (t : ty),
    Forall good_uop us ->
    conv_lookup W src_cfg (urun W src_cfg src_csrc (build W src_cfg src_csrc full o) us) d t =
    doc_choice W src_cfg (cdisp (build W src_cfg src_csrc full o) d) (filter is_reg (dops W src_csrc d us)) t.
Proof.
  intros. apply conv_lookup_is_doc_choice; auto using src_lookup_order, src_func_reg_clears_direct,
    src_func_reg_clears_cache, src_cls_reg_clears_cache, src_route_un_ok, src_route_st_ok,
    src_insert_front, src_pred_exc_continues.
Qed.
Print Assumptions C07_precedence.

(* The documented reading of the property orders union registrations by recency
   together with predicates.  [doc_ops] rewrites a history that way: a union
   registration becomes an exact-type predicate entry at its chronological place. *)
Definition doc_ops (h : list op) : list op :=
  map (fun o => match o with ORegUnion t hk _ => ORegFunc (PExact t) (HdHook hk) | _ => o end) h.

Definition no_union_reg (h : list op) : bool :=
  forallb (fun o => match o with ORegUnion _ _ _ => false | _ => true end) h.

Lemma doc_ops_id h : no_union_reg h = true -> doc_ops h = h.
Proof.
  unfold doc_ops, no_union_reg.
  induction h as [|o h IH]; cbn [map forallb]; [reflexivity|]. intros H. apply andb_true_iff in H. destruct H as [Ho Hh].
  rewrite (IH Hh). destruct o; try reflexivity. discriminate.
Qed.

(* full statement, proved for histories without structure-direction union registrations *)
Theorem C07_precedence_documented_partial :
  forall (W : world) (full : bool) (o : optmap) (us : list uop) (d : dir) (t : ty),
    Forall good_uop us ->
    no_union_reg (filter is_reg (dops W src_csrc d us)) = true ->
    conv_lookup W src_cfg (urun W src_cfg src_csrc (build W src_cfg src_csrc full o) us) d t =
    doc_choice W src_cfg (cdisp (build W src_cfg src_csrc full o) d) (doc_ops (filter is_reg (dops W src_csrc d us))) t.
Proof.
  intros W full o us d t Hg Hn. rewrite (doc_ops_id _ Hn). now apply C07_precedence.
Qed.
Print Assumptions C07_precedence_documented_partial.

(* neither direction produces a union-registry operation (the structure direction did
   before the fix of finding F9): union registrations are ordinary exact-type entries *)
Theorem C07_no_union_registry :
  forall (W : world) (d : dir) (us : list uop), no_union_reg (filter is_reg (dops W src_csrc d us)) = true.
Proof.
  intros W d us. unfold no_union_reg. apply forallb_filter.
  apply (dops_no_ureg W src_csrc src_route_un_plain src_route_st_plain).
Qed.

(* C07, full statement: the documented rule, union registrations ordered by recency, both directions *)
Theorem C07_precedence_documented :
  forall (W : world) (full : bool) (o : optmap) (us : list uop) (d : dir) (t : ty),
    Forall good_uop us ->
    conv_lookup W src_cfg (urun W src_cfg src_csrc (build W src_cfg src_csrc full o) us) d t =
    doc_choice W src_cfg (cdisp (build W src_cfg src_csrc full o) d) (doc_ops (filter is_reg (dops W src_csrc d us))) t.
Proof.
  intros. apply C07_precedence_documented_partial; [assumption | apply C07_no_union_registry].
Qed.
Print Assumptions C07_precedence_documented.

Local Open Scope N_scope.
(* non-vacuity: class beats predicate, newest predicate beats older, subclass beats base class *)
Definition nv_world : world := {|
  w_mro := fun t => if N.eqb t 11 then [11; 10; 1] else if N.eqb t 10 then [10; 1] else [];
  w_user := fun p t => Some true;
  w_init := fun i t => Some false;
  w_is_union := fun _ => false; w_is_newtype := fun t => N.eqb t 300 |}.
Example C07_nonvacuous :
  let c := urun nv_world src_cfg src_csrc (build nv_world src_cfg src_csrc true [])
            [URegFunc DUn 1 (HUser 1); URegHook DUn 10 (HUser 2); UGet DUn 11 true; URegFactory DUn 2 5 true WSelf;
             URegHook DUn 300 (HUser 4); URegHook DUn 11 (HUser 3)] in
  conv_lookup nv_world src_cfg c DUn 11 = HUser 3 /\ conv_lookup nv_world src_cfg c DUn 10 = HUser 2 /\
  conv_lookup nv_world src_cfg c DUn 300 = HUser 4 /\ conv_lookup nv_world src_cfg c DUn 301 = HMade 5 301 true.
Proof. vm_compute. repeat split. Qed.
