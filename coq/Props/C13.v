(* C13 -- tagged unions: tag added going out, honoured coming in, member hooks untouched. *)
From V.Model Require Import Base Dispatch Routing Tagged.
From V.Gen Require Import DispatchSrc ConvSrc.
From V.Proofs Require Import DispatchProofs RoutingProofs SrcObligations TaggedProofs.

(* configure_tagged_union captures the members' hooks at configuration time and wraps them.
   The theorems are over ABSTRACT member hooks: [unstructure_tagged] says what the wrapper does
   to the member's own dict, [structure_tagged] which member hook is called with which dict.
   V is the type of payload values (tags included), veq its Python equality. *)

(* 1. going out: the member's own unstructured dict plus exactly one extra key *)
Theorem C13_out :
  forall (V : Type) (c : tcfg V) (cls : N) (d : list (N * V)),
    In cls (tg_members c) -> ~ In (tg_name c) (map fst d) ->
    unstructure_tagged V c cls d = Ok (d ++ [(tg_name c, tg_tag c cls)]).
Proof. intros. now apply tagged_out. Qed.
Print Assumptions C13_out.

(* 2. coming in: with an injective tag generator that payload reaches the hook of the SAME member,
      carrying the member's own dict (forbid_extra_keys: the tag is popped from a copy, so it is
      never an extra key) or the dict plus the tag key (inert for the member hook, by C10) *)
Theorem C13_in :
  forall (V : Type) (veq : V -> V -> bool) (c : tcfg V) (cls : N) (d : list (N * V)),
    (forall a, veq a a = true) ->
    injective_on V veq c -> NoDup (tg_members c) -> In cls (tg_members c) -> ~ In (tg_name c) (map fst d) ->
    structure_tagged V veq c (d ++ [(tg_name c, tg_tag c cls)]) =
    Ok (cls, if tg_forbid c then d else d ++ [(tg_name c, tg_tag c cls)]).
Proof. intros. now apply tagged_in. Qed.
Print Assumptions C13_in.

(* 3. a missing or unknown tag selects the default member when one is configured, raises otherwise *)
Theorem C13_missing_tag :
  forall (V : Type) (veq : V -> V -> bool) (c : tcfg V) (d : list (N * V)),
    assoc d (tg_name c) = None ->
    structure_tagged V veq c d = match tg_default c with Some dm => Ok (dm, d) | None => Err EKey end.
Proof. intros. now apply tagged_missing. Qed.
Theorem C13_unknown_tag :
  forall (V : Type) (veq : V -> V -> bool) (c : tcfg V) (d : list (N * V)) (t : V),
    assoc d (tg_name c) = Some t -> member_of_tag V veq c t = None ->
    structure_tagged V veq c d =
    match tg_default c with
    | Some dm => Ok (dm, if tg_forbid c then dict_pop V d (tg_name c) else d)
    | None => Err EKey
    end.
Proof. intros. eapply tagged_unknown; eassumption. Qed.
Print Assumptions C13_missing_tag.
Print Assumptions C13_unknown_tag.

(* 4. un/structuring a member outside the union is unchanged: the configuration registers hooks
      for the exact union type only (Core A, with the routing read off the current source). *)
Theorem C13_routes_to_exact_type :
  forall (u : ty) (isn : bool) (h : hook),
    hook_reg_op (r_un src_csrc) true isn u h = Some (ORegFunc (PExact u) (HdHook h)) /\
    hook_reg_op (r_st src_csrc) true isn u h = Some (ORegFunc (PExact u) (HdHook h)).
Proof. intros. split; reflexivity. Qed.

Theorem C13_members_untouched :
  forall (W : world) (s : st) (u t : ty) (h : hook),
    t <> u ->
    spec W src_cfg (reg_func src_cfg s (PExact u) (HdHook h)) t = spec W src_cfg s t.
Proof.
  intros. apply reg_exact_leaves_others; auto using src_lookup_order, src_func_reg_clears_direct,
    src_func_reg_clears_cache, src_insert_front.
Qed.
Print Assumptions C13_members_untouched.

(* non-vacuity *)
Local Open Scope N_scope.
Definition c13_cfg (forbid : bool) (dflt : option N) : tcfg N :=
  {| tg_members := [1; 2; 3]; tg_tag := fun c => 100 + c; tg_name := 9; tg_default := dflt; tg_forbid := forbid |}.
Example C13_nonvacuous :
  unstructure_tagged N (c13_cfg true None) 2 [(5, 50); (6, 60)] = Ok [(5, 50); (6, 60); (9, 102)] /\
  structure_tagged N N.eqb (c13_cfg true None) [(5, 50); (9, 102); (6, 60)] = Ok (2, [(5, 50); (6, 60)]) /\
  structure_tagged N N.eqb (c13_cfg false None) [(5, 50); (9, 102)] = Ok (2, [(5, 50); (9, 102)]) /\
  structure_tagged N N.eqb (c13_cfg false None) [(5, 50)] = Err EKey /\
  structure_tagged N N.eqb (c13_cfg true (Some 3)) [(5, 50); (9, 777)] = Ok (3, [(5, 50)]).
Proof. vm_compute. repeat split. Qed.
