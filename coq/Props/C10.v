(* C10 -- forbid_extra_keys rejects exactly the unknown keys; without it extras are inert. *)
From V.Model Require Import Base Templates Tagged.
From V.Gen Require Import GenSrc.
From V.Proofs Require Import TemplatesProofs SrcObligationsGen TaggedProofs.

(* The accepted key set of a hook is [allowed]: the final key (rename, else alias
   under use_alias, else name) of every attribute the hook handles. *)

(* 1. Enabling forbid_extra_keys changes the specification both generated templates
      refine in exactly one way: a payload with a key outside the accepted set is
      rejected; every other payload is treated as before.  All classes, options,
      overrides, handlers, payload objects. *)
Theorem C10_forbid_adds_only_the_extra_key_check :
  forall (V : Type) (K : N -> V -> result V) (opt : topts) (ov : N -> fov) (hs : N -> V -> result V)
         (fs : list (field V)) (o : pobj V),
    spec_struct V K (set_forbid true opt) ov hs fs o =
    match o_keys o with
    | Ok ks => match unknown_keys V opt ov fs ks with
               | [] => spec_struct V K (set_forbid false opt) ov hs fs o
               | _ => None
               end
    | _ => None
    end.
Proof. intros. apply spec_forbid. Qed.
Print Assumptions C10_forbid_adds_only_the_extra_key_check.

(* ... where "the specification both templates refine" is meant literally: *)
Theorem C10_detailed_is_spec :
  forall V K opt ov hs fs o,
    to_opt (tpl_detailed V K opt ov hs src_recheck fs o) = spec_struct V K opt ov hs fs o.
Proof. intros. rewrite src_detailed_rechecks_errors. apply detailed_refines_spec. Qed.
Theorem C10_fast_is_spec :
  forall V K opt ov hs fs o, wf V opt ov fs ->
    agree (inst_equiv V) (to_opt (tpl_fast V K opt ov hs src_kw_last fs o)) (spec_struct V K opt ov hs fs o).
Proof. intros. rewrite src_fast_kw_last. now apply fast_refines_spec. Qed.
Print Assumptions C10_detailed_is_spec.
Print Assumptions C10_fast_is_spec.

(* 2. The error names exactly the unknown keys and the class, in both modes:
      the fast hook raises ForbiddenExtraKeysError(cl, unknown) itself (once the optional
      attributes were read), the detailed hook puts it into the class-level group. *)
Theorem C10_fast_error_names_exactly_the_extras :
  forall V K opt ov hs fs (d : list (N * V)) u,
    t_forbid opt = true -> unknown_keys V opt ov fs (keys d) = u -> u <> [] ->
    forallb (good V opt ov hs (dict_obj d)) (filter (optional_f V) (inc_init V opt ov fs)) = true ->
    tpl_fast V K opt ov hs src_kw_last fs (dict_obj d) = Err (EForbidden (t_cl opt) u).
Proof. intros. rewrite src_fast_kw_last. now apply fast_forbid_error. Qed.
Theorem C10_detailed_error_names_exactly_the_extras :
  forall V K opt ov hs fs (d : list (N * V)) u,
    t_forbid opt = true -> unknown_keys V opt ov fs (keys d) = u -> u <> [] ->
    (exists errs, tpl_detailed V K opt ov hs src_recheck fs (dict_obj d)
                  = Err (EClassVal (t_cl opt) (errs ++ [(None, EForbidden (t_cl opt) u)])))
    \/ tpl_detailed V K opt ov hs src_recheck fs (dict_obj d) = OutOfFuel.
Proof. intros. rewrite src_detailed_rechecks_errors. now apply detailed_forbid_error. Qed.
Print Assumptions C10_fast_error_names_exactly_the_extras.
Print Assumptions C10_detailed_error_names_exactly_the_extras.

(* 3. With the flag off, unknown keys are inert: a dict payload extended with keys
      outside the accepted set has the same outcome. *)
Theorem C10_extras_inert :
  forall V K opt ov hs fs (d extras : list (N * V)),
    t_forbid opt = false ->
    (forall k, In k (allowed V opt ov fs) -> ~ In k (map fst extras)) ->
    spec_struct V K opt ov hs fs (dict_obj (d ++ extras)) = spec_struct V K opt ov hs fs (dict_obj d).
Proof.
  intros. symmetry. apply spec_extras_inert; [assumption|]. now apply dict_extras_same_on.
Qed.
Print Assumptions C10_extras_inert.

(* non-vacuity *)
Local Open Scope N_scope.
Definition c10_fs : list (field N) :=
  [ {| f_name := 1; f_alias := 1; f_dflt := None; f_init := true; f_kw_only := false; f_kw_seen := false; f_conv := false |};
    {| f_name := 2; f_alias := 22; f_dflt := Some 7; f_init := true; f_kw_only := false; f_kw_seen := false; f_conv := false |} ].
Definition c10_opt b := {| t_cl := 9; t_forbid := b; t_use_alias := true; t_incl_init_false := false; t_omit_if_default := false |}.
Definition c10_ov (n : N) : fov := if N.eqb n 1 then {| ov_omit := None; ov_rename := Some 100; ov_oid := None |} else neutral.
Definition c10_hs (n v : N) : result N := Ok v.
Example C10_nonvacuous :
  tpl_fast N c10_hs (c10_opt true) c10_ov c10_hs src_kw_last c10_fs (dict_obj [(100, 5); (22, 6); (1, 3); (77, 0)])
    = Err (EForbidden 9 [1; 77])
  /\ tpl_fast N c10_hs (c10_opt false) c10_ov c10_hs src_kw_last c10_fs (dict_obj [(100, 5); (22, 6); (1, 3); (77, 0)])
    = Ok [(1, 5); (2, 6)]
  /\ tpl_detailed N c10_hs (c10_opt true) c10_ov c10_hs src_recheck c10_fs (dict_obj [(100, 5); (22, 6)]) = Ok [(1, 5); (2, 6)].
Proof. vm_compute. repeat split. Qed.


(* "The tag key of a tagged union is not an extra."  Over Model/Tagged.v (configure_tagged_union: which member hook receives which
   dict): for EVERY union configuration (members, tag generator, tag name, default member or none) built on a converter that
   forbids extra keys, and every payload that carries the tag key -- known tag, unknown tag with a default member -- the dict
   handed to the member's hook is the payload with the tag key removed and every other key and value untouched.  So the member's
   own extra-key check (C10_fast/detailed_error_names_exactly_the_extras above) is run on exactly the payload's other keys. *)
Theorem C10_tag_key_is_not_an_extra :
  forall (V : Type) (veq : V -> V -> bool) (c : tcfg V) (d d' : list (N * V)) (m : N),
    tg_forbid c = true -> assoc d (tg_name c) <> None ->
    structure_tagged V veq c d = Ok (m, d') ->
    assoc d' (tg_name c) = None /\ forall k, k <> tg_name c -> assoc d' k = assoc d k.
Proof. intros. eapply tag_key_is_not_an_extra; eassumption. Qed.
Print Assumptions C10_tag_key_is_not_an_extra.

(* ---- TypedDicts (gen/typeddicts.py), no overrides ----
   With forbid_extra_keys, for EVERY TypedDict definition, handlers and dict payload, in BOTH templates:
   (1) whatever is accepted has no key outside the declared ones;
   (2) a payload that is otherwise fine and has undeclared keys is rejected, and the error names exactly
       those keys, in payload order -- ForbiddenExtraKeysError in the fast template, the same error as the
       only member of the ClassValidationError group in the detailed one. *)
From V.Model Require Import TdTemplates.
From V.Proofs Require Import TdProofs.
Theorem C10_typeddict_forbid_accepts_only_declared_keys :
  forall (V : Type) (opt : tdopts) (hs : N -> V -> result V) (d : list (N * V)) (fs : list tdfield) r,
    NoDup (keys d) -> td_forbid opt = true ->
    (to_opt (td_detailed V opt (fun _ => neutral) hs fs (dict_obj d)) = Some r \/
     to_opt (td_fast V opt (fun _ => neutral) hs fs (dict_obj d)) = Some r) ->
    forall k, In k (keys d) -> In k (map d_name fs).
Proof.
  intros V opt hs d fs r Hnd Hf H.
  rewrite (td_detailed_refines_spec V opt hs d Hnd fs), (td_fast_refines_spec V opt hs d Hnd fs) in H.
  assert (exists r', td_spec V opt hs d fs = Some r') as [r' Hs].
  { destruct (td_spec V opt hs d fs) as [x|]; [now exists x | destruct H as [H|H]; discriminate H]. }
  exact (td_spec_forbid V opt hs d fs r' Hf Hs).
Qed.
Print Assumptions C10_typeddict_forbid_accepts_only_declared_keys.

Theorem C10_typeddict_forbid_names_exactly_the_extras :
  forall (V : Type) (opt : tdopts) (hs : N -> V -> result V) (d : list (N * V)) (fs : list tdfield),
    NoDup (keys d) -> td_forbid opt = true ->
    forallb (tgood V hs d) fs = true ->       (* every declared key is fine: required ones present, handlers succeed *)
    let extras := filter (fun k => negb (mem_N k (map d_name fs))) (keys d) in
    extras <> [] ->
    td_fast V opt (fun _ => neutral) hs fs (dict_obj d) = Err (EForbidden (td_cl opt) extras) /\
    td_detailed V opt (fun _ => neutral) hs fs (dict_obj d) = Err (EClassVal (td_cl opt) [(None, EForbidden (td_cl opt) extras)]).
Proof.
  intros V opt hs d fs Hnd Hf Hg extras Hne.
  assert (Hu : td_unknown (fun _ => neutral) fs (keys d) = extras).
  { unfold td_unknown, td_allowed, extras. now rewrite td_included_all. }
  split.
  - exact (td_fast_forbid_error V opt hs d Hnd fs extras Hf Hg Hu Hne).
  - exact (td_detailed_forbid_error V opt hs d Hnd fs extras Hf Hg Hu Hne).
Qed.
Print Assumptions C10_typeddict_forbid_names_exactly_the_extras.

(* "With it disabled, adding unknown keys to a payload never changes the outcome" is REFUTED for
   TypedDicts: the result is built from a copy of the payload, so an undeclared key survives into it
   (finding F4, open).  The general fact behind the witness: an accepted TypedDict payload keeps all of
   its keys, in place. *)
Theorem C10_typeddict_result_keeps_every_key :
  forall (V : Type) (opt : tdopts) (hs : N -> V -> result V) (d : list (N * V)) (fs : list tdfield) r,
    NoDup (keys d) ->
    to_opt (td_fast V opt (fun _ => neutral) hs fs (dict_obj d)) = Some (Some r) -> keys r = keys d.
Proof.
  intros V opt hs d fs r Hnd H. rewrite (td_fast_refines_spec V opt hs d Hnd fs) in H.
  destruct (td_spec V opt hs d fs) as [x|] eqn:Hs; [|discriminate]. injection H as <-.
  exact (td_spec_keys V opt hs d fs x Hs).
Qed.
Print Assumptions C10_typeddict_result_keeps_every_key.

Local Open Scope N_scope.
Theorem C10_typeddict_unknown_keys_change_outcome_refuted :
  exists (opt : tdopts) (hs : N -> N -> result N) (fs : list tdfield) (d extra : list (N * N)),
    td_forbid opt = false /\ (forall k, In k (keys extra) -> ~ In k (map d_name fs)) /\
    td_fast N opt (fun _ => neutral) hs fs (dict_obj (d ++ extra)) <> td_fast N opt (fun _ => neutral) hs fs (dict_obj d).
Proof.
  exists {| td_cl := 1; td_forbid := false; td_skip_self_rename := true |}, (fun _ v => Ok v),
         [{| d_name := 1; d_required := true |}], [(1, 5)], [(7, 9)].
  split; [reflexivity|]. split.
  - intros k [<-|[]] [H|[]]. discriminate H.
  - vm_compute. discriminate.
Qed.
Print Assumptions C10_typeddict_unknown_keys_change_outcome_refuted.

Example C10_typeddict_nonvacuous :
  let opt := {| td_cl := 4; td_forbid := true; td_skip_self_rename := true |} in
  let fs := [{| d_name := 1; d_required := true |}; {| d_name := 2; d_required := false |}] in
  td_fast N opt (fun _ => neutral) (fun _ v => Ok (v + 100)) fs (dict_obj [(8, 0); (1, 5); (7, 9)]) = Err (EForbidden 4 [8; 7])
  /\ td_detailed N opt (fun _ => neutral) (fun _ v => Ok (v + 100)) fs (dict_obj [(8, 0); (1, 5); (7, 9)]) = Err (EClassVal 4 [(None, EForbidden 4 [8; 7])])
  /\ td_fast N opt (fun _ => neutral) (fun _ v => Ok (v + 100)) fs (dict_obj [(1, 5)]) = Ok (Some [(1, 105)]).
Proof. vm_compute. repeat split. Qed.
