(* C01 -- round trip: structure(unstructure(x, T), T) == x, of x's class. *)
From Coq Require Import Lia.
From V.Model Require Import Base Templates Conv ConvSpec.
From V.Gen Require Import GenSrc.
From V.Proofs Require Import TemplatesProofs SrcObligationsGen ClassRoundtrip ConvRoundtrip ConvCfg.

(* 1. Nested round trip.  For EVERY environment of classes and enums, every type expression of the
      nested universe (Any, primitives, enums, literals, lists / sequences, homogeneous and heterogeneous
      tuples, sets, frozensets, mappings, Optional, classes incl. recursive ones, NewType, Annotated; any
      nesting), EVERY value x of that type ([rt_value]: exact classes at every depth; Any-typed positions
      hold None or atoms; set elements and mapping keys of hashable leaf types; every attribute set),
      the unstructuring Converter in either validation mode, and the structuring converter of EITHER class
      ([genS]) in EITHER validation mode ([dvS]) -- so also when the data unstructured by Converter is
      structured by BaseConverter: if unstructure returns u, structure returns x itself (Leibniz equality:
      equal value AND the same classes at every depth).  Same-fuel form: OutOfFuel is excluded by the
      hypothesis that unstructure returned.
      Assumed of Python, not of cattrs: the primitive constructors return an equal instance of their own
      class when given one (int(5) == 5); classes are classes attrs / dataclasses can create, whose
      attributes are all __init__ arguments without field converters.  Either unstructuring strategy
      ([tup]: classes as dicts, or as tuples -- both sides of the round trip use the same strategy; under the
      tuple strategy kw_only attributes are passed by keyword, obligation src_tuple_passes_kw_only_by_keyword
      about the current source), forbid_extra_keys off, Annotated only where the structuring side is a
      Converter ([ann]). *)
Theorem C01_roundtrip :
  forall (E : env) (dvU genS dvS tup ann : bool),
    (ann = true -> genS = true) ->
    (forall p e, e_coerce E p (VAtom p e) = Ok (VAtom p e)) ->
    (forall c cd, e_class E c = Some cd -> rt_class_ok (mk_cfg genS dvS tup false) c cd) ->
    forall (n : nat) (t : ty) (x u : val),
      rt_value E ann x t ->
      unstructure E (mk_cfg true dvU tup false) n t x = Ok u ->
      structure E (mk_cfg genS dvS tup false) n t u = Ok x.
Proof.
  intros E dvU genS dvS tup ann Hann Hco Henv.
  apply roundtrip; [reflexivity | reflexivity | intros _; exact src_tuple_passes_kw_only_by_keyword | reflexivity | reflexivity
                    | apply mk_cfg_recheck | apply mk_cfg_kw_last | exact Hann | exact Hco | exact Henv].
Qed.
Print Assumptions C01_roundtrip.

(* ... and the unstructured form exists: for every value of the type there IS an amount of fuel (given
   explicitly in the proof: linear in the size of the value) for which unstructure returns and structure
   gives the value back -- the statement above is never vacuous.  [M] bounds how many wrapper types
   (Optional / NewType / Annotated) the declared attribute types stack directly on top of each other. *)
Theorem C01_roundtrip_total :
  forall (E : env) (dvU genS dvS tup ann : bool) (M : nat),
    (ann = true -> genS = true) ->
    (forall p e, e_coerce E p (VAtom p e) = Ok (VAtom p e)) ->
    (forall c cd, e_class E c = Some cd -> rt_class_ok (mk_cfg genS dvS tup false) c cd) ->
    (forall c cd nm ft, e_class E c = Some cd -> assoc (cd_types cd) nm = Some ft -> maxw ft <= M) -> 2 <= M ->
    forall (t : ty) (x : val),
      rt_value E ann x t -> maxw t <= M ->
      exists n u, unstructure E (mk_cfg true dvU tup false) n t x = Ok u /\
                  structure E (mk_cfg genS dvS tup false) n t u = Ok x.
Proof.
  intros E dvU genS dvS tup ann M Hann Hco Henv HM HM2.
  apply roundtrip_total; [reflexivity | reflexivity | intros _; exact src_tuple_passes_kw_only_by_keyword | reflexivity | reflexivity
                          | apply mk_cfg_recheck | apply mk_cfg_kw_last | exact Hann | exact Hco | exact Henv | exact HM | exact HM2].
Qed.
Print Assumptions C01_roundtrip_total.

(* 1b. ... and for data unstructured by BaseConverter (collections by the RUNTIME class of their elements, keeping their
      container class; classes attribute by attribute by declared type): for every environment whose attribute types BaseConverter
      has hooks for at every depth ([base_deep]: no heterogeneous tuples, NewType, Annotated -- the documented limits), every such
      type and every value of it, EITHER converter class in EITHER validation mode structures what BaseConverter returned back to
      the value itself, with any amount of fuel above an explicit bound linear in the size of the value ([M] bounds the Optional
      nesting of the declared types).  Not same-fuel: BaseConverter spends nothing on None and on Optional, structuring does. *)
From V.Proofs Require Import ConvUnAgree BaseRoundtrip.
Theorem C01_roundtrip_from_baseconverter :
  forall (E : env) (dvB genS dvS tup : bool) (M : nat),
    (forall p e, e_coerce E p (VAtom p e) = Ok (VAtom p e)) ->
    (forall c cd, e_class E c = Some cd ->
       rt_class_ok (mk_cfg genS dvS tup false) c cd /\ (forall nm ft, assoc (cd_types cd) nm = Some ft -> base_deep ft = true)) ->
    (forall c cd nm ft, e_class E c = Some cd -> assoc (cd_types cd) nm = Some ft -> maxw ft <= M) -> 2 <= M ->
    forall (n : nat) (t : ty) (x u : val) (m : nat),
      rt_value E false x t -> base_deep t = true -> maxw t <= M ->
      unstructure E (mk_cfg false dvB tup false) n t x = Ok u ->
      vsize x * S M + tw t <= m ->
      structure E (mk_cfg genS dvS tup false) m t u = Ok x.
Proof.
  intros E dvB genS dvS tup M Hco Henv HM HM2 n t x u m Hrt Hb Hm Hu Hn.
  eapply (base_roundtrip E (mk_cfg false dvB tup false) (mk_cfg genS dvS tup false)); try eassumption;
    [reflexivity | reflexivity | intros _; exact src_tuple_passes_kw_only_by_keyword | reflexivity | apply mk_cfg_recheck | apply mk_cfg_kw_last].
Qed.
Print Assumptions C01_roundtrip_from_baseconverter.

(* never vacuous: BaseConverter does return something for every value of such a type *)
Theorem C01_roundtrip_from_baseconverter_total :
  forall (E : env) (dvB genS dvS tup : bool) (M : nat),
    (forall p e, e_coerce E p (VAtom p e) = Ok (VAtom p e)) ->
    (forall c cd, e_class E c = Some cd ->
       rt_class_ok (mk_cfg genS dvS tup false) c cd /\ (forall nm ft, assoc (cd_types cd) nm = Some ft -> base_deep ft = true)) ->
    (forall c cd nm ft, e_class E c = Some cd -> assoc (cd_types cd) nm = Some ft -> maxw ft <= M) -> 2 <= M ->
    forall (t : ty) (x : val),
      rt_value E false x t -> base_deep t = true -> maxw t <= M ->
      exists n u, unstructure E (mk_cfg false dvB tup false) n t x = Ok u /\
                  forall m, vsize x * S M + tw t <= m -> structure E (mk_cfg genS dvS tup false) m t u = Ok x.
Proof.
  intros E dvB genS dvS tup M Hco Henv HM HM2 t x Hrt Hb Hm.
  assert (Hann : false = true -> c_gen (mk_cfg genS dvS tup false) = true) by (intros X; discriminate X).
  destruct (un_total E (mk_cfg true dvB tup false) (mk_cfg genS dvS tup false) false eq_refl eq_refl eq_refl eq_refl Hann
              (fun c cd Hc => proj1 (Henv c cd Hc)) M HM HM2 (vsize x * S M + tw t) t x Hrt Hm (le_n _)) as (ug & Hug).
  destruct (unstructure_agree E (mk_cfg true dvB tup false) (mk_cfg false dvB tup false) eq_refl eq_refl eq_refl) with (n := vsize x * S M + tw t) (t := t) (x := x) (u := ug)
    as (u & Hu & _); [|exact Hrt | exact Hb | exact Hug|].
  { intros c cd Hc. destruct (Henv c cd Hc) as ((W & HA) & Hbd). split; [exact W|]. split; [intros f Hf; now destruct (HA f Hf) | exact Hbd]. }
  exists (vsize x * S M + tw t), u. split; [exact Hu|]. intros m Hn.
  eapply C01_roundtrip_from_baseconverter; eassumption.
Qed.
Print Assumptions C01_roundtrip_from_baseconverter_total.

(* 2. Class level, any payload value type: both unstructure templates emit every attribute, in order,
      under its name; structuring that dict with handlers that undo the unstructure handlers ON THE
      INSTANCE'S VALUES gives back the same instance, through the detailed, the fast and (via item 3 of
      C06) the interpretive template. *)
Theorem C01_class_unstructure :
  forall (V : Type) (d0 : V) (veq : V -> V -> bool) (opt : topts),
    t_use_alias opt = false -> t_omit_if_default opt = false ->
    forall fs : list (field V), wf V opt (fun _ => neutral) fs -> (forall f, In f fs -> f_init f = true) ->
    forall i : inst V, map fst i = map f_name fs ->
    forall (hs_u : N -> V -> result V) (hu : N -> V -> V),
      (forall f, In f fs -> hs_u (f_name f) (aval V d0 i f) = Ok (hu (f_name f) (aval V d0 i f))) ->
      un_gen V veq opt (fun _ => neutral) hs_u fs i = Ok (D V d0 fs i hu) /\
      un_interp_dict V hs_u fs i = Ok (D V d0 fs i hu).
Proof. intros. split; [now apply un_gen_all | apply un_interp_all; assumption]. Qed.
Print Assumptions C01_class_unstructure.

Theorem C01_class_structure_back :
  forall (V : Type) (d0 : V) (K : N -> V -> result V) (opt : topts),
    t_use_alias opt = false -> t_omit_if_default opt = false -> t_forbid opt = false ->
    forall fs : list (field V), wf V opt (fun _ => neutral) fs ->
    (forall f, In f fs -> f_init f = true) -> (forall f, In f fs -> f_conv f = false) ->
    forall i : inst V, map fst i = map f_name fs ->
    forall (hs_s : N -> V -> result V) (hu : N -> V -> V),
      (forall f, In f fs -> hs_s (f_name f) (hu (f_name f) (aval V d0 i f)) = Ok (aval V d0 i f)) ->
      tpl_detailed V K opt (fun _ => neutral) hs_s src_recheck fs (dict_obj (D V d0 fs i hu)) = Ok i /\
      tpl_fast V K opt (fun _ => neutral) hs_s src_kw_last fs (dict_obj (D V d0 fs i hu)) = Ok i.
Proof.
  intros. rewrite src_detailed_rechecks_errors, src_fast_kw_last.
  split; [now apply class_rt_detailed | now apply class_rt_fast].
Qed.
Print Assumptions C01_class_structure_back.

(* ... and under the tuple strategy: unstructure_attrs_astuple emits every attribute's handled value in attribute order, and
   structure_attrs_fromtuple -- with the keyword-only attributes passed by keyword, as the current source does -- gives
   back the same instance from ANY iterable payload that yields that tuple. *)
Theorem C01_class_tuple_roundtrip :
  forall (V : Type) (K : N -> V -> result V) (fs : list (field V)),
    NoDup (map f_alias fs) -> NoDup (map f_name fs) ->
    (forall f, In f fs -> f_init f = true) -> (forall f, In f fs -> f_conv f = false) ->
    forall (i : inst V), map fst i = map f_name fs ->
    forall (d0 : V) (hs_u hs_s : N -> V -> result V) (hu : N -> V -> V),
      (forall f, In f fs -> hs_u (f_name f) (aval V d0 i f) = Ok (hu (f_name f) (aval V d0 i f))) ->
      (forall f, In f fs -> hs_s (f_name f) (hu (f_name f) (aval V d0 i f)) = Ok (aval V d0 i f)) ->
      un_interp_tuple V hs_u fs i = Ok (T V fs i d0 hu) /\
      forall o : pobj V, o_iter o = Ok (T V fs i d0 hu) -> tpl_interp_tuple V K hs_s src_tuple_by_kw fs o = Ok i.
Proof.
  intros V K fs Ha Hn Hi Hc i Hk d0 hs_u hs_s hu Hu Hs. split.
  - now apply un_interp_tuple_all.
  - intros o Ho. rewrite src_tuple_passes_kw_only_by_keyword. eapply class_rt_tuple; eassumption.
Qed.
Print Assumptions C01_class_tuple_roundtrip.

(* non-vacuity: a recursive class with a list of itself, a mapping keyed by an enum, an Optional, a set
   and a heterogeneous tuple; the value is a value of the type, unstructures, and comes back through
   all four structuring configurations *)
Local Open Scope N_scope.
Definition e1_coerce (p : prim) (o : val) : result val :=
  match o with VAtom k e => if prim_eqb k p then Ok o else Err EValue | _ => Err EType end.
Definition e1_fields : list (field val) :=
  [ {| f_name := 1; f_alias := 1; f_dflt := None; f_init := true; f_kw_only := false; f_kw_seen := false; f_conv := false |};
    {| f_name := 2; f_alias := 2; f_dflt := Some (VList []); f_init := true; f_kw_only := false; f_kw_seen := false; f_conv := false |};
    {| f_name := 3; f_alias := 13; f_dflt := Some VNone; f_init := true; f_kw_only := true; f_kw_seen := true; f_conv := false |} ].
Definition e1_cd : cdef :=
  {| cd_fields := e1_fields;
     cd_types := [(1, TDict (TEnum 0) (TTuple [TPrim PInt; TSet (TPrim PStr)])); (2, TList (TClass 1)); (3, TOpt (TNewType 5 (TPrim PStr)))] |}.
Definition e1_env : env :=
  {| e_class := fun c => if N.eqb c 1 then Some e1_cd else None;
     e_enum := fun en => if N.eqb en 0 then [VAtom PInt 20; VAtom PInt 21] else [];
     e_coerce := e1_coerce; e_in := fun _ _ => Err EType; e_iter := fun _ => Err EType; e_len := fun _ => Err EType |}.
Definition e1_inner : val :=
  VInst 1 [(1, VDict []); (2, VList []); (3, VAtom PStr 7)].
Definition e1_x : val :=
  VInst 1 [(1, VDict [(VEnum 0 1, VTuple [VAtom PInt 4; VSet [VAtom PStr 8; VAtom PStr 9]])]); (2, VList [e1_inner]); (3, VNone)].

Example C01_nonvacuous_runs :
  unstructure e1_env (mk_cfg true true false false) 9 (TClass 1) e1_x
    = Ok (VDict [(VAtom PStr 1, VDict [(VAtom PInt 21, VTuple [VAtom PInt 4; VSet [VAtom PStr 8; VAtom PStr 9]])]);
                 (VAtom PStr 2, VList [VDict [(VAtom PStr 1, VDict []); (VAtom PStr 2, VList []); (VAtom PStr 3, VAtom PStr 7)]]);
                 (VAtom PStr 3, VNone)])
  /\ forall genS dvS, match unstructure e1_env (mk_cfg true true false false) 9 (TClass 1) e1_x with
                      | Ok u => structure e1_env (mk_cfg genS dvS false false) 9 (TClass 1) u = Ok e1_x
                      | _ => False end.
Proof. split; [vm_compute; reflexivity|]. intros [|] [|]; vm_compute; reflexivity. Qed.

(* the same value under the tuple strategy: classes become tuples in attribute order, the kw_only attribute (3, alias 13)
   comes back by keyword *)
Example C01_nonvacuous_runs_tuple :
  unstructure e1_env (mk_cfg true true true false) 9 (TClass 1) e1_x
    = Ok (VTuple [VDict [(VAtom PInt 21, VTuple [VAtom PInt 4; VSet [VAtom PStr 8; VAtom PStr 9]])];
                  VList [VTuple [VDict []; VList []; VAtom PStr 7]];
                  VNone])
  /\ forall genS dvS, match unstructure e1_env (mk_cfg true true true false) 9 (TClass 1) e1_x with
                      | Ok u => structure e1_env (mk_cfg genS dvS true false) 9 (TClass 1) u = Ok e1_x
                      | _ => False end.
Proof. split; [vm_compute; reflexivity|]. intros [|] [|]; vm_compute; reflexivity. Qed.

Example C01_nonvacuous_hypotheses :
  (forall p e, e_coerce e1_env p (VAtom p e) = Ok (VAtom p e)) /\
  (forall genS dvS c cd, e_class e1_env c = Some cd -> rt_class_ok (mk_cfg genS dvS false false) c cd) /\
  rt_value e1_env false e1_x (TClass 1).
Proof.
  split; [|split].
  - intros p e. cbn. unfold e1_coerce. destruct p; reflexivity.
  - intros genS dvS c cd H. cbn in H. destruct (N.eqb c 1); [|discriminate]. inversion H; subst cd. split.
    + constructor; cbn.
      * repeat constructor; cbn; intuition discriminate.
      * repeat constructor; cbn; intuition discriminate.
      * intros f [<-|[<-|[<-|[]]]]; reflexivity.
      * reflexivity.
      * intros f [<-|[<-|[<-|[]]]]; cbn; intros; reflexivity.
    + intros f [<-|[<-|[<-|[]]]]; split; reflexivity.
  - unfold e1_x, e1_inner.
    repeat first
      [ reflexivity
      | apply Forall_nil | apply Forall_cons | apply Forall2_nil | apply Forall2_cons | split
      | apply RPrim | apply ROptNone
      | (eapply RClass; [reflexivity | reflexivity |])
      | (apply RDict; [reflexivity | | reflexivity])
      | (apply RSet; [reflexivity | | reflexivity])
      | (eapply REnum with (k := PInt) (e := 21); reflexivity)
      | apply RList | apply RTuple
      | (apply ROptSome; apply RNewType; apply RPrim)
      | progress cbn [fst snd field_ty e1_cd cd_types assoc N.eqb Pos.eqb] ].
Qed.

(* ---- TypedDicts (gen/typeddicts.py), no overrides ----
   For EVERY TypedDict definition fs (required and NotRequired keys), per-key unstructure / structure
   handlers that invert each other on the instance's values (identity unstructure handlers, which the
   generator skips, included), and EVERY instance d that has its required keys (NotRequired keys present
   or absent, undeclared keys allowed unless forbid_extra_keys): unstructuring d and structuring the
   result with either template gives d back -- every key in its original position. *)
From V.Model Require Import TdTemplates.
From V.Proofs Require Import TdProofs TdRoundtrip.
Theorem C01_typeddict_roundtrip :
  forall (V : Type) (opt : tdopts) (hu hs : N -> V -> result V) (idh : N -> bool) (d : list (N * V)) (fs : list tdfield),
    NoDup (keys d) ->
    (forall f, In f fs -> d_required f = true -> In (d_name f) (keys d)) ->
    (forall f v, In f fs -> assoc d (d_name f) = Some v ->
       if idh (d_name f) then hs (d_name f) v = Ok v
       else exists w, hu (d_name f) v = Ok w /\ hs (d_name f) w = Ok v) ->
    (td_forbid opt = true -> forall k, In k (keys d) -> In k (map d_name fs)) ->
    exists u, td_unstruct V (fun _ => neutral) hu idh fs d = Ok u /\
      let p := match u with Some x => x | None => d end in
      to_opt (td_detailed V opt (fun _ => neutral) hs fs (dict_obj p)) = Some (Some d) /\
      to_opt (td_fast V opt (fun _ => neutral) hs fs (dict_obj p)) = Some (Some d).
Proof. intros V opt hu hs idh d fs H1 H2 H3 H4. exact (td_roundtrip V opt hu hs idh d H1 fs H2 H3 H4). Qed.
Print Assumptions C01_typeddict_roundtrip.

Example C01_typeddict_nonvacuous :
  let fs := [{| d_name := 1; d_required := true |}; {| d_name := 2; d_required := false |}; {| d_name := 3; d_required := true |}] in
  let opt := {| td_cl := 4; td_forbid := false; td_skip_self_rename := true |} in
  let hu := fun (k v : N) => Ok (v + k)%N in
  let hs := fun (k v : N) => if N.eqb k 3 then Ok v else if N.ltb v k then Err EValue else Ok (v - k)%N in
  let idh := fun k => N.eqb k 3 in
  td_unstruct N (fun _ => neutral) hu idh fs [(3, 30); (9, 90); (1, 10)]%N = Ok (Some [(3, 30); (9, 90); (1, 11)]%N)
  /\ td_fast N opt (fun _ => neutral) hs fs (dict_obj [(3, 30); (9, 90); (1, 11)]%N) = Ok (Some [(3, 30); (9, 90); (1, 10)]%N).
Proof. vm_compute. split; reflexivity. Qed.

(* ---- unions of classes under the default disambiguation (converters.py _gen_attrs_union_structure + disambiguators.py) ----
   For EVERY list of member classes with distinct identities for which the disambiguator can be created (any member order, any
   iteration order of the name sets), every member cl and every payload d whose keys are cl's own (at least the keys that may
   discriminate, at most cl's attributes -- what unstructuring an instance of cl emits, also with defaults omitted): the union
   hook, with or without None among the members, hands d to cl's OWN structure hook and returns exactly what that hook
   returns.  So the round trip of a class union is the round trip of the member (C01_roundtrip and the C01_class theorems), and the payload
   None is structured to None exactly when None is a member.  The guard flag is read off the source by T1. *)
From V.Model Require Import Disambig UnionStruct.
From V.Gen Require Import UStructSrc.
From V.Proofs Require Import DisambigProofs UnionStructProofs SrcObligationsUnion.
Theorem C01_class_union_member_reaches_its_own_hook :
  forall (V I : Type) (choose : list N -> list N) (skip : bool) (classes : list dclass) (a : list (N * N)) (fb : option N)
         (st : N -> list (N * V) -> result I) (has_none : bool) (cl : dclass) (d : list (N * V)),
    (forall l x, In x (choose l) -> In x l) ->
    NoDup (ids classes) ->
    key_loop choose skip (sort_desc classes) (sort_desc classes) [] None = Ok (a, fb) ->
    In cl classes -> payload_of skip cl (keys d) ->
    union_structure V I has_none src_union_none_guard_is_identity (dis_keys a fb) st (Some d) = (do i <- st (dc_id cl) d; Ok (Some i)).
Proof.
  intros V I choose skip classes a fb st has_none cl d Hch Hnd Hcr Hcl Hp. rewrite src_union_none_guard.
  exact (union_structure_member V I choose skip Hch classes Hnd a fb Hcr st has_none cl d Hcl Hp).
Qed.
Print Assumptions C01_class_union_member_reaches_its_own_hook.

Theorem C01_class_union_none :
  forall (V I : Type) (dis : list N -> result N) (st : N -> list (N * V) -> result I),
    union_structure V I true src_union_none_guard_is_identity dis st None = Ok None /\
    union_structure V I false src_union_none_guard_is_identity dis st None = Err EValue.
Proof. intros. split; reflexivity. Qed.
Print Assumptions C01_class_union_none.

(* the guard matters: with a truthiness test the empty payload of a member without attributes would be structured to None *)
Theorem C01_class_union_truthiness_guard_refuted :
  exists (classes : list dclass) (a : list (N * N)) (fb : option N) (cl : dclass) (d : list (N * N)),
    key_loop (fun l => l) true (sort_desc classes) (sort_desc classes) [] None = Ok (a, fb) /\
    In cl classes /\ payload_of true cl (keys d) /\
    union_structure N N true false (dis_keys a fb) (fun c _ => Ok c) (Some d) = Ok None.
Proof. exact union_structure_truthiness_refuted. Qed.
Print Assumptions C01_class_union_truthiness_guard_refuted.

Example C01_class_union_nonvacuous :
  let f n := {| df_name := n; df_required := true; df_init := true; df_lit := None |} in
  let classes := [ {| dc_id := 1; dc_fields := [f 10%N; f 11%N] |}; {| dc_id := 2; dc_fields := [f 20%N; f 11%N] |}; {| dc_id := 3; dc_fields := [] |} ]%N in
  key_loop (fun l => l) true (sort_desc classes) (sort_desc classes) [] None = Ok ([(10, 1); (20, 2)]%N, Some 3%N) /\
  union_structure N N true true (dis_keys [(10, 1); (20, 2)]%N (Some 3%N)) (fun c _ => Ok c) (Some [(11, 5); (20, 6)]%N) = Ok (Some 2%N) /\
  union_structure N N true true (dis_keys [(10, 1); (20, 2)]%N (Some 3%N)) (fun c _ => Ok c) (Some []) = Ok (Some 3%N).
Proof. vm_compute. repeat split. Qed.


(* non-vacuity of 1b: a recursive class with a list of optional references to itself, a mapping of sets and an untyped
   attribute; BaseConverter keeps the set a set and the tuple a tuple, and all four structuring configurations give the value back *)
Definition b1_cd : cdef :=
  {| cd_fields := e1_fields;
     cd_types := [(1, TList (TOpt (TClass 1))); (2, TDict (TPrim PStr) (TSet (TPrim PInt)))] |}.
Definition b1_env : env :=
  {| e_class := fun c => if N.eqb c 1 then Some b1_cd else None; e_enum := fun _ => [];
     e_coerce := e1_coerce; e_in := fun _ _ => Err EType; e_iter := fun _ => Err EType; e_len := fun _ => Err EType |}.
Definition b1_x : val :=
  VInst 1 [(1, VList [VNone; VInst 1 [(1, VList []); (2, VDict []); (3, VAtom PStr 7)]]); (2, VDict [(VAtom PStr 5, VSet [VAtom PInt 1; VAtom PInt 2])]); (3, VNone)].
Example C01_base_nonvacuous_runs :
  unstructure b1_env (mk_cfg false true false false) 6 (TClass 1) b1_x
    = Ok (VDict [(VAtom PStr 1, VList [VNone; VDict [(VAtom PStr 1, VList []); (VAtom PStr 2, VDict []); (VAtom PStr 3, VAtom PStr 7)]]);
                 (VAtom PStr 2, VDict [(VAtom PStr 5, VSet [VAtom PInt 1; VAtom PInt 2])]); (VAtom PStr 3, VNone)])
  /\ forall genS dvS, match unstructure b1_env (mk_cfg false true false false) 6 (TClass 1) b1_x with
                      | Ok u => structure b1_env (mk_cfg genS dvS false false) (vsize b1_x * 3 + 1) (TClass 1) u = Ok b1_x
                      | _ => False end.
Proof. split; [vm_compute; reflexivity|]. intros [|] [|]; vm_compute; reflexivity. Qed.
