(* Routing.v -- how BaseConverter / Converter drive the two dispatchers:
   construction, register_*_hook routing, copy().  Executable; no proofs. *)
From V.Model Require Import Base Dispatch.

Inductive rcond := CUnion | CNewType | CElse.
Inductive raction := AFuncExact | ACls | ARegistry (effs : list eff).

Inductive copt := ODictFactory | OStrat | OPrefer | ODetailed | OOmit | OForbid
                | OTypeOv | OCollOv | OUnstructFallback | OStructFallback.

Definition copt_eqb (a b : copt) : bool :=
  match a, b with
  | ODictFactory, ODictFactory | OStrat, OStrat | OPrefer, OPrefer | ODetailed, ODetailed
  | OOmit, OOmit | OForbid, OForbid | OTypeOv, OTypeOv | OCollOv, OCollOv
  | OUnstructFallback, OUnstructFallback | OStructFallback, OStructFallback => true
  | _, _ => false
  end.

(* one entry of the tables a converter is born with (source order) *)
Record ientry := { ie_ureg : bool;      (* the `_union_struct_registry` entry *)
                   ie_writes : bool;    (* a gen_* factory that writes the direct table *)
                   ie_asdict_only : bool }.

Record csrc := {
  base_un : list ientry; base_st : list ientry;     (* BaseConverter.__init__ register_func_list entries *)
  conv_un : list ientry; conv_st : list ientry;     (* Converter.__init__ factory registrations *)
  cls_un : list cls; cls_st : list cls;             (* BaseConverter.__init__ register_cls_list entries *)
  r_un : list (rcond * raction); r_st : list (rcond * raction);
  copy_base : list copt; copy_full : list copt;
  copy_base_ureg : bool; copy_full_ureg : bool
}.

Fixpoint route_action (r : list (rcond * raction)) (isu isn : bool) : option raction :=
  match r with
  | [] => None
  | (CUnion, a) :: r' => if isu then Some a else route_action r' isu isn
  | (CNewType, a) :: r' => if isn then Some a else route_action r' isu isn
  | (CElse, a) :: _ => Some a
  end.

(* register_(un)structure_hook(t, h) as a dispatcher operation *)
Definition hook_reg_op (r : list (rcond * raction)) (isu isn : bool) (t : ty) (h : hook) : option op :=
  match route_action r isu isn with
  | Some AFuncExact => Some (ORegFunc (PExact t) (HdHook h))
  | Some ACls => Some (ORegCls t h)
  | Some (ARegistry effs) => Some (ORegUnion t h effs)
  | None => None
  end.

(* options a converter is constructed with; values are opaque ids *)
Definition optmap := list (copt * N).
Fixpoint opt_get (m : optmap) (o : copt) : option N :=
  match m with
  | [] => None
  | (o', v) :: r => if copt_eqb o' o then Some v else opt_get r o
  end.
Definition opt_val (m : optmap) (o : copt) : N := match opt_get m o with Some v => v | None => 0%N end.
(* by convention value 0 is the constructor default of every option; OStrat: 0 = AS_DICT *)

Record conv := {
  c_full : bool;            (* true = Converter, false = BaseConverter *)
  c_opts : optmap;
  c_un : st; c_st : st;     (* unstructure / structure dispatchers *)
  c_un_skip : nat; c_st_skip : nat
}.

Section Conv.
Variable W : world.
Variable C : dcfg.
Variable S : csrc.

Definition entry_op (start : nat) (ix : nat) (e : ientry) : op :=
  let i := (start + ix)%nat in
  if ie_ureg e then ORegFunc PUnionReg HdUnionReg
  else ORegFunc (PInit i) (HdInit i (if ie_writes e then WSelf else WNone)).

Fixpoint entry_ops (start ix : nat) (asdict : bool) (l : list ientry) : list op :=
  match l with
  | [] => []
  | e :: r =>
      let rest := entry_ops start (Datatypes.S ix) asdict r in
      if ie_asdict_only e && negb asdict then rest else entry_op start ix e :: rest
  end.

(* the per-item loop of register_func_list applies its final effects once per
   call; running them per entry gives the same state (they are idempotent) *)
Definition build (full : bool) (o : optmap) : conv :=
  let asdict := N.eqb (opt_val o OStrat) 0 in
  let un0 := init_st [] [] (opt_val o OUnstructFallback) in
  let st0 := init_st [] [] (opt_val o OStructFallback) in
  let cops := map (fun c => ORegCls c (HBase c)) in
  let un1 := run W C un0 (cops (cls_un S) ++ entry_ops 0 0 asdict (base_un S)) in
  let st1 := run W C st0 (entry_ops 0 0 asdict (base_st S) ++ cops (cls_st S)) in
  let un2 := if full then run W C un1 (entry_ops (length (base_un S)) 0 asdict (conv_un S)) else un1 in
  let st2 := if full then run W C st1 (entry_ops (length (base_st S)) 0 asdict (conv_st S)) else st1 in
  {| c_full := full; c_opts := o; c_un := un2; c_st := st2;
     c_un_skip := length (preds un2); c_st_skip := length (preds st2) |}.

(* copy with overrides: options named in [passes] are forwarded (override, else
   current value); every other option falls back to the constructor default *)
Definition copy_opts (passes : list copt) (cur ov : optmap) : optmap :=
  map (fun o => (o, match opt_get ov o with Some v => v | None => opt_val cur o end)) passes.

Definition copy_conv (c : conv) (ov : optmap) : conv :=
  let passes := if c_full c then copy_full S else copy_base S in
  let r := build (c_full c) (copy_opts passes (c_opts c) ov) in
  let un := copy_to C (c_un c) (c_un r) (c_un_skip c) in
  let st1 := copy_to C (c_st c) (c_st r) (c_st_skip c) in
  let keeps_ureg := if c_full c then copy_full_ureg S else copy_base_ureg S in
  let st2 := if keeps_ureg then set_ureg st1 (ureg (c_st c) ++ ureg st1) else st1 in
  {| c_full := c_full c; c_opts := c_opts r; c_un := un; c_st := st2;
     c_un_skip := c_un_skip r; c_st_skip := c_st_skip r |}.

(* ---- the public API as operations on a converter ---- *)
Inductive dir := DUn | DSt.
Definition dir_eqb (a b : dir) : bool := match a, b with DUn, DUn | DSt, DSt => true | _, _ => false end.

Inductive uop :=
| URegHook (d : dir) (t : ty) (h : hook)                              (* register_(un)structure_hook(t, f) *)
| URegFunc (d : dir) (p : tag) (h : hook)                             (* register_*_hook_func(pred, f) *)
| URegFactory (d : dir) (p : tag) (f : tag) (ext : bool) (w : dwrite) (* register_*_hook_factory(pred, factory) *)
| UGet (d : dir) (t : ty) (use_cache : bool).                         (* get_*_hook / structure / unstructure on t *)

Definition is_ureg_op (u : uop) : bool := match u with UGet _ _ _ => false | _ => true end.

(* the dispatcher operation a public call performs on dispatcher d *)
Definition dop (d : dir) (u : uop) : list op :=
  match u with
  | URegHook d' t h =>
      if dir_eqb d d' then
        match hook_reg_op (match d with DUn => r_un S | DSt => r_st S end) (w_is_union W t) (w_is_newtype W t) t h with
        | Some o => [o] | None => [] end
      else []
  | URegFunc d' p h => if dir_eqb d d' then [ORegFunc (PUser p) (HdHook h)] else []
  | URegFactory d' p f ext w => if dir_eqb d d' then [ORegFunc (PUser p) (HdFact f ext w)] else []
  | UGet d' t true => if dir_eqb d d' then [ODisp t] else []
  | UGet d' t false => if dir_eqb d d' then [ODispNC t] else []
  end.

Definition dops (d : dir) (us : list uop) : list op := flat_map (dop d) us.

Definition with_un (c : conv) (s : st) : conv :=
  {| c_full := c_full c; c_opts := c_opts c; c_un := s; c_st := c_st c; c_un_skip := c_un_skip c; c_st_skip := c_st_skip c |}.
Definition with_st (c : conv) (s : st) : conv :=
  {| c_full := c_full c; c_opts := c_opts c; c_un := c_un c; c_st := s; c_un_skip := c_un_skip c; c_st_skip := c_st_skip c |}.

Definition ustep (c : conv) (u : uop) : conv :=
  with_st (with_un c (run W C (c_un c) (dop DUn u))) (run W C (c_st c) (dop DSt u)).
Definition urun (c : conv) (us : list uop) : conv := fold_left ustep us c.

Definition conv_lookup (c : conv) (d : dir) (t : ty) : hook :=
  fst (dispatch_c W C (match d with DUn => c_un c | DSt => c_st c end) t).

End Conv.
