(* Templates.v -- Core B, class level: what the per-class hooks of cattrs do with
   a payload, parametric in the payload value type V and in the per-field
   handlers.  One definition per code path of the source:
     tpl_detailed / tpl_fast  = gen/__init__.py make_dict_structure_fn_from_attrs (two templates)
     tpl_interp_dict / _tuple = converters.py structure_attrs_fromdict / fromtuple
     un_gen                   = gen/__init__.py make_dict_unstructure_fn_from_attrs
     un_interp_dict / _tuple  = converters.py unstructure_attrs_asdict / astuple
     td_detailed / td_fast / td_unstruct = gen/typeddicts.py
   Statement order follows the source (line buckets lines / post_lines /
   instantiation / pi_lines), so ordering defects are representable.
   Executable; no proofs. *)
From V.Model Require Import Base.

Section Templates.
Variable V : Type.

(* An arbitrary Python object used as payload, seen through the operations the
   hooks perform on it.  A real dict is [dict_obj d]; junk is any other record. *)
Record pobj := {
  o_in : N -> result bool;                 (* 'k' in o *)
  o_get : N -> result V;                   (* o['k'] *)
  o_keys : result (list N);                (* o.keys() *)
  o_iter : result (list V);                (* iter(o) *)
  o_is_mapping : bool;                     (* isinstance(o, Mapping) *)
  o_copy : result (option (list (N * V)))  (* o.copy(): Some d for a dict, None = a copy of some non-dict object *)
}.

Definition dict_obj (d : list (N * V)) : pobj := {|
  o_in := fun k => Ok (mem_N k (keys d));
  o_get := fun k => match assoc d k with Some v => Ok v | None => Err EKey end;
  o_keys := Ok (keys d);
  o_iter := Err EOther;   (* iterating a dict yields its keys, which are not values of V; never used on dicts by the templates *)
  o_is_mapping := true;
  o_copy := Ok (Some d) |}.

Record field := {
  f_name : N;            (* attribute name *)
  f_alias : N;           (* __init__ parameter name *)
  f_dflt : option V;     (* None = required; Some v = the default (value, or what the factory returns) *)
  f_init : bool;
  f_kw_only : bool;      (* what __init__ really requires *)
  f_kw_seen : bool;      (* the kw_only flag of the (adapted) attribute the generator looks at *)
  f_conv : bool          (* has a field-level converter (applied by __init__) *)
}.

Record fov := {          (* AttributeOverride *)
  ov_omit : option bool;
  ov_rename : option N;
  ov_oid : option bool   (* omit_if_default *)
}.
Definition neutral : fov := {| ov_omit := None; ov_rename := None; ov_oid := None |}.

Record topts := {
  t_cl : N;               (* class id, for error values *)
  t_forbid : bool;
  t_use_alias : bool;
  t_incl_init_false : bool;
  t_omit_if_default : bool
}.

Variable K : N -> V -> result V.      (* field converter of attribute n *)
Variable veq : V -> V -> bool.        (* Python == on values *)

Definition inst := list (N * V).      (* attribute name -> value, attributes that are set *)

(* ---- attrs / dataclass __init__ ---- *)
Definition params (fs : list field) : list field := filter f_init fs.
Definition pos_params (fs : list field) : list field := filter (fun f => negb (f_kw_only f)) (params fs).

Fixpoint bind_pos (ps : list field) (args : list V) : result (list (N * V)) :=
  match ps, args with
  | _, [] => Ok []
  | [], _ :: _ => Err EType                       (* too many positional arguments *)
  | p :: ps', a :: args' => do r <- bind_pos ps' args'; Ok ((f_alias p, a) :: r)
  end.

Fixpoint bind_kw (ps : list field) (bound : list (N * V)) (kw : list (N * V)) : result (list (N * V)) :=
  match kw with
  | [] => Ok bound
  | (k, v) :: r =>
      if existsb (fun p => N.eqb (f_alias p) k) ps then
        match assoc bound k with
        | Some _ => Err EType                      (* multiple values for argument *)
        | None => bind_kw ps (bound ++ [(k, v)]) r
        end
      else Err EType                               (* unexpected keyword argument *)
  end.

Definition apply_conv (f : field) (v : V) : result V := if f_conv f then K (f_name f) v else Ok v.

Fixpoint fill (fs : list field) (bound : list (N * V)) : result inst :=
  match fs with
  | [] => Ok []
  | f :: r =>
      if f_init f then
        match assoc bound (f_alias f), f_dflt f with
        | Some v, _ | None, Some v => do w <- apply_conv f v; do rest <- fill r bound; Ok ((f_name f, w) :: rest)
        | None, None => Err EType                  (* missing required argument *)
        end
      else
        match f_dflt f with
        | Some v => do w <- apply_conv f v; do rest <- fill r bound; Ok ((f_name f, w) :: rest)
        | None => fill r bound                     (* attribute left unset *)
        end
  end.

Definition instantiate (fs : list field) (pos : list V) (kw : list (N * V)) : result inst :=
  do b <- bind_pos (pos_params fs) pos;
  do b' <- bind_kw (params fs) b kw;
  fill fs b'.

Fixpoint inst_set (i : inst) (n : N) (v : V) : inst :=
  match i with
  | [] => [(n, v)]
  | (n', v') :: r => if N.eqb n' n then (n', v) :: r else (n', v') :: inst_set r n v
  end.

(* ---- which fields a generated hook handles, and under which key ---- *)
Section Gen.
Variable opt : topts.
Variable ov : N -> fov.               (* override of attribute n *)
Variable hs : N -> V -> result V.     (* the handler the generator resolved for attribute n *)

Definition included (f : field) : bool :=
  match ov_omit (ov (f_name f)) with
  | Some true => false
  | Some false => true
  | None => f_init f || t_incl_init_false opt
  end.

Definition key_of (f : field) : N :=
  match ov_rename (ov (f_name f)) with
  | Some k => k
  | None => if t_use_alias opt then f_alias f else f_name f
  end.

Definition allowed (fs : list field) : list N := map key_of (filter included fs).

Definition unknown_keys (fs : list field) (ks : list N) : list N :=
  filter (fun k => negb (mem_N k (allowed fs))) ks.

(* try: <dest> = handler(o['kn'])   -- every Python exception is caught; fuel exhaustion is not an exception *)
Definition fetch (o : pobj) (f : field) : result V := do v <- o_get o (key_of f); hs (f_name f) v.

(* --- detailed-validation template --- *)
Fixpoint det_loop (o : pobj) (fs : list field) (res : list (N * V)) (errs : list (option N * errkind))
  : result (list (N * V) * list (option N * errkind)) :=
  match fs with
  | [] => Ok (res, errs)
  | f :: r =>
      let attempt :=
        match fetch o f with
        | Ok w => det_loop o r (res ++ [(f_alias f, w)]) errs
        | Err e => det_loop o r res (errs ++ [(Some (f_name f), e)])
        | OutOfFuel => OutOfFuel
        end in
      match f_dflt f with
      | Some _ => do b <- o_in o (key_of f); if b then attempt else det_loop o r res errs
      | None => attempt
      end
  end.

Fixpoint det_pi (o : pobj) (fs : list field) (i : inst) (errs : list (option N * errkind))
  : result (inst * list (option N * errkind)) :=
  match fs with
  | [] => Ok (i, errs)
  | f :: r =>
      let attempt :=
        match fetch o f with
        | Ok w => det_pi o r (inst_set i (f_name f) w) errs
        | Err e => det_pi o r i (errs ++ [(Some (f_name f), e)])
        | OutOfFuel => OutOfFuel
        end in
      match f_dflt f with
      | Some _ => do b <- o_in o (key_of f); if b then attempt else det_pi o r i errs
      | None => attempt
      end
  end.

(* [recheck]: does the template look at `errors` again after the post-instantiation lines?
   (translator T1 reads this off the source; false = finding F2) *)
Definition tpl_detailed (recheck : bool) (fs : list field) (o : pobj) : result inst :=
  let inc := filter included fs in
  do re <- det_loop o (filter f_init inc) [] [];
  let '(res, errs) := re in
  do errs1 <- (if t_forbid opt
               then do ks <- o_keys o;
                    match unknown_keys fs ks with
                    | [] => Ok errs
                    | u => Ok (errs ++ [(None, EForbidden (t_cl opt) u)])
                    end
               else Ok errs);
  match errs1 with
  | _ :: _ => Err (EClassVal (t_cl opt) errs1)
  | [] =>
      match instantiate fs [] res with
      | Err e => Err (EClassVal (t_cl opt) [(None, e)])
      | OutOfFuel => OutOfFuel
      | Ok i =>
          do pe <- det_pi o (filter (fun f => negb (f_init f)) inc) i [];
          let '(i', errs2) := pe in
          match errs2 with
          | _ :: _ => if recheck then Err (EClassVal (t_cl opt) errs2) else Ok i'
          | [] => Ok i'
          end
      end
  end.

(* --- fast template --- *)
Definition required (f : field) : bool := match f_dflt f with None => true | Some _ => false end.

(* the generated call `__cl(a, k=b, c, **res)` only compiles if no positional argument follows a keyword one.
   [kw_last]: does the generator emit keyword arguments after the positional ones? (T1; false = finding F1) *)
Fixpoint pos_after_kw (fs : list field) (seen_kw : bool) : bool :=
  match fs with
  | [] => false
  | f :: r => if f_kw_seen f then pos_after_kw r true else (seen_kw || pos_after_kw r seen_kw)
  end.

Definition fast_compiles (kw_last : bool) (fs : list field) : bool :=
  kw_last || negb (pos_after_kw (filter (fun f => f_init f && required f) (filter included fs)) false).

Fixpoint fast_opt_loop (o : pobj) (fs : list field) (res : list (N * V)) : result (list (N * V)) :=
  match fs with
  | [] => Ok res
  | f :: r => do b <- o_in o (key_of f);
              if b then do w <- fetch o f; fast_opt_loop o r (res ++ [(f_alias f, w)])
              else fast_opt_loop o r res
  end.

(* evaluation of the call arguments, left to right, in the order the generator emits them *)
Fixpoint fast_args (o : pobj) (fs : list field) : result (list V * list (N * V)) :=
  match fs with
  | [] => Ok ([], [])
  | f :: r => do w <- fetch o f; do rest <- fast_args o r;
              if f_kw_seen f then Ok (fst rest, (f_alias f, w) :: snd rest) else Ok (w :: fst rest, snd rest)
  end.

Fixpoint fast_pi_req (o : pobj) (fs : list field) (i : inst) : result inst :=
  match fs with
  | [] => Ok i
  | f :: r => do w <- fetch o f; fast_pi_req o r (inst_set i (f_name f) w)
  end.

Fixpoint fast_pi_opt (o : pobj) (fs : list field) (i : inst) : result inst :=
  match fs with
  | [] => Ok i
  | f :: r => do b <- o_in o (key_of f);
              if b then do w <- fetch o f; fast_pi_opt o r (inst_set i (f_name f) w)
              else fast_pi_opt o r i
  end.

Definition tpl_fast (kw_last : bool) (fs : list field) (o : pobj) : result inst :=
  if negb (fast_compiles kw_last fs) then Err ESyntax else
  let inc := filter included fs in
  let req := filter required inc in
  let opt_ := filter (fun f => negb (required f)) inc in
  do res <- fast_opt_loop o (filter f_init opt_) [];
  do _ <- (if t_forbid opt
           then do ks <- o_keys o;
                match unknown_keys fs ks with
                | [] => Ok tt
                | u => Err (EForbidden (t_cl opt) u)
                end
           else Ok tt);
  do pk <- fast_args o (filter f_init req);
  do i <- instantiate fs (fst pk) (snd pk ++ res);
  do i1 <- fast_pi_req o (filter (fun f => negb (f_init f)) req) i;
  fast_pi_opt o (filter (fun f => negb (f_init f)) opt_) i1.

(* --- generated unstructure --- *)
Definition un_included (f : field) : bool := included f.

Definition omit_default (f : field) : bool :=
  match f_dflt f with
  | None => false
  | Some _ => match ov_oid (ov (f_name f)) with
              | Some b => b
              | None => t_omit_if_default opt
              end
  end.

Definition getattr (i : inst) (n : N) : result V :=
  match assoc i n with Some v => Ok v | None => Err EAttr end.

(* the dict literal holds the unconditional entries; the `if instance.a != default` lines follow it *)
Fixpoint un_literal (fs : list field) (i : inst) : result (list (N * V)) :=
  match fs with
  | [] => Ok []
  | f :: r => if omit_default f then un_literal r i
              else do v <- getattr i (f_name f); do w <- hs (f_name f) v; do rest <- un_literal r i;
                   Ok ((key_of f, w) :: rest)
  end.

Fixpoint un_cond (fs : list field) (i : inst) (res : list (N * V)) : result (list (N * V)) :=
  match fs with
  | [] => Ok res
  | f :: r => if omit_default f then
                do v <- getattr i (f_name f);
                match f_dflt f with
                | Some d => if veq v d then un_cond r i res
                            else do w <- hs (f_name f) v; un_cond r i (dict_set res (key_of f) w)
                | None => un_cond r i res
                end
              else un_cond r i res
  end.

(* a dict literal with a repeated key keeps the first position and the last value *)
Fixpoint dict_of (l : list (N * V)) (acc : list (N * V)) : list (N * V) :=
  match l with [] => acc | (k, v) :: r => dict_of r (dict_set acc k v) end.

Definition un_gen (fs : list field) (i : inst) : result (list (N * V)) :=
  let inc := filter un_included fs in
  do lit <- un_literal inc i;
  un_cond inc i (dict_of lit []).

End Gen.

(* ---- interpretive class handling of BaseConverter (also Converter under the tuple strategy) ---- *)
Section Interp.
Variable hs : N -> V -> result V.

Fixpoint interp_dict_loop (o : pobj) (fs : list field) (acc : list (N * V)) : result (list (N * V)) :=
  match fs with
  | [] => Ok acc
  | f :: r =>
      match o_get o (f_name f) with
      | Err EKey => interp_dict_loop o r acc                 (* only KeyError is swallowed *)
      | Err e => Err e
      | OutOfFuel => OutOfFuel
      | Ok v => do w <- hs (f_name f) v; interp_dict_loop o r (dict_set acc (f_alias f) w)
      end
  end.

Definition tpl_interp_dict (fs : list field) (o : pobj) : result inst :=
  do kw <- interp_dict_loop o fs [];
  instantiate fs [] kw.

(* structure_attrs_fromtuple: the payload is zipped with the attributes.  [by_kw]: are keyword-only attributes
   passed by keyword and init=False attributes left out of the call?  (translator T1; false = finding F27:
   everything is passed positionally, in attribute order) *)
Fixpoint zip_split (by_kw : bool) (fs : list field) (vs : list V) : result (list V * list (N * V)) :=
  match fs, vs with
  | f :: r, v :: vs' =>
      if by_kw && negb (f_init f) then zip_split by_kw r vs'        (* occupies a position, is not converted *)
      else
        do w <- hs (f_name f) v; do rest <- zip_split by_kw r vs';
        if by_kw && f_kw_only f then Ok (fst rest, (f_alias f, w) :: snd rest) else Ok (w :: fst rest, snd rest)
  | _, _ => Ok ([], [])
  end.

Definition tpl_interp_tuple (by_kw : bool) (fs : list field) (o : pobj) : result inst :=
  do vs <- o_iter o;
  do pk <- zip_split by_kw fs vs;
  instantiate fs (fst pk) (snd pk).

Fixpoint un_interp_dict (fs : list field) (i : inst) : result (list (N * V)) :=
  match fs with
  | [] => Ok []
  | f :: r => do v <- getattr i (f_name f); do w <- hs (f_name f) v; do rest <- un_interp_dict r i;
              Ok ((f_name f, w) :: rest)
  end.

Fixpoint un_interp_tuple (fs : list field) (i : inst) : result (list V) :=
  match fs with
  | [] => Ok []
  | f :: r => do v <- getattr i (f_name f); do w <- hs (f_name f) v; do rest <- un_interp_tuple r i; Ok (w :: rest)
  end.
End Interp.

End Templates.

Arguments dict_obj {V} d.
Arguments neutral : default implicits.
Arguments f_name {V} f. Arguments f_alias {V} f. Arguments f_dflt {V} f. Arguments f_init {V} f.
Arguments f_kw_only {V} f. Arguments f_kw_seen {V} f. Arguments f_conv {V} f.
Arguments o_in {V} p k. Arguments o_get {V} p k. Arguments o_keys {V} p. Arguments o_iter {V} p.
Arguments o_is_mapping {V} p. Arguments o_copy {V} p.
