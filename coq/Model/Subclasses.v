(* Subclasses.v -- strategies/_subclasses.py include_subclasses, automatic variant (C14):
   every class of the tree gets an exact-class hook that disambiguates among the class and its
   descendants and re-dispatches on the class found.  Executable; no proofs. *)
From V.Model Require Import Base Disambig.

Section Sub.
Variable choose : list N -> list N.        (* iteration order of sets of names *)
Variable ord : list dclass -> list dclass. (* iteration order of the set of classes in _get_union_type *)
Variable skip : bool.
Variable classes : list dclass.            (* the whole tree; a class's attribute list includes the inherited ones *)
Variable is_desc : N -> N -> bool.         (* is_desc x k: x is k or a descendant of k *)

Definition sub_union (k : N) : list dclass := ord (filter (fun c => is_desc (dc_id c) k) classes).

(* the hook registered for class k: which class does a payload end up being structured as? *)
Fixpoint auto_resolve (fuel : nat) (k : N) (payload_keys : list N) : result N :=
  match fuel with
  | O => OutOfFuel
  | S n =>
      let u := sub_union k in
      if Nat.ltb (length u) 2 then Ok k          (* no subclasses: the class's own hook *)
      else
        do r <- key_loop choose skip (sort_desc u) (sort_desc u) [] None;
        do d <- dis_keys (fst r) (snd r) payload_keys;
        if N.eqb d k then Ok k else auto_resolve n d payload_keys
  end.

(* include_subclasses succeeds iff a disambiguator can be built at every node with subclasses *)
Definition node_ok (k : N) : bool :=
  let u := sub_union k in
  Nat.ltb (length u) 2 || is_ok (key_loop choose skip (sort_desc u) (sort_desc u) [] None).

End Sub.
