(* Passthrough.v -- strategies/_unions.py configure_union_passthrough (C15).
   Classes and equality classes of values are interned: a value is (k, e) with k its
   exact class and e its equality class (1, True and 1.0 share e and differ in k).
   Executable; no proofs. *)
From V.Model Require Import Base.

Definition atom := (N * N)%type.    (* (class, equality id) *)

Inductive member :=
| MCls (c : N)                 (* a class *)
| MNewType (n c : N)           (* NewType n of class c *)
| MLit (vals : list atom).     (* Literal[...] *)

Definition is_lit (m : member) : bool := match m with MLit _ => true | _ => false end.
Definition base_of (m : member) : option N :=
  match m with MCls c => Some c | MNewType _ c => Some c | MLit _ => None end.

Definition member_eqb (a b : member) : bool :=
  match a, b with
  | MCls c, MCls d => N.eqb c d
  | MNewType n c, MNewType m d => N.eqb n m && N.eqb c d
  | MLit x, MLit y => (fix eq (x y : list atom) := match x, y with
                         | [], [] => true
                         | (a1, a2) :: x', (b1, b2) :: y' => N.eqb a1 b1 && N.eqb a2 b2 && eq x' y'
                         | _, _ => false end) x y
  | _, _ => false
  end.

Section PT.
Variable sub : N -> N -> bool.       (* is_subclass a c (reflexive); an oracle *)
Variable S : list N.                 (* the classes the strategy was configured with *)
Variable pairs : bool.               (* literal check by (class, value) pair -- read off the source by T1 *)

Definition lits (U : list member) : list atom :=
  flat_map (fun m => match m with MLit vs => vs | _ => [] end) U.

Definition literal_values (U : list member) : list N := map snd (lits U).     (* a set under == *)
Definition literal_classes (U : list member) : list N := map fst (lits U).

Definition nlc0 (U : list member) : list N :=
  flat_map (fun m => match base_of m with
                     | Some c => if mem_N c S then [c] else []
                     | None => [] end) U.

Definition non_literal_classes (U : list member) : list N :=
  nlc0 U ++ filter (fun a => existsb (fun c => sub a c) (nlc0 U)) S.

Definition spillover (U : list member) : list member :=
  filter (fun m => match base_of m with
                   | Some c => negb (mem_N c (non_literal_classes U))
                   | None => false end) U.

Inductive outcome :=
| Pass                               (* returns the value itself *)
| Delegate (rest : list member)      (* converter.structure(val, <union of rest>) *)
| Reject.                            (* TypeError *)

Definition lit_hit (U : list member) (v : atom) : bool :=
  if pairs then existsb (fun l => N.eqb (fst l) (fst v) && N.eqb (snd l) (snd v)) (lits U)
  else mem_N (fst v) (literal_classes U) && mem_N (snd v) (literal_values U).

Definition structure_native (U : list member) (v : atom) : outcome :=
  if lit_hit U v then Pass
  else if mem_N (fst v) (non_literal_classes U) then Pass
  else match spillover U with
       | [] => Reject
       | r => Delegate r
       end.

(* contains_native_union: does the strategy's hook apply to U at all? *)
Definition none_cls : N := 0%N.       (* the id of NoneType by convention *)
Fixpoint dedup (l : list member) : list member :=
  match l with
  | [] => []
  | m :: r => if existsb (member_eqb m) r then dedup r else m :: dedup r
  end.

Definition applies (U : list member) : bool :=
  let n := length (dedup U) in
  if Nat.eqb n 2 && existsb (fun m => match m with MCls c => N.eqb c none_cls | _ => false end) U then false
  else existsb (fun c => mem_N c S)
         (literal_classes U ++ flat_map (fun m => match base_of m with Some c => [c] | None => [] end) U).

(* the documented rule *)
Definition accepted_class (U : list member) (k : N) : bool := mem_N k (non_literal_classes U).
Definition doc_outcome (U : list member) (v : atom) : outcome :=
  if accepted_class U (fst v) || existsb (fun l => N.eqb (fst l) (fst v) && N.eqb (snd l) (snd v)) (lits U) then Pass
  else match spillover U with [] => Reject | r => Delegate r end.

End PT.

Definition outcome_same (a b : outcome) : bool :=
  match a, b with
  | Pass, Pass | Reject, Reject => true
  | Delegate x, Delegate y => forallb (fun m => existsb (member_eqb m) y) x && forallb (fun m => existsb (member_eqb m) x) y
  | _, _ => false
  end.
