(* Alias.v -- C11, object identity.  A store of mutable dicts addressed by object id; the in-place
   edits the TypedDict hooks (gen/typeddicts.py) and the tagged-union hooks (strategies/_unions.py)
   perform on their working dict; whether that working dict is a fresh copy of the argument or the
   argument itself is a parameter, read off the source by translator T1.  Executable; no proofs. *)
From V.Model Require Import Base.

Definition oid := N.
(* a value held in a dict: an atom, or a reference to a mutable container *)
Inductive cell := CAtom (a : N) | CRef (r : oid).
Definition obj := list (N * cell).
Definition store := list (oid * obj).

Definition fresh (s : store) : oid := N.succ (fold_left N.max (map fst s) 0%N).

(* the in-place operations the generated / hand-written hooks use *)
Inductive iop :=
| ISet (k : N) (c : cell)        (* res[k] = c *)
| IDel (k : N)                   (* del res[k]: KeyError when absent *)
| IPop (k : N)                   (* res.pop(k): KeyError when absent *)
| IPopDefault (k : N)            (* res.pop(k, None) *)
| IFail (e : errkind).           (* a handler raised between two edits *)

Definition apply_op (o : obj) (op : iop) : obj * option errkind :=
  match op with
  | ISet k c => (dict_set o k c, None)
  | IDel k | IPop k => if mem_N k (keys o) then (remove_key o k, None) else (o, Some EKey)
  | IPopDefault k => (remove_key o k, None)
  | IFail e => (o, Some e)
  end.

(* run the edits until one raises; the state reached stays in the working dict either way *)
Fixpoint run_ops (o : obj) (ops : list iop) : obj * option errkind :=
  match ops with
  | [] => (o, None)
  | op :: r => match apply_op o op with
               | (o', None) => run_ops o' r
               | (o', Some e) => (o', Some e)
               end
  end.

(* a hook that edits a working dict: [copy_first] = does it start with `x = x.copy()` / `res = o.copy()`? *)
Definition inplace (copy_first : bool) (ops : list iop) (s : store) (arg : oid) : store * result oid :=
  match assoc s arg with
  | None => (s, Err EOther)
  | Some o =>
      let target := if copy_first then fresh s else arg in
      let s0 := if copy_first then dict_set s target o else s in
      let '(o', err) := run_ops o ops in
      (dict_set s0 target o', match err with None => Ok target | Some e => Err e end)
  end.

(* which containers a dict reaches directly *)
Definition refs (o : obj) : list oid := flat_map (fun kc => match snd kc with CRef r => [r] | CAtom _ => [] end) o.
