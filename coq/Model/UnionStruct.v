(* UnionStruct.v -- converters.py BaseConverter._gen_attrs_union_structure: the structure hook of a union of attrs classes /
   dataclasses (and maybe None) under the default disambiguation.  The payload is None or a dict (given by its items); the
   disambiguator sees the payload's keys (Model/Disambig.v); the member hook is a parameter.
   [none_guard_is_identity] is what T1 reads off the source: `if obj is None` (true) vs a truthiness test (false).
   Executable; no proofs. *)
From V.Model Require Import Base.

Section US.
Variable V I : Type.
Variable has_none : bool.                 (* NoneType in cl.__args__ *)
Variable none_guard_is_identity : bool.
Variable dis : list N -> result N.        (* dis_fn on a mapping payload, by its keys *)
Variable st : N -> list (N * V) -> result I.   (* self.structure(obj, <class>) *)

Definition goes_to_none (o : option (list (N * V))) : bool :=
  match o with
  | None => true
  | Some d => if none_guard_is_identity then false else match d with [] => true | _ => false end     (* `not {}` is True *)
  end.

Definition union_structure (o : option (list (N * V))) : result (option I) :=
  if has_none && goes_to_none o then Ok None
  else match o with
       | None => Err EValue               (* dis_fn(None): "Only input mappings are supported" *)
       | Some d => do c <- dis (keys d); do i <- st c d; Ok (Some i)
       end.
End US.
