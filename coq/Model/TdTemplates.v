(* TdTemplates.v -- gen/typeddicts.py: the TypedDict structure templates (detailed / fast) and the
   unstructure template, parametric in payload values and per-key handlers, statement order as in
   the source.  Executable; no proofs. *)
From V.Model Require Import Base Templates.

Section Td.
Variable V : Type.

Record tdfield := { d_name : N; d_required : bool }.

Record tdopts := { td_cl : N; td_forbid : bool; td_skip_self_rename : bool   (* `and kn != an` on the removals: T1 *) }.

Variable opt : tdopts.
Variable ov : N -> fov.
Variable hs : N -> V -> result V.

Definition td_included (f : tdfield) : bool :=
  match ov_omit (ov (d_name f)) with Some true => false | _ => true end.
Definition td_key (f : tdfield) : N :=
  match ov_rename (ov (d_name f)) with Some k => k | None => d_name f end.
Definition td_renamed (f : tdfield) : bool :=
  match ov_rename (ov (d_name f)) with
  | Some k => if td_skip_self_rename opt then negb (N.eqb k (d_name f)) else true
  | None => false
  end.
Definition td_allowed (fs : list tdfield) : list N := map td_key (filter td_included fs).

(* `res` is a copy of the payload: Some d for a dict, None for a copy of some other object, on which
   every item assignment / del / pop(k, None) raises TypeError *)
Definition res_set (r : option (list (N * V))) (k : N) (v : V) : result (option (list (N * V))) :=
  match r with Some d => Ok (Some (dict_set d k v)) | None => Err EType end.
Definition res_del (r : option (list (N * V))) (k : N) : result (option (list (N * V))) :=
  match r with
  | Some d => if mem_N k (keys d) then Ok (Some (remove_key d k)) else Err EKey
  | None => Err EType
  end.
Definition res_pop (r : option (list (N * V))) (k : N) : result (option (list (N * V))) :=
  match r with Some d => Ok (Some (remove_key d k)) | None => Err EType end.

Definition td_fetch (o : pobj V) (f : tdfield) : result V := do v <- o_get o (td_key f); hs (d_name f) v.

(* one `try:` block of the detailed template *)
Definition td_try (o : pobj V) (f : tdfield) (r : option (list (N * V))) : result (option (list (N * V))) :=
  do w <- td_fetch o f;
  do r1 <- res_set r (d_name f) w;
  if td_renamed f then res_del r1 (td_key f) else Ok r1.

Fixpoint td_det_loop (o : pobj V) (fs : list tdfield) (r : option (list (N * V))) (errs : list (option N * errkind))
  : result (option (list (N * V)) * list (option N * errkind)) :=
  match fs with
  | [] => Ok (r, errs)
  | f :: rest =>
      let attempt :=
        match td_try o f r with
        | Ok r' => td_det_loop o rest r' errs
        | Err e => td_det_loop o rest r (errs ++ [(Some (d_name f), e)])
                   (* a failure after `res[an] = ...` leaves that assignment in place; the result is
                      discarded anyway because errors is non-empty *)
        | OutOfFuel => OutOfFuel
        end in
      if d_required f then attempt
      else do b <- o_in o (td_key f); if b then attempt else td_det_loop o rest r errs
  end.

Definition td_unknown (fs : list tdfield) (ks : list N) : list N :=
  filter (fun k => negb (mem_N k (td_allowed fs))) ks.

Definition td_detailed (fs : list tdfield) (o : pobj V) : result (option (list (N * V))) :=
  if negb (o_is_mapping o) then Err (EClassVal (td_cl opt) [(None, EType)]) else
  do r0 <- o_copy o;
  do re <- td_det_loop o (filter td_included fs) r0 [];
  let '(r, errs) := re in
  do errs1 <- (if td_forbid opt
               then do ks <- o_keys o;
                    match td_unknown fs ks with [] => Ok errs | u => Ok (errs ++ [(None, EForbidden (td_cl opt) u)]) end
               else Ok errs);
  match errs1 with _ :: _ => Err (EClassVal (td_cl opt) errs1) | [] => Ok r end.

(* fast template: `lines` = required assignments (+ their removals), then the pops of renamed optional
   keys; `post_lines` = optional assignments, then the forbid check *)
Fixpoint td_fast_req (o : pobj V) (fs : list tdfield) (r : option (list (N * V))) : result (option (list (N * V))) :=
  match fs with
  | [] => Ok r
  | f :: rest => do r' <- td_try o f r; td_fast_req o rest r'
  end.
Fixpoint td_fast_pops (fs : list tdfield) (r : option (list (N * V))) : result (option (list (N * V))) :=
  match fs with
  | [] => Ok r
  | f :: rest => if td_renamed f then do r' <- res_pop r (td_key f); td_fast_pops rest r' else td_fast_pops rest r
  end.
Fixpoint td_fast_opt (o : pobj V) (fs : list tdfield) (r : option (list (N * V))) : result (option (list (N * V))) :=
  match fs with
  | [] => Ok r
  | f :: rest => do b <- o_in o (td_key f);
                 if b then do w <- td_fetch o f; do r' <- res_set r (d_name f) w; td_fast_opt o rest r'
                 else td_fast_opt o rest r
  end.

Definition td_fast (fs : list tdfield) (o : pobj V) : result (option (list (N * V))) :=
  let inc := filter td_included fs in
  do r0 <- o_copy o;
  do r1 <- td_fast_req o (filter d_required inc) r0;
  do r2 <- td_fast_pops (filter (fun f => negb (d_required f)) inc) r1;
  do r3 <- td_fast_opt o (filter (fun f => negb (d_required f)) inc) r2;
  do _ <- (if td_forbid opt
           then do ks <- o_keys o; match td_unknown fs ks with [] => Ok tt | u => Err (EForbidden (td_cl opt) u) end
           else Ok tt);
  Ok r3.

(* ---- unstructure ---- *)
Variable identity_h : N -> bool.     (* the handler resolved for key n is the identity function *)

(* Some d' = a new dict; None = the very object that was passed in (identity short-cut) *)
Fixpoint td_un_loop (inst : list (N * V)) (fs : list tdfield) (res : list (N * V)) : result (list (N * V)) :=
  match fs with
  | [] => Ok res
  | f :: rest =>
      let an := d_name f in
      match ov_omit (ov an) with
      | Some true => td_un_loop inst rest (remove_key res an)
      | _ =>
          let res1 := match ov_rename (ov an) with Some _ => remove_key res an | None => res end in
          if identity_h an && match ov_rename (ov an) with None => true | Some _ => false end
          then td_un_loop inst rest res1
          else
            let put := match assoc inst an with
                       | Some v => do w <- (if identity_h an then Ok v else hs an v); td_un_loop inst rest (dict_set res1 (td_key f) w)
                       | None => Err EKey
                       end in
            if d_required f then put
            else if mem_N an (keys inst) then put else td_un_loop inst rest res1
      end
  end.

Definition fov_neutral (o : fov) : bool :=
  match ov_omit o, ov_rename o, ov_oid o with None, None, None => true | _, _, _ => false end.

Definition td_unstruct (fs : list tdfield) (inst : list (N * V)) : result (option (list (N * V))) :=
  if forallb (fun f => fov_neutral (ov (d_name f)) && identity_h (d_name f)) fs then Ok None
  else do d <- td_un_loop inst fs inst; Ok (Some d).

End Td.
