(* Preconf.v -- the JSON preconfigured converter (preconf/json.py) as a post-processing of the plain
   Converter's unstructured form, and the data model of json.dumps / json.loads.  Executable; no proofs. *)
From V.Model Require Import Base Templates Conv ConvLane.

Section Json.
(* oracles, computed by the harness with the real functions *)
Variable b85 : val -> option val.      (* base85 text of a bytes atom *)
Variable keystr : val -> option val.   (* the string json.dumps writes for a non-str key (1 -> "1", True -> "true", None -> "null") *)

(* configure_converter + make_converter: bytes -> base85 text; abc.Set (sets, frozensets) -> list *)
Fixpoint jsonify (u : val) : val :=
  match u with
  | VAtom PBytes _ => match b85 u with Some s => s | None => u end
  | VSet l | VFrozenSet l | VList l => VList (map jsonify l)
  | VTuple l => VTuple (map jsonify l)
  | VDict kvs => VDict (map (fun kv => (jsonify (fst kv), jsonify (snd kv))) kvs)
  | _ => u
  end.

(* what json.dumps accepts: dict / list / tuple / str / int / float / bool / None, keys str / int / float / bool / None *)
Definition json_atom (v : val) : bool :=
  match v with VNone => true | VAtom PBytes _ => false | VAtom _ _ => true | _ => false end.
Fixpoint jsonable (u : val) : bool :=
  match u with
  | VNone => true
  | VAtom PBytes _ => false
  | VAtom _ _ => true
  | VList l | VTuple l => forallb jsonable l
  | VDict kvs => forallb (fun kv => json_atom (fst kv) && jsonable (snd kv)) kvs
  | VSet _ | VFrozenSet _ | VEnum _ _ | VInst _ _ => false
  end.

(* json.loads (json.dumps d): tuples come back as lists, keys as the strings they were written as
   (two keys written alike collapse, the later value wins) *)
Definition jkey (k : val) : val :=
  match k with VAtom PStr _ => k | _ => match keystr k with Some s => s | None => k end end.
Fixpoint json_rt (u : val) : val :=
  match u with
  | VList l | VTuple l => VList (map json_rt l)
  | VDict kvs => VDict (fold_left (fun d kv => vdict_set d (jkey (fst kv)) (json_rt (snd kv))) kvs [])
  | _ => u
  end.

(* every mapping key, at every depth, is None or an atom (the documented limit of JSON object keys) *)
Definition atomic_key (k : val) : bool := match k with VNone | VAtom _ _ => true | _ => false end.
Fixpoint keys_atomic (u : val) : bool :=
  match u with
  | VList l | VTuple l | VSet l | VFrozenSet l => forallb keys_atomic l
  | VDict kvs => forallb (fun kv => atomic_key (fst kv) && keys_atomic (snd kv)) kvs
  | _ => true
  end.
End Json.

(* ---- lane glue: tables for the two oracles, comparison up to the order of lists (a set becomes a list in
   the set's iteration order, which is not the order of the plain converter's fresh set) ---- *)
Fixpoint jsame (a b : val) : bool :=
  let fix sub (x y : list val) : bool :=
    match x with
    | [] => true
    | u :: x' => (fix mem (y' : list val) : bool := match y' with [] => false | w :: r => jsame u w || mem r end) y && sub x' y
    end in
  let fix kv_sub (x y : list (val * val)) : bool :=
    match x with
    | [] => true
    | (k, v) :: x' =>
        (fix look (y' : list (val * val)) : bool :=
           match y' with [] => false | (k2, v2) :: r => (jsame k k2 && jsame v v2) || look r end) y && kv_sub x' y
    end in
  match a, b with
  | VNone, VNone => true
  | VAtom k e, VAtom k' f => prim_eqb k k' && N.eqb e f
  | VList x, VList y | VTuple x, VTuple y => Nat.eqb (length x) (length y) && sub x y
  | VDict x, VDict y => Nat.eqb (length x) (length y) && kv_sub x y
  | _, _ => false
  end.

Definition tbl (l : list (val * val)) (v : val) : option val :=
  (fix go (l : list (val * val)) := match l with [] => None | (a, b) :: r => if val_same a v then Some b else go r end) l.

Definition jcase_ok (b85 keys : list (val * val)) (plain pre back : val) : bool :=
  jsame (jsonify (tbl b85) plain) pre && jsame (json_rt (tbl keys) pre) back && jsonable pre.

(* the JSON converter's loads on what the library returned: the Converter's structure, in an environment whose bytes entries
   were computed with the converter's own bytes hook *)
Definition jload_ok (E : env) (cfg : ccfg) (t : ty) (back x : val) : bool :=
  match structure E cfg FUEL t back with Ok y => val_same y x | _ => false end.

(* ---- the pyyaml preconfigured converter (preconf/pyyaml.py): the plain Converter's unstructured form with frozensets as
   lists (unstruct_collection_overrides {FrozenSetSubscriptable: list}); yaml.safe_dump writes tuples as sequences, so
   safe_load gives lists back; sets (!!set), bytes (!!binary) and scalar mapping keys of every kind survive ---- *)
Fixpoint yamlify (u : val) : val :=
  match u with
  | VFrozenSet l | VList l => VList (map yamlify l)
  | VTuple l => VTuple (map yamlify l)
  | VSet l => VSet (map yamlify l)
  | VDict kvs => VDict (map (fun kv => (yamlify (fst kv), yamlify (snd kv))) kvs)
  | _ => u
  end.
Fixpoint yaml_rt (u : val) : val :=
  match u with
  | VList l | VTuple l => VList (map yaml_rt l)
  | VSet l => VSet (map yaml_rt l)
  | VFrozenSet l => VFrozenSet (map yaml_rt l)
  | VDict kvs => VDict (map (fun kv => (yaml_rt (fst kv), yaml_rt (snd kv))) kvs)
  | _ => u
  end.
(* what yaml.safe_dump represents: None, atoms, lists, tuples, sets, dicts -- no frozenset, enum member or instance *)
Fixpoint yamlable (u : val) : bool :=
  match u with
  | VNone | VAtom _ _ => true
  | VList l | VTuple l | VSet l => forallb yamlable l
  | VDict kvs => forallb (fun kv => yamlable (fst kv) && yamlable (snd kv)) kvs
  | VFrozenSet _ | VEnum _ _ | VInst _ _ => false
  end.
(* comparison up to the order of lists (a frozenset becomes a list in the iteration order of ITS frozenset object, which is
   not the order of the plain converter's fresh one) *)
Fixpoint ysame (a b : val) : bool :=
  let fix sub (x y : list val) : bool :=
    match x with
    | [] => true
    | u :: x' => (fix mem (y' : list val) : bool := match y' with [] => false | w :: r => ysame u w || mem r end) y && sub x' y
    end in
  let fix kv_sub (x y : list (val * val)) : bool :=
    match x with
    | [] => true
    | (k, v) :: x' =>
        (fix look (y' : list (val * val)) : bool :=
           match y' with [] => false | (k2, v2) :: r => (ysame k k2 && ysame v v2) || look r end) y && kv_sub x' y
    end in
  match a, b with
  | VNone, VNone => true
  | VAtom k e, VAtom k' f => prim_eqb k k' && N.eqb e f
  | VList x, VList y | VTuple x, VTuple y | VSet x, VSet y => Nat.eqb (length x) (length y) && sub x y
  | VDict x, VDict y => Nat.eqb (length x) (length y) && kv_sub x y
  | _, _ => false
  end.
Definition ycase_ok (plain pre back : val) : bool :=
  ysame (yamlify plain) pre && ysame (yaml_rt pre) back && yamlable pre.
