(* Disambig.v -- disambiguators.py create_default_dis_func (C12).  A class is its list of
   attributes (final key after renames, has-no-default, init, Literal values); wherever the
   source iterates a Python set, the iteration order is an explicit argument [choose].
   Executable; no proofs. *)
From V.Model Require Import Base.

Record dfield := {
  df_name : N;                 (* the key the attribute has in payloads (after a rename override) *)
  df_required : bool;          (* no default *)
  df_init : bool;
  df_lit : option (list N)     (* Some vs = annotated Literal[vs] *)
}.
Record dclass := { dc_id : N; dc_fields : list dfield }.

Definition names (c : dclass) : list N := map df_name (dc_fields c).

Section Dis.
Variable choose : list N -> list N.   (* iteration order of a set of names: any permutation *)
Variable skip_noninit : bool.         (* only __init__ attributes may discriminate (T1; false = finding F7) *)

Definition usable_key (c : dclass) (n : N) : bool :=
  existsb (fun f => N.eqb (df_name f) n && df_required f && (negb skip_noninit || df_init f)) (dc_fields c).

(* stable sort by number of attributes, descending *)
Fixpoint insert_desc (c : dclass) (l : list dclass) : list dclass :=
  match l with
  | [] => [c]
  | x :: r => if Nat.leb (length (dc_fields x)) (length (dc_fields c)) then c :: l else x :: insert_desc c r
  end.
Definition sort_desc (l : list dclass) : list dclass := fold_right insert_desc [] l.

Fixpoint key_loop (todo all : list dclass) (assigned : list (N * N)) (fb : option N)
  : result (list (N * N) * option N) :=
  match todo with
  | [] => Ok (assigned, fb)
  | cl :: rest =>
      let others := filter (fun c => negb (N.eqb (dc_id c) (dc_id cl)) && negb (mem_N (dc_id c) (map snd assigned))) all in
      let other_names := flat_map names others in
      let uniq := filter (fun n => negb (mem_N n other_names)) (names cl) in
      match find (usable_key cl) (choose uniq) with
      | Some k => key_loop rest all (assigned ++ [(k, dc_id cl)]) fb
      | None => match fb with
                | None => key_loop rest all assigned (Some (dc_id cl))
                | Some _ => Err EType
                end
      end
  end.

(* the unique-required-key disambiguator: first key present in the payload wins *)
Definition dis_keys (assigned : list (N * N)) (fb : option N) (payload_keys : list N) : result N :=
  match find (fun kc => mem_N (fst kc) payload_keys) assigned with
  | Some kc => Ok (snd kc)
  | None => match fb with Some c => Ok c | None => Err EValue end
  end.

(* ---- literal discriminators ---- *)
Definition lit_names (c : dclass) : list N :=
  flat_map (fun f => match df_lit f with Some _ => [df_name f] | None => [] end) (dc_fields c).
Definition lit_values (c : dclass) (n : N) : list N :=
  flat_map (fun f => if N.eqb (df_name f) n then match df_lit f with Some vs => vs | None => [] end else []) (dc_fields c).

(* mapping value -> classes (in class order), keys in first-seen order *)
Fixpoint add_to (m : list (N * list N)) (v c : N) : list (N * list N) :=
  match m with
  | [] => [(v, [c])]
  | (v', cs) :: r => if N.eqb v' v then (v', cs ++ [c]) :: r else (v', cs) :: add_to r v c
  end.
Definition lit_mapping (classes : list dclass) (disc : N) : list (N * list N) :=
  fold_left (fun m c => fold_left (fun m' v => add_to m' v (dc_id c)) (lit_values c disc) m) classes [].
Definition max_bucket (m : list (N * list N)) : nat := fold_right (fun kv acc => Nat.max (length (snd kv)) acc) 0%nat m.

Definition common_lit_names (classes : list dclass) : list N :=
  match classes with
  | [] => []
  | c :: r => filter (fun n => forallb (fun c' => mem_N n (lit_names c')) r) (lit_names c)
  end.

(* iterate the candidate discriminators in the set's order; a later one wins ties (`<=`) *)
Definition best_disc (classes : list dclass) : option (N * list (N * list N)) :=
  fold_left (fun best d =>
               let m := lit_mapping classes d in
               match best with
               | None => Some (d, m)
               | Some (_, bm) => if Nat.leb (max_bucket m) (max_bucket bm) then Some (d, m) else best
               end)
            (choose (common_lit_names classes)) None.

Inductive disf :=
| DLit (disc : N) (mapping : list (N * list N))
| DKeys (assigned : list (N * N)) (fb : option N).

Definition create_dis (use_literals : bool) (classes : list dclass) : result disf :=
  if Nat.ltb (length classes) 2 then Err EValue else
  let lit := if use_literals then
               match best_disc classes with
               | Some (d, m) => if negb (Nat.eqb (max_bucket m) (length classes)) && negb (Nat.eqb (length m) 0) then Some (DLit d m) else None
               | None => None
               end
             else None in
  match lit with
  | Some f => Ok f
  | None => do r <- key_loop (sort_desc classes) (sort_desc classes) [] None; Ok (DKeys (fst r) (snd r))
  end.

(* applying the disambiguator to a mapping payload: its keys, and the value it has under a key *)
Definition dis_apply (f : disf) (payload_keys : list N) (value_of : N -> option N) : result (list N) :=
  match f with
  | DLit d m => match value_of d with
                | None => Err EKey
                | Some v => match assoc m v with Some cs => Ok cs | None => Err EKey end
                end
  | DKeys a fb => do c <- dis_keys a fb payload_keys; Ok [c]
  end.

End Dis.

(* full resolution of a payload to a member class: a literal bucket with several classes is a smaller
   union, disambiguated again (converters.py: self.structure(obj, dis_fn(obj))) *)
Fixpoint resolve (fuel : nat) (choose : list N -> list N) (skip use_lit : bool) (classes : list dclass)
                 (payload_keys : list N) (value_of : N -> option N) : result N :=
  match fuel with
  | O => OutOfFuel
  | S n =>
      do f <- create_dis choose skip use_lit classes;
      do cs <- dis_apply f payload_keys value_of;
      match cs with
      | [c] => Ok c
      | _ => resolve n choose skip use_lit (filter (fun cl => mem_N (dc_id cl) cs) classes) payload_keys value_of
      end
  end.
