(* Dispatch.v -- Core A: the MultiStrategyDispatch state machine of
   src/cattrs/dispatch.py, parametric in a [dcfg] that translator T1 reads off
   the source on every run (coq/Gen/DispatchSrc.v).  Executable; no proofs. *)
From V.Model Require Import Base.

Definition ty := N.   (* a type expression, identified up to Python == / hash *)
Definition cls := N.  (* a class object (element of some __mro__) *)
Definition tag := N.

(* What a lookup returns, symbolically: which registration produced the hook. *)
Inductive hook :=
| HUser (n : tag)                          (* a plain user hook *)
| HMade (f : tag) (t : ty) (conv : bool)   (* user factory f applied to t (conv: it was handed the converter) *)
| HInit (i : nat) (t : ty)                 (* the i-th entry the converter was born with, selected for t *)
| HBase (c : cls)                          (* the hook BaseConverter.__init__ registers for class c *)
| HFallback (f : tag) (t : ty).            (* fallback factory f applied to t *)

Definition hook_eqb (a b : hook) : bool :=
  match a, b with
  | HUser n, HUser m => N.eqb n m
  | HMade f t c, HMade g u d => N.eqb f g && N.eqb t u && Bool.eqb c d
  | HInit i t, HInit j u => Nat.eqb i j && N.eqb t u
  | HBase c, HBase d => N.eqb c d
  | HFallback f t, HFallback g u => N.eqb f g && N.eqb t u
  | _, _ => false
  end.

(* What a factory does to the direct table while producing its hook (the
   gen_* methods of Converter call register_cls_list(direct=True)). *)
Inductive dwrite :=
| WNone                 (* writes nothing *)
| WSelf                 (* direct[t] := the hook it returns *)
| WOther (h : hook).    (* direct[t] := some other hook (a wrapper around gen_*; finding F8) *)

Inductive handler :=
| HdHook (h : hook)
| HdFact (f : tag) (ext : bool) (w : dwrite)
| HdInit (i : nat) (w : dwrite)     (* initial entry: plain hook or factory, yields HInit i t *)
| HdUnionReg.                       (* the `_union_struct_registry.__getitem__` factory *)

Inductive pred :=
| PUser (p : tag)       (* a user predicate; truth table is an oracle *)
| PExact (t : ty)       (* `lambda t: t == cls` / `t is cls` made by register_*_hook for unions / NewTypes *)
| PInit (i : nat)       (* the predicate of initial entry i; truth table is an oracle *)
| PUnionReg.            (* `is_union_type(t) and t in self._union_struct_registry` *)

(* Oracles: Python behaviour that is not cattrs logic. *)
Record world := {
  w_mro : ty -> list cls;              (* t.__mro__; [] when t is not a class (singledispatch raises) *)
  w_user : tag -> ty -> option bool;   (* user predicate truth table; None = it raised *)
  w_init : nat -> ty -> option bool;   (* truth table of the predicates the converter is born with *)
  w_is_union : ty -> bool;
  w_is_newtype : ty -> bool
}.

Inductive eff := EClearDirect | ECacheClear.
Inductive tier := TSingle | TDirect | TFunc.

Record dcfg := {
  insert_front : bool;            (* FunctionDispatch.register: insert(0, ..) vs append *)
  lookup_order : list tier;       (* dispatch_without_caching; the fallback is always last *)
  pred_exc_continues : bool;      (* FunctionDispatch.dispatch: a raising predicate is skipped *)
  cls_reg_each : list eff;        (* register_cls_list, per item, singledispatch branch *)
  cls_reg_direct_each : list eff; (* register_cls_list, per item, direct branch *)
  cls_reg_final : list eff;       (* register_cls_list, after the loop *)
  func_reg_final : list eff;      (* register_func_list, after the loop *)
  clear_cache_effs : list eff;    (* clear_cache *)
  cached : bool;                  (* dispatch = lru_cache(dispatch_without_caching) *)
  copy_drops_suffix : bool;       (* FunctionDispatch.copy_to: self[:-skip] ++ other *)
  copy_copies_single : bool;      (* MultiStrategyDispatch.copy_to copies the singledispatch registry *)
  copy_final : list eff           (* effects applied to the target afterwards *)
}.

Record st := {
  single : list (cls * hook);
  direct : list (ty * hook);
  preds : list (pred * handler);
  cache : list (ty * hook);
  ureg : list (ty * hook);        (* _union_struct_registry (structure direction only) *)
  fallback : tag                  (* which fallback factory the converter was built with *)
}.

Definition set_direct (s : st) d := {| single := single s; direct := d; preds := preds s; cache := cache s; ureg := ureg s; fallback := fallback s |}.
Definition set_cache (s : st) c := {| single := single s; direct := direct s; preds := preds s; cache := c; ureg := ureg s; fallback := fallback s |}.
Definition set_single (s : st) x := {| single := x; direct := direct s; preds := preds s; cache := cache s; ureg := ureg s; fallback := fallback s |}.
Definition set_preds (s : st) x := {| single := single s; direct := direct s; preds := x; cache := cache s; ureg := ureg s; fallback := fallback s |}.
Definition set_ureg (s : st) x := {| single := single s; direct := direct s; preds := preds s; cache := cache s; ureg := x; fallback := fallback s |}.

Definition apply_eff (s : st) (e : eff) : st :=
  match e with
  | EClearDirect => set_direct s []
  | ECacheClear => set_cache s []
  end.
Definition apply_effs (s : st) (l : list eff) : st := fold_left apply_eff l s.

Section Lookup.
Variable W : world.
Variable C : dcfg.

Definition accepts (s : st) (p : pred) (t : ty) : option bool :=
  match p with
  | PUser n => w_user W n t
  | PExact u => Some (N.eqb u t)
  | PInit i => w_init W i t
  | PUnionReg => Some (w_is_union W t && match assoc (ureg s) t with Some _ => true | None => false end)
  end.

(* singledispatch: first class of the MRO that has a registration *)
Definition single_lookup (s : st) (t : ty) : option hook :=
  first_some (assoc (single s)) (w_mro W t).

(* FunctionDispatch.dispatch: the first entry whose predicate answers True *)
Fixpoint func_find (s : st) (l : list (pred * handler)) (t : ty) : option handler :=
  match l with
  | [] => None
  | (p, hd) :: r =>
      match accepts s p t with
      | Some true => Some hd
      | Some false => func_find s r t
      | None => if pred_exc_continues C then func_find s r t else None
      end
  end.

Definition write_direct (s : st) (t : ty) (h : hook) : st :=
  apply_effs (apply_effs (set_direct s ((t, h) :: direct s)) (cls_reg_direct_each C)) (cls_reg_final C).

(* running a handler for type t: the hook it yields and the state afterwards *)
Definition run_handler (s : st) (hd : handler) (t : ty) : option (hook * st) :=
  let wr (h : hook) (w : dwrite) :=
    match w with
    | WNone => s
    | WSelf => write_direct s t h
    | WOther h' => write_direct s t h'
    end in
  match hd with
  | HdHook h => Some (h, s)
  | HdFact f ext w => let h := HMade f t ext in Some (h, wr h w)
  | HdInit i w => let h := HInit i t in Some (h, wr h w)
  | HdUnionReg => match assoc (ureg s) t with Some h => Some (h, s) | None => None end
  end.

Definition run_tier (s : st) (t : ty) (k : tier) : option (hook * st) :=
  match k with
  | TSingle => match single_lookup s t with Some h => Some (h, s) | None => None end
  | TDirect => match assoc (direct s) t with Some h => Some (h, s) | None => None end
  | TFunc => match func_find s (preds s) t with
             | Some hd => run_handler s hd t
             | None => None
             end
  end.

Fixpoint run_tiers (s : st) (t : ty) (l : list tier) : hook * st :=
  match l with
  | [] => (HFallback (fallback s) t, s)
  | k :: r => match run_tier s t k with Some x => x | None => run_tiers s t r end
  end.

(* dispatch_without_caching *)
Definition dispatch_nc (s : st) (t : ty) : hook * st := run_tiers s t (lookup_order C).

(* dispatch (lru_cache'd) *)
Definition dispatch_c (s : st) (t : ty) : hook * st :=
  if cached C then
    match assoc (cache s) t with
    | Some h => (h, s)
    | None => let '(h, s') := dispatch_nc s t in (h, set_cache s' ((t, h) :: cache s'))
    end
  else dispatch_nc s t.

(* registrations *)
Definition reg_cls (s : st) (c : cls) (h : hook) : st :=
  apply_effs (apply_effs (set_single s ((c, h) :: single s)) (cls_reg_each C)) (cls_reg_final C).

Definition reg_func (s : st) (p : pred) (hd : handler) : st :=
  apply_effs (set_preds s (if insert_front C then (p, hd) :: preds s else preds s ++ [(p, hd)]))
             (func_reg_final C).

Inductive op :=
| ORegCls (c : cls) (h : hook)
| ORegFunc (p : pred) (hd : handler)
| ORegUnion (t : ty) (h : hook) (effs : list eff)  (* registry write + the clear the caller performs *)
| OClear
| ODisp (t : ty)
| ODispNC (t : ty).

Definition step (s : st) (o : op) : st :=
  match o with
  | ORegCls c h => reg_cls s c h
  | ORegFunc p hd => reg_func s p hd
  | ORegUnion t h effs => apply_effs (set_ureg s ((t, h) :: ureg s)) effs
  | OClear => apply_effs s (clear_cache_effs C)
  | ODisp t => snd (dispatch_c s t)
  | ODispNC t => snd (dispatch_nc s t)
  end.

Definition run (s : st) (ops : list op) : st := fold_left step ops s.

Definition is_reg (o : op) : bool :=
  match o with ODisp _ | ODispNC _ | OClear => false | _ => true end.

(* copy_to: what the target dispatcher looks like after self.copy_to(other, skip) *)
Definition copy_to (s other : st) (skip : nat) : st :=
  let n := length (preds s) in
  (* Python: self._handler_pairs[:-skip]; note l[:-0] is the empty list *)
  let kept := if copy_drops_suffix C
              then (match skip with O => [] | _ => firstn (n - skip) (preds s) end)
              else preds s in
  let o1 := set_preds other (kept ++ preds other) in
  let o2 := if copy_copies_single C then set_single o1 (single s ++ single o1) else o1 in
  apply_effs o2 (copy_final C).

End Lookup.

Definition init_st (ps : list (pred * handler)) (sg : list (cls * hook)) (fb : tag) : st :=
  {| single := sg; direct := []; preds := ps; cache := []; ureg := []; fallback := fb |}.
