(* SubUnion.v -- strategies/_subclasses.py include_subclasses WITH a union strategy (configure_tagged_union), C14:
   the two-pass registration.  First pass: every configured class gets its own exact-class hooks.  Then ONE unstructure
   hook -- the tagged union over ALL configured classes -- is registered for every class, and every class with more than
   one configured class at or below it gets the structure hook of the tagged union over exactly those classes, whose
   member hooks are the first-pass hooks (ancestors are processed first, so that the union of a class captures the
   first-pass hooks of its descendants: flag [anc_first]; nothing at all is configured when no class counts as having
   subclasses: flag [transitive] says whether descendants or only direct children count).  Both flags are read off the
   source by translator T1.  The model says WHICH class's first-pass hook receives WHICH dict.  Executable; no proofs. *)
From V.Model Require Import Base Tagged.

Section SubUnion.
Variable V : Type.
Variable veq : V -> V -> bool.
Variable classes : list N.            (* (cl, *subclasses) in the order given *)
Variable is_desc : N -> N -> bool.    (* is_desc x k: x is k or a descendant of k *)
Variable is_child : N -> N -> bool.   (* is_child x k: x is a direct subclass of k *)
Variable tag : N -> V.
Variable tag_name : N.
Variable forbid : bool.
Variable fields : N -> list N.        (* attribute names of a class (inherited ones included) *)
Variable transitive : bool.           (* _has_subclasses counts descendants (true) / direct children only (false) *)
Variable anc_first : bool.            (* second pass goes ancestors first *)

Definition has_subclasses (c : N) : bool :=
  existsb (fun d => negb (N.eqb d c) && (if transitive then is_desc d c else is_child d c)) classes.
Definition configured : bool := existsb has_subclasses classes.

Definition sub_members (k : N) : list N := filter (fun c => is_desc c k) classes.

Definition tcfg_of (ms : list N) : tcfg V :=
  {| tg_members := ms; tg_tag := tag; tg_name := tag_name; tg_default := None; tg_forbid := forbid |}.

(* the plain hook of class k on an instance whose own dict is [own]: only k's attributes *)
Definition plain_un (k : N) (own : list (N * V)) : list (N * V) := filter (fun kv => mem_N (fst kv) (fields k)) own.

(* converter.unstructure(x, unstructure_as=k), x an instance of class xc with own dict [own] *)
Definition un_sub (k xc : N) (own : list (N * V)) : result (list (N * V)) :=
  if configured && mem_N k classes then unstructure_tagged V (tcfg_of classes) xc own
  else Ok (plain_un k own).

(* converter.structure(payload, k): (class whose first-pass hook runs, the dict it receives) *)
Definition st_sub (k : N) (payload : list (N * V)) : result (N * list (N * V)) :=
  if configured && mem_N k classes && Nat.ltb 1 (length (sub_members k)) then
    if anc_first then structure_tagged V veq (tcfg_of (sub_members k)) payload
    else Err EOther                   (* leaves-first registration: not modelled (finding F31, repaired) *)
  else Ok (k, payload).

End SubUnion.
