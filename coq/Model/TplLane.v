(* TplLane.v -- executable glue for the TPL correspondence lane: the class-level
   templates instantiated at V := N with the tagging handlers the harness
   registers on the real converter.  No proofs. *)
From V.Model Require Import Base Templates TdTemplates.

(* handler of attribute n: small values pass and are tagged, large ones are rejected *)
Definition hsN (n : N) (v : N) : result N :=
  if N.ltb v 50 then Ok (1000 * (n + 1) + v)%N else Err EValue.
Definition hsId (n : N) (v : N) : result N := Ok v.
(* unstructure handlers never fail *)
Definition husN (n : N) (v : N) : result N := Ok (v + 7)%N.
(* field converter *)
Definition KN (n : N) (v : N) : result N := Ok (v + 500000)%N.

Inductive payload :=
| PDict (d : list (N * N))
| PJunk (ins : list (N * result bool)) (gets : list (N * result N)) (ks : result (list N))
        (it : result (list N)) (is_map : bool) (cp : result (option (list (N * N)))).

Definition get_or {B} (l : list (N * B)) (k : N) (d : B) : B :=
  match assoc l k with Some v => v | None => d end.

Definition obj_of (p : payload) : pobj N :=
  match p with
  | PDict d => {| o_in := fun k => Ok (mem_N k (keys d));
                  o_get := fun k => match assoc d k with Some v => Ok v | None => Err EKey end;
                  o_keys := Ok (keys d);
                  o_iter := Err EOther; o_is_mapping := true; o_copy := Ok (Some d) |}
  | PJunk ins gets ks it m cp =>
      {| o_in := fun k => get_or ins k (Err EOther);
         o_get := fun k => get_or gets k (Err EOther);
         o_keys := ks; o_iter := it; o_is_mapping := m; o_copy := cp |}
  end.

Inductive tmode := MDetailed | MFast | MInterpDict | MInterpTuple.
Inductive umode := UGen | UInterpDict | UInterpTuple.

(* coarse class of an exception, as far as the lane compares it *)
Inductive eclass := CForbidden (extra : list N) | CClassVal | CSyntax | COther.

Definition eclass_of (e : errkind) : eclass :=
  match e with
  | EForbidden _ x => CForbidden x
  | EClassVal _ _ => CClassVal
  | ESyntax => CSyntax
  | _ => COther
  end.

Inductive outcome := XOk (i : list (N * N)) | XTuple (l : list N) | XErr (c : eclass) | XFuel
| XJunk    (* a copy of a non-dict payload was returned *)
| XSame.   (* the very object passed in was returned *)

Definition ovmap (l : list (N * fov)) (n : N) : fov := get_or l n neutral.

(* [unsafe]: keys whose text cannot be spliced between single quotes ('it''s', a backslash): the
   generated source does not compile (finding F3) *)
Definition splice_fails (unsafe : list N) (opt : topts) (ovs : list (N * fov)) (fs : list (field N)) : bool :=
  existsb (fun f => included N opt (ovmap ovs) f && mem_N (key_of N opt (ovmap ovs) f) unsafe) fs.

Definition run_struct (unsafe : list N) (recheck kw_last by_kw : bool) (m : tmode) (opt : topts) (ovs : list (N * fov)) (typed : list N)
                      (fs : list (field N)) (p : payload) : outcome :=
  (* attributes listed in [typed] go through the tagging handler; the others are passed through raw *)
  let hs := fun n v => if mem_N n typed then hsN n v else hsId n v in
  let gen_fails := match m with MDetailed | MFast => splice_fails unsafe opt ovs fs | _ => false end in
  if gen_fails then XErr CSyntax else
  let r := match m with
           | MDetailed => tpl_detailed N KN opt (ovmap ovs) hs recheck fs (obj_of p)
           | MFast => tpl_fast N KN opt (ovmap ovs) hs kw_last fs (obj_of p)
           | MInterpDict => tpl_interp_dict N KN hs fs (obj_of p)
           | MInterpTuple => tpl_interp_tuple N KN hs by_kw fs (obj_of p)
           end in
  match r with Ok i => XOk i | Err e => XErr (eclass_of e) | OutOfFuel => XFuel end.

Definition run_unstruct (unsafe : list N) (m : umode) (opt : topts) (ovs : list (N * fov)) (typed : list N)
                        (fs : list (field N)) (i : list (N * N)) : outcome :=
  let hs := fun n v => if mem_N n typed then husN n v else Ok v in
  if (match m with UGen => splice_fails unsafe opt ovs fs | _ => false end) then XErr CSyntax else
  match m with
  | UGen => match un_gen N N.eqb opt (ovmap ovs) hs fs i with Ok d => XOk d | Err e => XErr (eclass_of e) | OutOfFuel => XFuel end
  | UInterpDict => match un_interp_dict N hs fs i with Ok d => XOk d | Err e => XErr (eclass_of e) | OutOfFuel => XFuel end
  | UInterpTuple => match un_interp_tuple N hs fs i with Ok d => XTuple d | Err e => XErr (eclass_of e) | OutOfFuel => XFuel end
  end.

Fixpoint list_eqb {A} (eqb : A -> A -> bool) (a b : list A) : bool :=
  match a, b with
  | [], [] => true
  | x :: a', y :: b' => eqb x y && list_eqb eqb a' b'
  | _, _ => false
  end.

Definition pair_eqb (a b : N * N) : bool := N.eqb (fst a) (fst b) && N.eqb (snd a) (snd b).

(* instances / dicts are compared as finite maps (Python == on dicts ignores order) *)
Definition map_sub (a b : list (N * N)) : bool :=
  forallb (fun kv => match assoc b (fst kv) with Some v => N.eqb v (snd kv) | None => false end) a.
Definition map_eqb (a b : list (N * N)) : bool := map_sub a b && map_sub b a && Nat.eqb (length a) (length b).

Definition set_eqb (a b : list N) : bool := forallb (fun x => mem_N x b) a && forallb (fun x => mem_N x a) b.

Definition outcome_eqb (a b : outcome) : bool :=
  match a, b with
  | XOk x, XOk y => map_eqb x y
  | XTuple x, XTuple y => list_eqb N.eqb x y
  | XErr (CForbidden x), XErr (CForbidden y) => set_eqb x y
  | XErr CClassVal, XErr CClassVal | XErr CSyntax, XErr CSyntax | XErr COther, XErr COther => true
  | XJunk, XJunk | XSame, XSame => true
  | _, _ => false
  end.

(* acceptance only (used where a property does not speak about the error class) *)
Definition same_accept (a b : outcome) : bool :=
  match a, b with
  | XOk x, XOk y => map_eqb x y
  | XTuple x, XTuple y => list_eqb N.eqb x y
  | XErr _, XErr _ => true
  | _, _ => false
  end.

Definition td_outcome (r : result (option (list (N * N)))) : outcome :=
  match r with Ok (Some d) => XOk d | Ok None => XJunk | Err e => XErr (eclass_of e) | OutOfFuel => XFuel end.

Definition td_splice_fails (unsafe : list N) (ovs : list (N * fov)) (fs : list tdfield) : bool :=
  existsb (fun f => td_included (ovmap ovs) f && mem_N (td_key (ovmap ovs) f) unsafe) fs.

Definition run_td_struct (unsafe : list N) (detailed : bool) (opt : tdopts) (ovs : list (N * fov)) (typed : list N)
                         (fs : list tdfield) (p : payload) : outcome :=
  if td_splice_fails unsafe ovs fs then XErr CSyntax else
  let hs := fun n v => if mem_N n typed then hsN n v else hsId n v in
  td_outcome (if detailed then td_detailed N opt (ovmap ovs) hs fs (obj_of p) else td_fast N opt (ovmap ovs) hs fs (obj_of p)).

Definition run_td_unstruct (unsafe : list N) (opt : tdopts) (ovs : list (N * fov)) (typed : list N)
                           (fs : list tdfield) (i : list (N * N)) : outcome :=
  if existsb (fun f => mem_N (td_key (ovmap ovs) f) unsafe || mem_N (d_name f) unsafe) fs then XErr CSyntax else
  let hs := fun n v => husN n v in
  match td_unstruct N (ovmap ovs) hs (fun n => negb (mem_N n typed)) fs i with
  | Ok (Some d) => XOk d | Ok None => XSame | Err e => XErr (eclass_of e) | OutOfFuel => XFuel end.

Inductive tcase :=
| TTd (detailed : bool) (opt : tdopts) (ovs : list (N * fov)) (typed : list N) (fs : list tdfield) (p : payload) (expect : outcome)
| TTdUn (opt : tdopts) (ovs : list (N * fov)) (typed : list N) (fs : list tdfield) (i : list (N * N)) (expect : outcome)
| TStruct (m : tmode) (opt : topts) (ovs : list (N * fov)) (typed : list N) (fs : list (field N)) (p : payload) (expect : outcome)
| TUnstruct (m : umode) (opt : topts) (ovs : list (N * fov)) (typed : list N) (fs : list (field N)) (i : list (N * N)) (expect : outcome).

Definition tcase_ok (unsafe : list N) (recheck kw_last by_kw : bool) (c : tcase) : bool :=
  match c with
  | TStruct m opt ovs typed fs p x => outcome_eqb (run_struct unsafe recheck kw_last by_kw m opt ovs typed fs p) x
  | TUnstruct m opt ovs typed fs i x => outcome_eqb (run_unstruct unsafe m opt ovs typed fs i) x
  | TTd dv opt ovs typed fs p x => outcome_eqb (run_td_struct unsafe dv opt ovs typed fs p) x
  | TTdUn opt ovs typed fs i x => outcome_eqb (run_td_unstruct unsafe opt ovs typed fs i) x
  end.

Definition tcase_model (unsafe : list N) (recheck kw_last by_kw : bool) (c : tcase) : outcome :=
  match c with
  | TStruct m opt ovs typed fs p _ => run_struct unsafe recheck kw_last by_kw m opt ovs typed fs p
  | TUnstruct m opt ovs typed fs i _ => run_unstruct unsafe m opt ovs typed fs i
  | TTd dv opt ovs typed fs p _ => run_td_struct unsafe dv opt ovs typed fs p
  | TTdUn opt ovs typed fs i _ => run_td_unstruct unsafe opt ovs typed fs i
  end.

Fixpoint bad_tcases (unsafe : list N) (recheck kw_last by_kw : bool) (k : nat) (cs : list tcase) : list nat :=
  match cs with
  | [] => []
  | c :: r => if tcase_ok unsafe recheck kw_last by_kw c then bad_tcases unsafe recheck kw_last by_kw (S k) r
              else k :: bad_tcases unsafe recheck kw_last by_kw (S k) r
  end.
