(* ConvSpec.v -- the specification layer of the nested universe: what "a value conforming to T at
   every depth" (C02), "a value of T" for the round trip (C01) and "primitive data" (C03) mean.
   Definitions only; no proofs. *)
From V.Model Require Import Base Templates Conv.

Section Spec.
Variable E : env.

Definition field_ty (cd : cdef) (n : N) : ty :=
  match assoc (cd_types cd) n with Some t => t | None => TAny end.

(* ---- C02: v conforms to t at every depth: exact classes everywhere, every element / key / value /
   attribute conforming to its declared type, literals within their value set (Python `in`), tuples of
   exact arity.  Any-typed positions accept anything. *)
Inductive conforms : val -> ty -> Prop :=
| CAny v : conforms v TAny
| CPrim p e : conforms (VAtom p e) (TPrim p)
| CEnum en i : conforms (VEnum en i) (TEnum en)
| CLit v vs : vmem v vs = true -> conforms v (TLit vs)
| CList l t : Forall (fun x => conforms x t) l -> conforms (VList l) (TList t)
| CTupleHom l t : Forall (fun x => conforms x t) l -> conforms (VTuple l) (TTupleHom t)
| CTuple l ts : Forall2 conforms l ts -> conforms (VTuple l) (TTuple ts)
| CSet l t : Forall (fun x => conforms x t) l -> conforms (VSet l) (TSet t)
| CFrozenSet l t : Forall (fun x => conforms x t) l -> conforms (VFrozenSet l) (TFrozenSet t)
| CDict kvs kt vt : Forall (fun kv => conforms (fst kv) kt /\ conforms (snd kv) vt) kvs -> conforms (VDict kvs) (TDict kt vt)
| COptNone t : conforms VNone (TOpt t)
| COptSome v t : conforms v t -> conforms v (TOpt t)
| CClass c cd i : e_class E c = Some cd ->
    (* every attribute the instance has is an attribute of the class and conforms to its declared type *)
    (forall n v, assoc i n = Some v -> In n (map f_name (cd_fields cd)) /\ conforms v (field_ty cd n)) ->
    conforms (VInst c i) (TClass c)
| CNewType n t v : conforms v t -> conforms v (TNewType n t)
| CAnnot t v : conforms v t -> conforms v (TAnnot t).

(* ---- C03: primitive data *)
Fixpoint primitive (v : val) : bool :=
  match v with
  | VNone | VAtom _ _ => true
  | VEnum _ _ | VInst _ _ => false
  | VList l | VTuple l | VSet l | VFrozenSet l => forallb primitive l
  | VDict kvs => forallb (fun kv => primitive (fst kv) && primitive (snd kv)) kvs
  end.

End Spec.
