(* ConvSpec.v -- the specification layer of the nested universe: what "a value conforming to T at
   every depth" (C02), "a value of T" for the round trip (C01) and "primitive data" (C03) mean.
   Definitions only; no proofs. *)
From V.Model Require Import Base Templates Conv.

Section Spec.
Variable E : env.

Definition field_ty (cd : cdef) (n : N) : ty :=
  match assoc (cd_types cd) n with Some t => t | None => TAny end.

(* ---- C02: v conforms to t at every depth: exact classes everywhere, every element / key / value /
   attribute conforming to its declared type, literals within their value set (Python `in`), tuples of
   exact arity.  Any-typed positions accept anything. *)
Inductive conforms : val -> ty -> Prop :=
| CAny v : conforms v TAny
| CPrim p e : conforms (VAtom p e) (TPrim p)
| CEnum en i : conforms (VEnum en i) (TEnum en)
| CLit v vs : vmem v vs = true -> conforms v (TLit vs)
| CList l t : Forall (fun x => conforms x t) l -> conforms (VList l) (TList t)
| CTupleHom l t : Forall (fun x => conforms x t) l -> conforms (VTuple l) (TTupleHom t)
| CTuple l ts : Forall2 conforms l ts -> conforms (VTuple l) (TTuple ts)
| CSet l t : Forall (fun x => conforms x t) l -> conforms (VSet l) (TSet t)
| CFrozenSet l t : Forall (fun x => conforms x t) l -> conforms (VFrozenSet l) (TFrozenSet t)
| CDict kvs kt vt : Forall (fun kv => conforms (fst kv) kt /\ conforms (snd kv) vt) kvs -> conforms (VDict kvs) (TDict kt vt)
| COptNone t : conforms VNone (TOpt t)
| COptSome v t : conforms v t -> conforms v (TOpt t)
| CClass c cd i : e_class E c = Some cd ->
    (* every attribute the instance has is an attribute of the class and conforms to its declared type *)
    (forall n v, assoc i n = Some v -> In n (map f_name (cd_fields cd)) /\ conforms v (field_ty cd n)) ->
    conforms (VInst c i) (TClass c)
| CNewType n t v : conforms v t -> conforms v (TNewType n t)
| CAnnot t v : conforms v t -> conforms v (TAnnot t).

(* ---- C01: x is a value of t that the round trip is documented for.
   Exact classes everywhere; Any-typed and untyped positions hold None or atoms (a structured value there
   is unstructured by its runtime class and cannot come back); set elements and mapping keys are of
   hashable leaf types and the containers are what Python would have built (elements / keys hashable
   and pairwise not ==); enum members are identified by atomic, pairwise distinct values; instances have
   every attribute set.  [ann]: may Annotated[...] occur (BaseConverter has no structure hook for it). *)
Variable ann : bool.
Definition atomic (v : val) : bool := match v with VNone | VAtom _ _ => true | _ => false end.

Fixpoint key_ty (t : ty) : bool :=
  match t with
  | TPrim _ | TEnum _ | TLit _ => true
  | TNewType _ t' | TAnnot t' => key_ty t'
  | _ => false
  end.

Definition set_like (l : list val) : Prop := set_of_list [] l = Ok l.
Definition dict_like (kvs : list (val * val)) : Prop := dict_of_pairs [] kvs = Ok kvs.

Inductive rt_value : val -> ty -> Prop :=
| RAny v : atomic v = true -> rt_value v TAny
| RPrim p e : rt_value (VAtom p e) (TPrim p)
| REnum en i k e : nth_error (e_enum E en) (N.to_nat i) = Some (VAtom k e) ->
                   find_member (e_enum E en) (VAtom k e) = Some i -> rt_value (VEnum en i) (TEnum en)
| RLit v vs : vmem v vs = true -> atomic v = true -> rt_value v (TLit vs)
| RList l t : Forall (fun x => rt_value x t) l -> rt_value (VList l) (TList t)
| RTupleHom l t : Forall (fun x => rt_value x t) l -> rt_value (VTuple l) (TTupleHom t)
| RTuple l ts : Forall2 rt_value l ts -> rt_value (VTuple l) (TTuple ts)
| RSet l t : key_ty t = true -> Forall (fun x => rt_value x t) l -> set_like l -> rt_value (VSet l) (TSet t)
| RFrozenSet l t : key_ty t = true -> Forall (fun x => rt_value x t) l -> set_like l -> rt_value (VFrozenSet l) (TFrozenSet t)
| RDict kvs kt vt : key_ty kt = true -> Forall (fun kv => rt_value (fst kv) kt /\ rt_value (snd kv) vt) kvs -> dict_like kvs ->
                    rt_value (VDict kvs) (TDict kt vt)
| ROptNone t : rt_value VNone (TOpt t)
| ROptSome v t : rt_value v t -> rt_value v (TOpt t)
| RClass c cd i : e_class E c = Some cd -> map fst i = map f_name (cd_fields cd) ->
                  Forall (fun nv => rt_value (snd nv) (field_ty cd (fst nv))) i -> rt_value (VInst c i) (TClass c)
| RNewType n t v : rt_value v t -> rt_value v (TNewType n t)
| RAnnot t v : ann = true -> rt_value v t -> rt_value v (TAnnot t).

(* ---- C03: x is a value of t whose unstructured form is claimed to be primitive: exact container kinds as
   in [conforms], instances of classes of the environment at every depth -- also at Any-typed positions,
   where the value is looked at through its runtime class -- and literal values that are primitives. *)
Fixpoint primitive (v : val) : bool :=
  match v with
  | VNone | VAtom _ _ => true
  | VEnum _ _ | VInst _ _ => false
  | VList l | VTuple l | VSet l | VFrozenSet l => forallb primitive l
  | VDict kvs => forallb (fun kv => primitive (fst kv) && primitive (snd kv)) kvs
  end.

Inductive uval : val -> ty -> Prop :=
| UAnyNone : uval VNone TAny
| UAny v : v <> VNone -> uval v (rt_type v) -> uval v TAny
| UPrim p e : uval (VAtom p e) (TPrim p)
| UEnum en i : uval (VEnum en i) (TEnum en)
| ULit v vs : primitive v = true -> uval v (TLit vs)
| UList l t : Forall (fun x => uval x t) l -> uval (VList l) (TList t)
| UTupleHom l t : Forall (fun x => uval x t) l -> uval (VTuple l) (TTupleHom t)
| UTuple l ts : Forall2 uval l ts -> uval (VTuple l) (TTuple ts)
| USet l t : Forall (fun x => uval x t) l -> uval (VSet l) (TSet t)
| UFrozenSet l t : Forall (fun x => uval x t) l -> uval (VFrozenSet l) (TFrozenSet t)
| UDict kvs kt vt : Forall (fun kv => uval (fst kv) kt /\ uval (snd kv) vt) kvs -> uval (VDict kvs) (TDict kt vt)
| UOptNone t : uval VNone (TOpt t)
| UOptSome v t : uval v t -> uval v (TOpt t)
| UClass c cd i : e_class E c = Some cd ->
    (forall n v, assoc i n = Some v -> uval v (field_ty cd n)) -> uval (VInst c i) (TClass c)
| UNewType n t v : uval v t -> uval v (TNewType n t)
| UAnnot t v : uval v t -> uval v (TAnnot t).

End Spec.
