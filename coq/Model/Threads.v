(* Threads.v -- concurrent first use of classes on one shared converter (C19): the part that is
   logic, i.e. the `already_generating` working set of the hook generators and the shared hook cache.
   Threads are stack machines; a schedule is a list of thread ids; one step = one field resolved,
   one generator entered or one generator finished.  Executable; no proofs. *)
From V.Model Require Import Base.

Definition cls := N.

Record thread := {
  stack : list (cls * list (cls * bool) * bool);   (* generators in progress: (class, field references still to resolve, entered through the lru cache?) *)
  ws : list cls;                   (* this thread's working set (used when the scope is thread-local) *)
  todo : list cls;                 (* top-level requests: structure(x, c) calls still to make *)
  finished : list cls;             (* completed top-level requests *)
  failed : bool                    (* a RecursionError reached the top level *)
}.

Record sys := {
  threads : list thread;
  cache : list cls;                (* classes whose hook is in the shared lru cache *)
  shared_ws : list cls             (* the working set when it is NOT thread-local *)
}.

Section Sem.
Variable fields : cls -> list (cls * bool).   (* the classes a class's fields refer to; true = looked up through the caching dispatch
                                               (list/mapping factories), false = get_structure_hook(cache_result=False) *)
Variable thread_local : bool.        (* `already_generating = threading.local()` -- read off the source by T1 *)
Variable catches : bool.             (* every attribute hook lookup of the generators sits under `except RecursionError` (or goes through
                                        find_structure_handler, which does): the cycle signal becomes late binding -- read off the source by T1 *)

Fixpoint remove_cls (c : cls) (l : list cls) : list cls :=
  match l with [] => [] | x :: r => if N.eqb x c then r else x :: remove_cls c r end.

Definition eff_ws (s : sys) (t : thread) : list cls := if thread_local then ws t else shared_ws s.

Definition set_thread (s : sys) (i : nat) (t : thread) (cache' shared' : list cls) : sys :=
  {| threads := firstn i (threads s) ++ [t] ++ skipn (S i) (threads s); cache := cache'; shared_ws := shared' |}.

(* the cycle signal is NOT caught at the lookup: it unwinds every generator in progress on this thread (each `finally` removes its class) *)
Definition unwind_ws (st : list (cls * list (cls * bool) * bool)) (w : list cls) : list cls :=
  fold_left (fun w fr => remove_cls (fst (fst fr)) w) st w.

Definition enter (s : sys) (i : nat) (t : thread) (c : cls) (cached : bool) (stack' : list (cls * list (cls * bool) * bool)) (todo' : list cls) : sys :=
  set_thread s i {| stack := (c, fields c, cached) :: stack'; ws := if thread_local then c :: ws t else ws t;
                    todo := todo'; finished := finished t; failed := failed t |}
             (cache s) (if thread_local then shared_ws s else c :: shared_ws s).

(* one step of thread i *)
Definition step (s : sys) (i : nat) : sys :=
  match nth_error (threads s) i with
  | None => s
  | Some t =>
      if failed t then s else
      match stack t with
      | [] =>
          match todo t with
          | [] => s
          | c :: rest =>
              if mem_N c (cache s) then
                set_thread s i {| stack := []; ws := ws t; todo := rest; finished := finished t ++ [c]; failed := false |} (cache s) (shared_ws s)
              else if mem_N c (eff_ws s t) then
                (* make_dict_structure_fn: `if cl in working_set: raise RecursionError()` with nobody to catch it *)
                set_thread s i {| stack := []; ws := ws t; todo := rest; finished := finished t; failed := true |} (cache s) (shared_ws s)
              else enter s i t c true [] (c :: rest)
          end
      | (c, [], cached) :: below =>
          (* generator of c finished: working_set.remove(c); a result obtained through dispatch() is cached *)
          let t' := {| stack := below; ws := if thread_local then remove_cls c (ws t) else ws t;
                       todo := match below with [] => tl (todo t) | _ => todo t end;
                       finished := match below with [] => finished t ++ [c] | _ => finished t end;
                       failed := false |} in
          set_thread s i t' (if cached then c :: cache s else cache s)
                     (if thread_local then shared_ws s else remove_cls c (shared_ws s))
      | (c, (d, dc) :: ds, cached) :: below =>
          (* find_structure_handler for a field of class d *)
          if (dc && mem_N d (cache s)) || (catches && mem_N d (eff_ws s t)) then   (* only the caching lookup consults the lru cache *)
            (* cached hook, or RecursionError caught -> late binding: either way the field is resolved *)
            set_thread s i {| stack := (c, ds, cached) :: below; ws := ws t; todo := todo t; finished := finished t; failed := false |}
                       (cache s) (shared_ws s)
          else if mem_N d (eff_ws s t) then
            (* RecursionError with no handler at this lookup: it reaches the caller of structure() *)
            set_thread s i {| stack := []; ws := if thread_local then unwind_ws (stack t) (ws t) else ws t;
                              todo := tl (todo t); finished := finished t; failed := true |}
                       (cache s) (if thread_local then shared_ws s else unwind_ws (stack t) (shared_ws s))
          else enter s i t d dc ((c, ds, cached) :: below) (todo t)
      end
  end.

Definition run (s : sys) (sched : list nat) : sys := fold_left step sched s.

Definition fresh_thread (reqs : list cls) : thread := {| stack := []; ws := []; todo := reqs; finished := []; failed := false |}.
Definition init (reqs : list (list cls)) : sys := {| threads := map fresh_thread reqs; cache := []; shared_ws := [] |}.

Definition any_failed (s : sys) : bool := existsb failed (threads s).

End Sem.

(* ---- macro steps for the THR lane: class 0 is the marker type whose hook factory parks the thread ---- *)
Section Macro.
Variable fields : cls -> list (cls * bool).
Variable thread_local : bool.
Variable catches : bool.

Definition at_yield (s : sys) (i : nat) : bool :=
  match nth_error (threads s) i with
  | Some t => match stack t with (_, (0%N, _) :: _, _) :: _ => true | _ => false end
  | None => false
  end.
Definition idle (s : sys) (i : nat) : bool :=
  match nth_error (threads s) i with
  | Some t => failed t || match stack t, todo t with [], [] => true | _, _ => false end
  | None => true
  end.

Fixpoint until_yield (fuel : nat) (s : sys) (i : nat) : sys :=
  match fuel with
  | O => s
  | S n => if at_yield s i || idle s i then s else until_yield n (step fields thread_local catches s i) i
  end.

(* release thread i from the marker field it is parked at (entering and leaving the marker's
   "generator" takes two steps), then let it run to its next parking point or to completion *)
Definition mstep (s : sys) (i : nat) : sys :=
  let s1 := if at_yield s i then step fields thread_local catches (step fields thread_local catches s i) i else s in
  until_yield 200 (if at_yield s i then s1 else step fields thread_local catches s i) i.

Definition mrun (s : sys) (sched : list nat) : sys := fold_left mstep sched s.

(* per thread: (failed, finished requests) *)
Definition observe (s : sys) : list (bool * list cls) := map (fun t => (failed t, finished t)) (threads s).
End Macro.
