(* DispLane.v -- executable glue for the DISP correspondence lane: sessions of
   several converters (copy), canonical observations, and the case checker that
   the generated cases files evaluate with vm_compute.  No proofs. *)
From V.Model Require Import Base Dispatch Routing.

(* what the harness can observe about a hook *)
Inductive xhook :=
| XUser (n : tag) | XMade (f : tag) (t : ty) (conv : bool) | XBuiltin | XFallback (f : tag) (t : ty).

Definition canon (h : hook) : xhook :=
  match h with
  | HUser n => XUser n
  | HMade f t c => XMade f t c
  | HInit _ _ | HBase _ => XBuiltin
  | HFallback 0%N _ => XBuiltin            (* fallback id 0 = the converter's default fallback factory *)
  | HFallback f t => XFallback f t
  end.

Definition xhook_eqb (a b : xhook) : bool :=
  match a, b with
  | XUser n, XUser m => N.eqb n m
  | XMade f t c, XMade g u d => N.eqb f g && N.eqb t u && Bool.eqb c d
  | XBuiltin, XBuiltin => true
  | XFallback f t, XFallback g u => N.eqb f g && N.eqb t u
  | _, _ => false
  end.

(* world from finite tables; entries absent from a table are never queried by
   the cases the harness writes (it emits complete tables for its pools) *)
Definition tbl_get {B} (l : list (N * B)) (k : N) (dflt : B) : B :=
  match assoc l k with Some v => v | None => dflt end.

Definition mk_world (mro : list (N * list N))
                    (user : list (N * list (N * option bool)))
                    (init_un init_st : list (N * list (N * option bool)))
                    (unions newtypes : list N) (d : dir) : world := {|
  w_mro := fun t => tbl_get mro t [];
  w_user := fun p t => tbl_get (tbl_get user p []) t (Some false);
  w_init := fun i t => tbl_get (tbl_get (match d with DUn => init_un | DSt => init_st end) (N.of_nat i) []) t (Some false);
  w_is_union := fun t => mem_N t unions;
  w_is_newtype := fun t => mem_N t newtypes |}.

(* sessions: several converters, created by construction or copy *)
Inductive sop :=
| SNew (full : bool) (o : optmap)
| SOp (i : nat) (u : uop)
| SCopy (i : nat) (ov : optmap)
| SProbe (i : nat) (d : dir) (t : ty) (use_cache : bool) (x : xhook)   (* a lookup whose answer the harness observed *)
| SProbeD (i : nat) (d : dir) (t : ty) (use_cache : bool) (x : xhook)  (* same, for a NewType/Annotated/Final/alias t whose
                                                                          hook IS the hook object of its underlying type: either x
                                                                          was chosen for t directly or a born-with entry delegated *)
| SOpts (i : nat) (o : optmap).                                        (* the option values the harness read off converter i *)

Section Sess.
Variable Wf : dir -> world.   (* the init truth tables differ per direction *)
Variable C : dcfg.
Variable S : csrc.

(* a converter's two dispatchers consult different born-with tables; run each
   public operation against the dispatcher it touches with that direction's world *)
Definition ustep2 (c : conv) (u : uop) : conv :=
  with_st (with_un c (run (Wf DUn) C (c_un c) (dop (Wf DUn) S DUn u)))
          (run (Wf DSt) C (c_st c) (dop (Wf DSt) S DSt u)).

Definition build2 (full : bool) (o : optmap) : conv :=
  let a := build (Wf DUn) C S full o in
  let b := build (Wf DSt) C S full o in
  with_st a (c_st b).

Definition copy2 (c : conv) (ov : optmap) : conv :=
  let a := copy_conv (Wf DUn) C S c ov in
  let b := copy_conv (Wf DSt) C S c ov in
  with_st a (c_st b).

Definition sstep (cs : list conv) (o : sop) : list conv :=
  match o with
  | SNew full opts => cs ++ [build2 full opts]
  | SOp i u => match nth_error cs i with
               | Some c => firstn i cs ++ [ustep2 c u] ++ skipn (Datatypes.S i) cs
               | None => cs
               end
  | SCopy i ov => match nth_error cs i with
                  | Some c => cs ++ [copy2 c ov]
                  | None => cs
                  end
  | SProbe i d t uc _ | SProbeD i d t uc _ => match nth_error cs i with
               | Some c => firstn i cs ++ [ustep2 c (UGet d t uc)] ++ skipn (Datatypes.S i) cs
               | None => cs
               end
  | SOpts _ _ => cs
  end.

Definition lookup_of (c : conv) (d : dir) (t : ty) (uc : bool) : hook :=
  let s := match d with DUn => c_un c | DSt => c_st c end in
  if uc then fst (dispatch_c (Wf d) C s t) else fst (dispatch_nc (Wf d) C s t).

Definition optmap_sub (a b : optmap) : bool :=
  forallb (fun ov => N.eqb (opt_val b (fst ov)) (snd ov)) a.

(* does step o agree with the model in state cs? *)
Definition agrees (cs : list conv) (o : sop) : bool :=
  match o with
  | SProbe i d t uc x => match nth_error cs i with
                         | Some c => xhook_eqb x (canon (lookup_of c d t uc))
                         | None => false
                         end
  | SProbeD i d t uc x => match nth_error cs i with
                         | Some c => let m := canon (lookup_of c d t uc) in xhook_eqb x m || xhook_eqb XBuiltin m
                         | None => false
                         end
  | SOpts i o => match nth_error cs i with
                 | Some c => optmap_sub o (c_opts c)
                 | None => false
                 end
  | _ => true
  end.

(* a case = a list of steps; result = positions of the steps that disagree *)
Fixpoint mismatches (cs : list conv) (k : nat) (ops : list sop) : list nat :=
  match ops with
  | [] => []
  | o :: r =>
      let rest := mismatches (sstep cs o) (Datatypes.S k) r in
      if agrees cs o then rest else k :: rest
  end.

Definition check_case (c : list sop) : list nat := mismatches [] 0 c.

(* the model's own answers at every probe step (for replay files) *)
Fixpoint answers (cs : list conv) (ops : list sop) : list (option xhook) :=
  match ops with
  | [] => []
  | o :: r =>
      let here := match o with
                  | SProbe i d t uc _ | SProbeD i d t uc _ => match nth_error cs i with
                                         | Some c => [Some (canon (lookup_of c d t uc))]
                                         | None => [None] end
                  | _ => [] end in
      here ++ answers (sstep cs o) r
  end.

Fixpoint bad_cases (k : nat) (cs : list (list sop)) : list (nat * list nat) :=
  match cs with
  | [] => []
  | c :: r => match check_case c with
              | [] => bad_cases (Datatypes.S k) r
              | l => (k, l) :: bad_cases (Datatypes.S k) r
              end
  end.
End Sess.
