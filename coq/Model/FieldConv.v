(* FieldConv.v -- how an attrs field-level converter composes with structure hooks (C20):
   gen/_shared.py find_structure_handler (generation time, Converter) and
   converters.py _structure_attribute (call time, BaseConverter).  Executable; no proofs. *)
From V.Model Require Import Base.

(* what is known about the attribute's declared type *)
Inductive tkind :=
| TUntyped                 (* no type annotation *)
| TFound                   (* get_structure_hook(T) returns a hook that handles the value *)
| TNotFound                (* get_structure_hook(T) raises StructureHandlerNotFoundError *)
| TLazyNotFound            (* a hook is found, but calling it raises StructureHandlerNotFoundError
                              (a container hook that dispatches on its element type when called) *)
| TRecursive.              (* T is a class whose hook is being generated right now (a reference cycle):
                              get_structure_hook raises RecursionError, answered by late binding *)

(* the value the attribute ends up with, symbolically *)
Inductive fval :=
| VRaw                     (* the raw payload value *)
| VHook                    (* T's structure hook applied to the raw value *)
| VK (v : fval)            (* the field converter applied (by __init__) *)
| VFail.                   (* structuring (or hook generation) raises *)

Definition wrapK (has_conv : bool) (v : fval) : fval :=
  match v with VFail => VFail | _ => if has_conv then VK v else v end.

(* Converter: the handler is chosen when the class hook is generated *)
Definition gen_field (has_conv prefer : bool) (t : tkind) : fval :=
  wrapK has_conv
    (if has_conv && prefer then VRaw
     else if has_conv then
       match t with
       | TUntyped => VRaw            (* falls to `c.structure` on type None: identity *)
       | TFound | TRecursive => VHook
       | TNotFound => VRaw
       | TLazyNotFound => VFail      (* the hook was found; its failure at call time is not caught *)
       end
     else
       match t with
       | TUntyped => VRaw
       | TFound | TRecursive => VHook
       | TNotFound => VFail          (* generation fails *)
       | TLazyNotFound => VFail
       end).

(* BaseConverter: decided on every call *)
Definition interp_field (has_conv prefer : bool) (t : tkind) : fval :=
  wrapK has_conv
    (if prefer && has_conv then VRaw
     else
       match t with
       | TUntyped => VRaw
       | TFound | TRecursive => VHook
       | TNotFound | TLazyNotFound => if has_conv then VRaw else VFail   (* catches the error raised by the call too *)
       end).

(* the documented rule *)
Definition doc_field (has_conv prefer : bool) (hook_exists : option bool) : fval :=
  (* hook_exists: None = no type, Some b = can a hook be found for T *)
  if has_conv then
    if prefer then VK VRaw
    else match hook_exists with Some true => VK VHook | _ => VK VRaw end
  else match hook_exists with None => VRaw | Some true => VHook | Some false => VFail end.

Definition hook_exists_of (t : tkind) : option bool :=
  match t with TUntyped => None | TFound | TRecursive => Some true | TNotFound | TLazyNotFound => Some false end.

Definition fval_eqb (a b : fval) : bool :=
  match a, b with
  | VRaw, VRaw | VHook, VHook | VFail, VFail => true
  | VK VRaw, VK VRaw | VK VHook, VK VHook => true
  | _, _ => false
  end.
