(* Conv.v -- Core B, nested: structure / unstructure of Converter and BaseConverter over type
   expressions and values, fuel-indexed (OutOfFuel is not a Python error and is excluded by every
   theorem).  Class positions use the class templates of Templates.v with the recursive calls as
   per-attribute handlers.  Detailed validation builds the full exception tree (every failing
   element / attribute, with its note).  Executable; no proofs. *)
From V.Model Require Import Base Templates.

Inductive prim := PInt | PFloat | PStr | PBytes | PBool.

(* a value: atoms carry their exact class k and an equality-class id e (1, True, 1.0 share e) *)
Inductive val :=
| VNone
| VAtom (k : prim) (e : N)
| VEnum (en i : N)            (* member i of enum en *)
| VList (l : list val) | VTuple (l : list val)
| VSet (l : list val) | VFrozenSet (l : list val)    (* elements in iteration order, pairwise not == *)
| VDict (kvs : list (val * val))                     (* insertion order, keys pairwise not == *)
| VInst (c : N) (fs : list (N * val)).

Inductive ty :=
| TAny
| TPrim (p : prim)
| TEnum (e : N)
| TLit (vs : list val)        (* Literal[...] of None / bool / int / str / bytes values *)
| TList (t : ty)              (* list / List / Sequence / MutableSequence *)
| TTupleHom (t : ty)          (* tuple[T, ...] *)
| TTuple (ts : list ty)       (* tuple[A, B, C] *)
| TSet (t : ty) | TFrozenSet (t : ty)
| TDict (k v : ty)
| TOpt (t : ty)
| TClass (c : N)
| TNewType (n : N) (t : ty)
| TAnnot (t : ty).

Definition prim_eqb (a b : prim) : bool :=
  match a, b with PInt, PInt | PFloat, PFloat | PStr, PStr | PBytes, PBytes | PBool, PBool => true | _, _ => false end.
Definition prim_rank (p : prim) : N := match p with PBool => 1 | PInt => 2 | PFloat => 3 | PStr => 4 | PBytes => 5 end.

(* Python == *)
Fixpoint val_eqb (a b : val) : bool :=
  let fix list_eqb (x y : list val) : bool :=
    match x, y with [] , [] => true | u :: x', w :: y' => val_eqb u w && list_eqb x' y' | _, _ => false end in
  let fix sub (x y : list val) : bool :=
    match x with
    | [] => true
    | u :: x' => (fix mem (y' : list val) : bool := match y' with [] => false | w :: r => val_eqb u w || mem r end) y && sub x' y
    end in
  let fix kv_sub (x y : list (val * val)) : bool :=
    match x with
    | [] => true
    | (k, v) :: x' =>
        (fix look (y' : list (val * val)) : bool :=
           match y' with [] => false | (k2, v2) :: r => (val_eqb k k2 && val_eqb v v2) || look r end) y && kv_sub x' y
    end in
  let fix fs_eqb (x y : list (N * val)) : bool :=
    match x, y with [], [] => true | (n, u) :: x', (m, w) :: y' => N.eqb n m && val_eqb u w && fs_eqb x' y' | _, _ => false end in
  match a, b with
  | VNone, VNone => true
  | VAtom _ e, VAtom _ f => N.eqb e f
  | VEnum en i, VEnum em j => N.eqb en em && N.eqb i j
  | VList x, VList y | VTuple x, VTuple y => list_eqb x y
  | VSet x, VSet y | VFrozenSet x, VFrozenSet y | VSet x, VFrozenSet y | VFrozenSet x, VSet y =>
      Nat.eqb (length x) (length y) && sub x y
  | VDict x, VDict y => Nat.eqb (length x) (length y) && kv_sub x y
  | VInst c x, VInst d y => N.eqb c d && fs_eqb x y
  | _, _ => false
  end.

(* hash(v) works *)
Fixpoint hashable (v : val) : bool :=
  match v with
  | VNone | VAtom _ _ | VEnum _ _ => true
  | VTuple l => forallb hashable l
  | VFrozenSet _ => true
  | VList _ | VSet _ | VDict _ => false
  | VInst c fs =>                           (* attrs classes / dataclasses with eq=True hash only when frozen; *)
      N.leb 100 c &&                        (* class ids from 100 up denote the frozen classes of the environment *)
      (fix all (l : list (N * val)) : bool := match l with [] => true | (_, v) :: r => hashable v && all r end) fs
  end.

Definition vmem (v : val) (l : list val) : bool := existsb (val_eqb v) l.

(* s.add(v) *)
Definition set_add (l : list val) (v : val) : result (list val) :=
  if negb (hashable v) then Err EType else Ok (if vmem v l then l else l ++ [v]).

Fixpoint set_of_list (acc : list val) (l : list val) : result (list val) :=
  match l with [] => Ok acc | v :: r => do acc' <- set_add acc v; set_of_list acc' r end.

(* d[k] = v with Python key equality: overwrite in place keeping the first key object, else append *)
Fixpoint vdict_set (d : list (val * val)) (k v : val) : list (val * val) :=
  match d with
  | [] => [(k, v)]
  | (k', v') :: r => if val_eqb k' k then (k', v) :: r else (k', v') :: vdict_set r k v
  end.
Definition dict_put (d : list (val * val)) (k v : val) : result (list (val * val)) :=
  if negb (hashable k) then Err EType else Ok (vdict_set d k v).
Fixpoint dict_of_pairs (acc : list (val * val)) (l : list (val * val)) : result (list (val * val)) :=
  match l with [] => Ok acc | (k, v) :: r => do acc' <- dict_put acc k v; dict_of_pairs acc' r end.

Fixpoint vassoc (d : list (val * val)) (k : val) : option val :=
  match d with [] => None | (k', v) :: r => if val_eqb k' k then Some v else vassoc r k end.

Fixpoint map_res {A B} (f : A -> result B) (l : list A) : result (list B) :=
  match l with
  | [] => Ok []
  | x :: r => do y <- f x; do ys <- map_res f r; Ok (y :: ys)
  end.

Record cdef := {
  cd_fields : list (field val);
  cd_types : list (N * ty)       (* attribute name -> declared type; absent = untyped *)
}.

Record env := {
  e_class : N -> option cdef;
  e_enum : N -> list val;                    (* the member values of enum en, in definition order *)
  e_coerce : prim -> val -> result val;      (* int(x), float(x), str(x), bytes(x), bool(x): an oracle *)
  e_in : val -> N -> result bool;            (* 'k' in v for non-container values (str: substring test) *)
  e_iter : val -> result (list val);         (* iter(v) for non-container values (str: characters) *)
  e_len : val -> result nat                  (* len(v) for non-container values *)
}.

Record ccfg := { c_gen : bool;      (* Converter (generated class hooks) vs BaseConverter *)
                 c_dv : bool;       (* detailed_validation *)
                 c_tuple : bool;    (* unstruct_strat = AS_TUPLE *)
                 c_forbid : bool;   (* Converter(forbid_extra_keys=...) *)
                 c_recheck : bool; c_kw_last : bool; c_tuple_kw : bool   (* template flags from T1 *) }.

(* the note of a failing element: its index, or the key it was filed under *)
Definition key_note (k : val) : N :=
  match k with
  | VNone => 0
  | VAtom p e => 8 * e + prim_rank p
  | VEnum en i => 8 * (1000 * (en + 1) + i) + 6
  | _ => 7
  end%N.

Section Conv.
Variable E : env.
Variable cfg : ccfg.

Definition skey (k : N) : val := VAtom PStr k.     (* attribute names are interned strings (ids >= 1) *)
Definition key_id (k : val) : N := match k with VAtom PStr e => e | _ => 0%N end.
Definition nkeys (kvs : list (val * val)) : list (N * val) := map (fun kv => (key_id (fst kv), snd kv)) kvs.

Definition iter_val (o : val) : result (list val) :=
  match o with
  | VList l | VTuple l | VSet l | VFrozenSet l => Ok l
  | VDict kvs => Ok (map fst kvs)
  | VInst _ _ | VNone | VEnum _ _ => Err EType
  | VAtom _ _ => e_iter E o
  end.

Definition len_val (o : val) : result nat :=
  match o with
  | VList l | VTuple l | VSet l | VFrozenSet l => Ok (length l)
  | VDict kvs => Ok (length kvs)
  | VInst _ _ | VNone | VEnum _ _ => Err EType
  | VAtom _ _ => e_len E o
  end.

(* o.items() *)
Definition items_val (o : val) : result (list (val * val)) :=
  match o with VDict kvs => Ok kvs | _ => Err EAttr end.

(* dict(o) *)
Definition pair_of (e : val) : result (val * val) :=
  do l <- iter_val e;
  match l with [k; v] => Ok (k, v) | _ => Err EValue end.
Definition dict_val (o : val) : result val :=
  match o with
  | VDict kvs => Ok (VDict kvs)
  | _ => do l <- iter_val o; do ps <- map_res pair_of l; do d <- dict_of_pairs [] ps; Ok (VDict d)
  end.

(* a payload value seen through the operations the class hooks perform on it *)
Definition obj_of_val (o : val) : pobj val :=
  match o with
  | VDict kvs => dict_obj (nkeys kvs)
  | VList l | VTuple l | VSet l | VFrozenSet l =>
      {| o_in := fun k => Ok (vmem (skey k) l);
         o_get := fun _ => Err EType;
         o_keys := Err EAttr; o_iter := Ok l; o_is_mapping := false; o_copy := Err EOther |}
  | VInst _ _ | VNone | VEnum _ _ =>
      {| o_in := fun _ => Err EType; o_get := fun _ => Err EType; o_keys := Err EAttr; o_iter := Err EType;
         o_is_mapping := false; o_copy := Err EOther |}
  | VAtom _ _ =>
      {| o_in := fun k => e_in E o k; o_get := fun _ => Err EType; o_keys := Err EAttr; o_iter := e_iter E o;
         o_is_mapping := false; o_copy := Err EOther |}
  end.
(* the same object for the tuple template, which iterates it (a dict yields its keys) *)
Definition seq_obj_of_val (o : val) : pobj val :=
  {| o_in := fun _ => Err EOther; o_get := fun _ => Err EOther; o_keys := Err EOther;
     o_iter := iter_val o; o_is_mapping := false; o_copy := Err EOther |}.

Definition noK (n : N) (v : val) : result val := Ok v.       (* the nested universe has no field converters *)
Definition topt (c : N) : topts :=
  {| t_cl := c; t_forbid := c_forbid cfg; t_use_alias := false; t_incl_init_false := false; t_omit_if_default := false |}.
Definition nov (n : N) : fov := neutral.

Definition find_member (members : list val) (x : val) : option N :=
  (fix go (l : list val) (i : N) : option N :=
     match l with [] => None | m :: r => if val_eqb m x then Some i else go r (N.succ i) end) members 0%N.

(* the element loop of a collection hook.
   fast mode: a comprehension, the first exception propagates;
   detailed mode: every element is tried, failures are collected with the element's index. *)
Fixpoint coll_fast (f : val -> result val) (l : list val) : result (list val) :=
  match l with
  | [] => Ok []
  | x :: r => do y <- f x; do ys <- coll_fast f r; Ok (y :: ys)
  end.

Fixpoint coll_det (f : val -> result val) (l : list val) (ix : N) (acc : list val) (errs : list (option N * errkind))
  : result (list val * list (option N * errkind)) :=
  match l with
  | [] => Ok (acc, errs)
  | x :: r =>
      match f x with
      | Ok y => coll_det f r (N.succ ix) (acc ++ [y]) errs
      | Err e => coll_det f r (N.succ ix) acc (errs ++ [(Some ix, e)])
      | OutOfFuel => OutOfFuel
      end
  end.

Definition coll (f : val -> result val) (l : list val) : result (list val) :=
  if c_dv cfg then
    do re <- coll_det f l 0%N [] [];
    match snd re with [] => Ok (fst re) | errs => Err (EIterVal errs) end
  else coll_fast f l.

(* sets in detailed mode: res.add(handler(e)) sits inside the try *)
Fixpoint set_det (f : val -> result val) (l : list val) (ix : N) (acc : list val) (errs : list (option N * errkind))
  : result (list val * list (option N * errkind)) :=
  match l with
  | [] => Ok (acc, errs)
  | x :: r =>
      match (do y <- f x; set_add acc y) with
      | Ok acc' => set_det f r (N.succ ix) acc' errs
      | Err e => set_det f r (N.succ ix) acc (errs ++ [(Some ix, e)])
      | OutOfFuel => OutOfFuel
      end
  end.

Definition set_coll (f : val -> result val) (l : list val) : result (list val) :=
  if c_dv cfg then
    do re <- set_det f l 0%N [] [];
    match snd re with [] => Ok (fst re) | errs => Err (EIterVal errs) end
  else do ys <- coll_fast f l; set_of_list [] ys.

(* heterogeneous tuples: zip(types, elements) *)
Fixpoint zip_fast (f : ty -> val -> result val) (ts : list ty) (l : list val) : result (list val) :=
  match ts, l with
  | t :: ts', x :: l' => do y <- f t x; do ys <- zip_fast f ts' l'; Ok (y :: ys)
  | _, _ => Ok []
  end.
Fixpoint zip_det (f : ty -> val -> result val) (ts : list ty) (l : list val) (ix : N) (acc : list val) (errs : list (option N * errkind))
  : result (list val * list (option N * errkind)) :=
  match ts, l with
  | t :: ts', x :: l' =>
      match f t x with
      | Ok y => zip_det f ts' l' (N.succ ix) (acc ++ [y]) errs
      | Err e => zip_det f ts' l' (N.succ ix) acc (errs ++ [(Some ix, e)])
      | OutOfFuel => OutOfFuel
      end
  | _, _ => Ok (acc, errs)
  end.

(* mappings.  detailed: value first, then key and the assignment, each in its own try, note = the key;
   fast: a dict comprehension (key, then value, then the insertion) *)
Fixpoint map_det (fk fv : val -> result val) (kvs : list (val * val)) (acc : list (val * val)) (errs : list (option N * errkind))
  : result (list (val * val) * list (option N * errkind)) :=
  match kvs with
  | [] => Ok (acc, errs)
  | (k, v) :: r =>
      match fv v with
      | OutOfFuel => OutOfFuel
      | Err e => map_det fk fv r acc (errs ++ [(Some (key_note k), e)])
      | Ok v' =>
          match (do k' <- fk k; dict_put acc k' v') with
          | OutOfFuel => OutOfFuel
          | Err e => map_det fk fv r acc (errs ++ [(Some (key_note k), e)])
          | Ok acc' => map_det fk fv r acc' errs
          end
      end
  end.
Fixpoint map_fast (fk fv : val -> result val) (kvs : list (val * val)) (acc : list (val * val)) : result (list (val * val)) :=
  match kvs with
  | [] => Ok acc
  | (k, v) :: r => do k' <- fk k; do v' <- fv v; do acc' <- dict_put acc k' v'; map_fast fk fv r acc'
  end.
Definition map_coll (fk fv : val -> result val) (kvs : list (val * val)) : result (list (val * val)) :=
  if c_dv cfg then
    do re <- map_det fk fv kvs [] [];
    match snd re with [] => Ok (fst re) | errs => Err (EIterVal errs) end
  else map_fast fk fv kvs [].

Definition nonstr_key (o : val) : bool :=
  match o with VDict kvs => existsb (fun kv => match fst kv with VAtom PStr _ => false | _ => true end) kvs | _ => false end.

Definition is_any (t : ty) : bool := match t with TAny => true | _ => false end.

Fixpoint structure (n : nat) (t : ty) (o : val) : result val :=
  match n with
  | O => OutOfFuel
  | S n' =>
      match t with
      | TAny => Ok o
      | TPrim p => e_coerce E p o
      | TEnum en =>
          match o with
          | VEnum en' _ => if N.eqb en' en then Ok o else Err EValue      (* EnumCls(member) is the member *)
          | _ => match find_member (e_enum E en) o with Some i => Ok (VEnum en i) | None => Err EValue end
          end
      | TLit vs => if vmem o vs then Ok o else Err EOther
      | TList t' =>
          do l <- iter_val o;
          if is_any t' then Ok (VList l) else do r <- coll (structure n' t') l; Ok (VList r)
      | TTupleHom t' =>
          do l <- iter_val o;
          if is_any t' then Ok (VTuple l) else do r <- coll (structure n' t') l; Ok (VTuple r)
      | TTuple ts =>
          if c_dv cfg then
            do l <- iter_val o;
            do re <- zip_det (structure n') ts l 0%N [] [];
            do len <- len_val o;
            let errs := if Nat.eqb len (length ts) then snd re else snd re ++ [(None, EValue)] in
            match errs with [] => Ok (VTuple (fst re)) | _ => Err (EIterVal errs) end
          else
            do len <- len_val o;
            if negb (Nat.eqb len (length ts)) then Err EValue
            else do l <- iter_val o; do r <- zip_fast (structure n') ts l; Ok (VTuple r)
      | TSet t' =>
          do l <- iter_val o;
          if is_any t' then do s <- set_of_list [] l; Ok (VSet s) else do s <- set_coll (structure n' t') l; Ok (VSet s)
      | TFrozenSet t' =>
          do l <- iter_val o;
          if is_any t' then do s <- set_of_list [] l; Ok (VFrozenSet s) else do s <- set_coll (structure n' t') l; Ok (VFrozenSet s)
      | TDict kt vt =>
          if is_any kt && is_any vt then dict_val o
          else do kvs <- items_val o; do d <- map_coll (structure n' kt) (structure n' vt) kvs; Ok (VDict d)
      | TOpt t' => match o with VNone => Ok VNone | _ => structure n' t' o end
      | TNewType _ t' => structure n' t' o
      | TAnnot t' => if c_gen cfg then structure n' t' o else Err ENotFound    (* BaseConverter has no hook for Annotated *)
      | TClass c =>
          match e_class E c with
          | None => Err ENotFound
          | Some cd =>
              let hs := fun fname v => match assoc (cd_types cd) fname with Some ft => structure n' ft v | None => Ok v end in
              let r :=
                if c_tuple cfg then tpl_interp_tuple val noK hs (c_tuple_kw cfg) (cd_fields cd) (seq_obj_of_val o)
                else if c_gen cfg then
                  if c_dv cfg then tpl_detailed val noK (topt c) nov hs (c_recheck cfg) (cd_fields cd) (obj_of_val o)
                  else tpl_fast val noK (topt c) nov hs (c_kw_last cfg) (cd_fields cd) (obj_of_val o)
                else tpl_interp_dict val noK hs (cd_fields cd) (obj_of_val o) in
              (* ForbiddenExtraKeysError joins the extra keys into its message: a key that is not a str
                 makes the constructor itself raise TypeError, whatever else was collected *)
              let r' := if c_forbid cfg && c_gen cfg && negb (c_tuple cfg) && nonstr_key o then
                          match r with Err (EForbidden _ _) | Err (EClassVal _ _) => Err EType | _ => r end
                        else r in
              do i <- r'; Ok (VInst c i)
          end
      end
  end.

(* ---- unstructure ---- *)
Definition member_value (en i : N) : result val :=
  match nth_error (e_enum E en) (N.to_nat i) with Some v => Ok v | None => Err EAttr end.

Definition inst_fields (x : val) : option (list (N * val)) := match x with VInst _ fs => Some fs | _ => None end.

(* the hook chosen for obj.__class__ *)
Definition rt_type (x : val) : ty :=
  match x with
  | VNone => TAny
  | VAtom k _ => TPrim k
  | VEnum en _ => TEnum en
  | VList _ => TList TAny
  | VTuple _ => TTupleHom TAny
  | VSet _ => TSet TAny
  | VFrozenSet _ => TFrozenSet TAny
  | VDict _ => TDict TAny TAny
  | VInst c _ => TClass c
  end.

(* seq.__class__(...) *)
Definition same_class (x : val) (l : list val) : result val :=
  match x with
  | VList _ => Ok (VList l)
  | VTuple _ => Ok (VTuple l)
  | VSet _ => do s <- set_of_list [] l; Ok (VSet s)
  | VFrozenSet _ => do s <- set_of_list [] l; Ok (VFrozenSet s)
  | _ => Err EOther
  end.

Definition un_pairs (fk fv : val -> result val) (kvs : list (val * val)) : result (list (val * val)) :=
  do ps <- map_res (fun kv => do k <- fk (fst kv); do v <- fv (snd kv); Ok (k, v)) kvs;
  dict_of_pairs [] ps.

Fixpoint unstructure (n : nat) (t : ty) (x : val) : result val :=
  match n with
  | O => OutOfFuel
  | S n' =>
      let by_class := fun y => match y with VNone => Ok VNone | _ => unstructure n' (rt_type y) y end in
      let class_case := fun c =>
        match e_class E c, inst_fields x with
        | Some cd, Some fs =>
            let hs := fun fname v => match assoc (cd_types cd) fname with Some ft => unstructure n' ft v | None => by_class v end in
            if c_tuple cfg then do l <- un_interp_tuple val hs (cd_fields cd) fs; Ok (VTuple l)
            else if c_gen cfg then
              do d <- un_gen val val_eqb (topt c) nov hs (cd_fields cd) fs;
              Ok (VDict (map (fun kv => (skey (fst kv), snd kv)) d))
            else
              do d <- un_interp_dict val hs (cd_fields cd) fs;
              Ok (VDict (map (fun kv => (skey (fst kv), snd kv)) d))
        | None, _ => Ok x                          (* not an attrs class: the fallback returns the value unchanged *)
        | _, None => Err EAttr
        end in
      if c_gen cfg then
        match t with
        | TAny => by_class x
        | TPrim _ => Ok x                                    (* identity, whatever x is *)
        | TLit _ => Ok x
        | TEnum _ => match x with VEnum en i => member_value en i | _ => Err EAttr end
        | TList t' | TTupleHom t' => do l <- iter_val x; do r <- map_res (unstructure n' t') l; Ok (VList r)
        | TTuple ts =>
            match x with
            | VTuple l | VList l =>
                if Nat.ltb (length l) (length ts) then Err EOther        (* IndexError *)
                else do r <- zip_fast (unstructure n') ts l; Ok (VTuple r)  (* extra elements are ignored *)
            | _ => Err EType
            end
        | TSet t' => do l <- iter_val x; do r <- map_res (unstructure n' t') l; do s <- set_of_list [] r; Ok (VSet s)
        | TFrozenSet t' => do l <- iter_val x; do r <- map_res (unstructure n' t') l; do s <- set_of_list [] r; Ok (VFrozenSet s)
        | TDict kt vt =>
            do kvs <- items_val x; do d <- un_pairs (unstructure n' kt) (unstructure n' vt) kvs; Ok (VDict d)
        | TOpt t' => match x with VNone => Ok VNone | _ => unstructure n' t' x end
        | TNewType _ t' => unstructure n' t' x
        | TAnnot t' => unstructure n' t' x
        | TClass c => class_case c
        end
      else
        (* BaseConverter: collections keep their class and go by the runtime class of their elements;
           classes go attribute by attribute, by declared type *)
        match t with
        | TClass c => class_case c
        | TEnum _ => match x with VEnum en i => member_value en i | _ => Err EAttr end
        | TPrim _ | TLit _ => Ok x
        | TNewType _ _ | TAnnot _ => Ok x      (* no born-with hook: the fallback returns the value unchanged *)
        | TOpt _ | TAny => by_class x             (* is_union_type / Any: runtime class *)
        | TTuple _ => Ok x                        (* is_sequence does not accept heterogeneous tuples: the fallback, unchanged *)
        | TList _ | TTupleHom _ | TSet _ | TFrozenSet _ =>
            do l <- iter_val x; do r <- map_res by_class l; same_class x r
        | TDict _ _ => do kvs <- items_val x; do d <- un_pairs by_class by_class kvs; Ok (VDict d)
        end
  end.

End Conv.
