(* Conv.v -- Core B, nested: structure / unstructure of Converter and BaseConverter over type
   expressions and values, fuel-indexed (OutOfFuel is not a Python error and is excluded by every
   theorem).  Class positions use the class templates of Templates.v with the recursive calls as
   per-attribute handlers.  Executable; no proofs. *)
From V.Model Require Import Base Templates.

Inductive prim := PInt | PFloat | PStr | PBytes | PBool.

Inductive ty :=
| TAny
| TPrim (p : prim)
| TEnum (e : N)
| TList (t : ty)              (* list / List / Sequence / MutableSequence *)
| TTupleHom (t : ty)          (* tuple[T, ...] *)
| TTuple (ts : list ty)       (* tuple[A, B, C] *)
| TSet (t : ty) | TFrozenSet (t : ty)
| TDict (k v : ty)
| TOpt (t : ty)
| TClass (c : N)
| TNewType (n : N) (t : ty)
| TAnnot (t : ty).

(* a value: atoms carry their exact class k and an equality-class id e (1, True, 1.0 share e) *)
Inductive val :=
| VNone
| VAtom (k : prim) (e : N)
| VEnum (en i : N)            (* member i of enum en *)
| VList (l : list val) | VTuple (l : list val)
| VSet (l : list val) | VFrozenSet (l : list val)    (* kept duplicate-free in canonical order *)
| VDict (kvs : list (val * val))
| VInst (c : N) (fs : list (N * val)).

Definition prim_eqb (a b : prim) : bool :=
  match a, b with PInt, PInt | PFloat, PFloat | PStr, PStr | PBytes, PBytes | PBool, PBool => true | _, _ => false end.
Definition prim_rank (p : prim) : N := match p with PBool => 1 | PInt => 2 | PFloat => 3 | PStr => 4 | PBytes => 5 end.

(* Python == *)
Fixpoint val_eqb (a b : val) : bool :=
  let fix list_eqb (x y : list val) : bool :=
    match x, y with [], [] => true | u :: x', w :: y' => val_eqb u w && list_eqb x' y' | _, _ => false end in
  let fix kv_sub (x y : list (val * val)) : bool :=
    match x with
    | [] => true
    | (k, v) :: x' =>
        (fix look (y' : list (val * val)) : bool :=
           match y' with [] => false | (k2, v2) :: r => (val_eqb k k2 && val_eqb v v2) || look r end) y && kv_sub x' y
    end in
  let fix fs_eqb (x y : list (N * val)) : bool :=
    match x, y with [], [] => true | (n, u) :: x', (m, w) :: y' => N.eqb n m && val_eqb u w && fs_eqb x' y' | _, _ => false end in
  match a, b with
  | VNone, VNone => true
  | VAtom _ e, VAtom _ f => N.eqb e f
  | VEnum en i, VEnum em j => N.eqb en em && N.eqb i j
  | VList x, VList y | VTuple x, VTuple y => list_eqb x y
  | VSet x, VSet y | VFrozenSet x, VFrozenSet y | VSet x, VFrozenSet y | VFrozenSet x, VSet y => list_eqb x y
  | VDict x, VDict y => Nat.eqb (length x) (length y) && kv_sub x y
  | VInst c x, VInst d y => N.eqb c d && fs_eqb x y
  | _, _ => false
  end.

(* canonical order of set elements: atoms and enum members by (class rank, equality id) *)
Definition val_key (v : val) : N * N :=
  match v with
  | VNone => (0, 0) | VAtom k e => (prim_rank k, e) | VEnum en i => (6 + en, i) | _ => (1000, 0)
  end%N.
Definition key_ltb (a b : N * N) : bool := N.ltb (fst a) (fst b) || (N.eqb (fst a) (fst b) && N.ltb (snd a) (snd b)).
Fixpoint set_insert (v : val) (l : list val) : list val :=
  match l with
  | [] => [v]
  | x :: r => if val_eqb x v then l else if key_ltb (val_key v) (val_key x) then v :: l else x :: set_insert v r
  end.
Definition canon_set (l : list val) : list val := fold_left (fun acc v => set_insert v acc) l [].

(* d[k] = v with Python key equality *)
Fixpoint vdict_set (d : list (val * val)) (k v : val) : list (val * val) :=
  match d with
  | [] => [(k, v)]
  | (k', v') :: r => if val_eqb k' k then (k', v) :: r else (k', v') :: vdict_set r k v
  end.

Fixpoint map_res {A B} (f : A -> result B) (l : list A) : result (list B) :=
  match l with
  | [] => Ok []
  | x :: r => do y <- f x; do ys <- map_res f r; Ok (y :: ys)
  end.

Record cdef := {
  cd_fields : list (field val);
  cd_types : list (N * ty)       (* attribute name -> declared type; absent = untyped *)
}.

Record env := {
  e_class : N -> option cdef;
  e_enum : N -> list val;                    (* the member values of enum en, in definition order *)
  e_coerce : prim -> val -> result val;      (* int(x), float(x), str(x), bytes(x), bool(x): an oracle *)
  e_in : val -> N -> result bool;            (* 'k' in v for non-container values (str: substring test) *)
  e_iter : val -> result (list val);         (* iter(v) for non-container values (str: characters) *)
  e_len : val -> result nat                  (* len(v) for non-container values *)
}.

Record ccfg := { c_gen : bool;      (* Converter (generated class hooks) vs BaseConverter *)
                 c_dv : bool;       (* detailed_validation *)
                 c_forbid : bool;   (* Converter(forbid_extra_keys=...) *)
                 c_recheck : bool; c_kw_last : bool   (* template flags from T1 *) }.

Section Conv.
Variable E : env.
Variable cfg : ccfg.

Definition skey (k : N) : val := VAtom PStr k.     (* attribute names are interned strings *)

Definition iter_val (o : val) : result (list val) :=
  match o with
  | VList l | VTuple l | VSet l | VFrozenSet l => Ok l
  | VDict kvs => Ok (map fst kvs)
  | VInst _ _ => Err EType
  | _ => e_iter E o
  end.

Definition len_val (o : val) : result nat :=
  match o with
  | VList l | VTuple l | VSet l | VFrozenSet l => Ok (length l)
  | VDict kvs => Ok (length kvs)
  | VInst _ _ => Err EType
  | _ => e_len E o
  end.

Fixpoint vassoc (d : list (val * val)) (k : val) : option val :=
  match d with [] => None | (k', v) :: r => if val_eqb k' k then Some v else vassoc r k end.

Definition key_id (k : val) : N := match k with VAtom PStr e => e | _ => 0%N end.

(* a payload value seen through the operations the class hooks perform on it *)
Definition obj_of_val (o : val) : pobj val :=
  match o with
  | VDict kvs =>
      {| o_in := fun k => Ok (match vassoc kvs (skey k) with Some _ => true | None => false end);
         o_get := fun k => match vassoc kvs (skey k) with Some v => Ok v | None => Err EKey end;
         o_keys := Ok (map (fun kv => key_id (fst kv)) kvs);
         o_iter := Ok (map fst kvs);
         o_is_mapping := true;
         o_copy := Err EOther |}
  | VList l | VTuple l | VSet l | VFrozenSet l =>
      {| o_in := fun k => Ok (existsb (val_eqb (skey k)) l);
         o_get := fun _ => Err EType;
         o_keys := Err EAttr; o_iter := Ok l; o_is_mapping := false; o_copy := Err EOther |}
  | VInst _ _ =>
      {| o_in := fun _ => Err EType; o_get := fun _ => Err EType; o_keys := Err EAttr; o_iter := Err EType;
         o_is_mapping := false; o_copy := Err EOther |}
  | _ =>
      {| o_in := fun k => e_in E o k; o_get := fun _ => Err EType; o_keys := Err EAttr; o_iter := e_iter E o;
         o_is_mapping := false; o_copy := Err EOther |}
  end.

Definition noK (n : N) (v : val) : result val := Ok v.       (* the nested universe has no field converters *)
Definition topt (c : N) : topts :=
  {| t_cl := c; t_forbid := c_forbid cfg; t_use_alias := false; t_incl_init_false := false; t_omit_if_default := false |}.
Definition nov (n : N) : fov := neutral.

Definition find_member (members : list val) (x : val) : option N :=
  (fix go (l : list val) (i : N) : option N :=
     match l with [] => None | m :: r => if val_eqb m x then Some i else go r (N.succ i) end) members 0%N.

Definition wrap_iter (r : result (list val)) : result (list val) :=
  match r with Err e => if c_dv cfg then Err (EIterVal [(None, e)]) else Err e | _ => r end.

Fixpoint zip_res (f : ty -> val -> result val) (ts : list ty) (l : list val) : result (list val) :=
  match ts, l with
  | t :: ts', x :: l' => do y <- f t x; do ys <- zip_res f ts' l'; Ok (y :: ys)
  | _, _ => Ok []
  end.

Fixpoint structure (n : nat) (t : ty) (o : val) : result val :=
  match n with
  | O => OutOfFuel
  | S n' =>
      match t with
      | TAny => Ok o
      | TPrim p => e_coerce E p o
      | TEnum en => match find_member (e_enum E en) o with Some i => Ok (VEnum en i) | None => Err EValue end
      | TList t' => do l <- iter_val o; do r <- wrap_iter (map_res (structure n' t') l); Ok (VList r)
      | TTupleHom t' => do l <- iter_val o; do r <- wrap_iter (map_res (structure n' t') l); Ok (VTuple r)
      | TTuple ts =>
          do l <- iter_val o;
          do len <- len_val o;
          if negb (Nat.eqb len (length ts)) then Err (if c_dv cfg then EIterVal [(None, EValue)] else EValue)
          else do r <- wrap_iter (zip_res (structure n') ts l); Ok (VTuple r)
      | TSet t' => do l <- iter_val o; do r <- wrap_iter (map_res (structure n' t') l); Ok (VSet (canon_set r))
      | TFrozenSet t' => do l <- iter_val o; do r <- wrap_iter (map_res (structure n' t') l); Ok (VFrozenSet (canon_set r))
      | TDict kt vt =>
          match o with
          | VDict kvs =>
              do r <- wrap_iter (map_res (fun kv => do v <- structure n' vt (snd kv); do k <- structure n' kt (fst kv); Ok (VTuple [k; v])) kvs);
              Ok (VDict (fold_left (fun d p => match p with VTuple [k; v] => vdict_set d k v | _ => d end) r []))
          | _ => Err EAttr          (* obj.items() *)
          end
      | TOpt t' => match o with VNone => Ok VNone | _ => structure n' t' o end
      | TNewType _ t' => structure n' t' o
      | TAnnot t' => structure n' t' o
      | TClass c =>
          match e_class E c with
          | None => Err ENotFound
          | Some cd =>
              let hs := fun fname v => match assoc (cd_types cd) fname with Some ft => structure n' ft v | None => Ok v end in
              let r := if c_gen cfg then
                         if c_dv cfg then tpl_detailed val noK (topt c) nov hs (c_recheck cfg) (cd_fields cd) (obj_of_val o)
                         else tpl_fast val noK (topt c) nov hs (c_kw_last cfg) (cd_fields cd) (obj_of_val o)
                       else tpl_interp_dict val noK hs (cd_fields cd) (obj_of_val o) in
              do i <- r; Ok (VInst c i)
          end
      end
  end.

(* ---- unstructure ---- *)
Definition member_value (en i : N) : result val :=
  match nth_error (e_enum E en) (N.to_nat i) with Some v => Ok v | None => Err EAttr end.

Definition inst_fields (x : val) : option (list (N * val)) := match x with VInst _ fs => Some fs | _ => None end.

Fixpoint unstructure (n : nat) (t : ty) (x : val) : result val :=
  match n with
  | O => OutOfFuel
  | S n' =>
      let by_class :=
        (* runtime-class dispatch that knows the class hooks *)
        (fix rt (m : nat) (y : val) : result val :=
           match m with
           | O => OutOfFuel
           | S m' =>
               match y with
               | VInst c _ => unstructure n' (TClass c) y
               | VList l => do r <- map_res (rt m') l; Ok (VList r)
               | VTuple l => do r <- map_res (rt m') l; Ok (if c_gen cfg then VList r else VTuple r)
               | VSet l => do r <- map_res (rt m') l; Ok (VSet (canon_set r))
               | VFrozenSet l => do r <- map_res (rt m') l; Ok (VFrozenSet (canon_set r))
               | VDict kvs =>
                   do r <- map_res (fun kv => do k <- rt m' (fst kv); do v <- rt m' (snd kv); Ok (VTuple [k; v])) kvs;
                   Ok (VDict (fold_left (fun d p => match p with VTuple [k; v] => vdict_set d k v | _ => d end) r []))
               | VEnum en i => member_value en i
               | _ => Ok y
               end
           end) n' in
      if c_gen cfg then
        match t with
        | TAny => by_class x
        | TPrim _ => Ok x                                    (* identity, whatever x is *)
        | TEnum _ => match x with VEnum en i => member_value en i | _ => Err EAttr end
        | TList t' | TTupleHom t' => do l <- iter_val x; do r <- map_res (unstructure n' t') l; Ok (VList r)
        | TTuple ts =>
            match x with
            | VTuple l | VList l =>
                if Nat.ltb (length l) (length ts) then Err EOther        (* IndexError *)
                else do r <- zip_res (unstructure n') ts l; Ok (VTuple r)  (* extra elements are ignored *)
            | _ => Err EType
            end
        | TSet t' => do l <- iter_val x; do r <- map_res (unstructure n' t') l; Ok (VSet (canon_set r))
        | TFrozenSet t' => do l <- iter_val x; do r <- map_res (unstructure n' t') l; Ok (VFrozenSet (canon_set r))
        | TDict kt vt =>
            match x with
            | VDict kvs =>
                do r <- map_res (fun kv => do k <- unstructure n' kt (fst kv); do v <- unstructure n' vt (snd kv); Ok (VTuple [k; v])) kvs;
                Ok (VDict (fold_left (fun d p => match p with VTuple [k; v] => vdict_set d k v | _ => d end) r []))
            | _ => Err EAttr
            end
        | TOpt t' => match x with VNone => Ok VNone | _ => unstructure n' t' x end
        | TNewType _ t' => unstructure n' t' x
        | TAnnot t' => unstructure n' t' x
        | TClass c =>
            match e_class E c, inst_fields x with
            | Some cd, Some fs =>
                let hs := fun fname v => match assoc (cd_types cd) fname with Some ft => unstructure n' ft v | None => by_class v end in
                do d <- un_gen val val_eqb (topt c) nov hs (cd_fields cd) fs;
                Ok (VDict (map (fun kv => (skey (fst kv), snd kv)) d))
            | None, _ => Ok x
            | _, None => Err EAttr
            end
        end
      else
        (* BaseConverter: collections keep their class and go by the runtime class of their elements;
           classes go attribute by attribute, by declared type *)
        match t with
        | TClass c =>
            match e_class E c, inst_fields x with
            | Some cd, Some fs =>
                let hs := fun fname v => match assoc (cd_types cd) fname with Some ft => unstructure n' ft v | None => by_class v end in
                do d <- un_interp_dict val hs (cd_fields cd) fs;
                Ok (VDict (map (fun kv => (skey (fst kv), snd kv)) d))
            | None, _ => Ok x
            | _, None => Err EAttr
            end
        | TEnum _ => match x with VEnum en i => member_value en i | _ => Err EAttr end
        | TPrim _ => Ok x
        | TNewType _ _ | TAnnot _ => Ok x      (* no born-with hook: the fallback returns the value unchanged *)
        | TOpt _ | TAny => by_class x             (* is_union_type / Any: runtime class *)
        | _ => by_class x
        end
  end.

End Conv.

