(* LateBinding.v -- what a GENERATED unstructure hook computes when reference cycles are cut by late binding
   (gen/__init__.py make_dict_unstructure_fn_from_attrs: `except RecursionError: handler = ...`).

   A class hook is generated under a working set [ws] (the classes whose hooks are being generated further up the stack): an
   attribute whose declared class is in the working set is bound LATE (a call back into the converter when the hook runs), every
   other attribute is bound DIRECTLY to the hook generated, under the extended working set, for its declared class.  Which
   attributes end up late-bound depends on the entry point of the first use -- and the hooks generated on the way are cached.
   [by_decl] is what translator T1 reads off the source: does the late-bound call dispatch on the attribute's DECLARED class
   (`converter.unstructure(v, unstructure_as=t)`) or on the class of the value (`converter.unstructure(v)`)?

   Generation and application are fused: [hook_sem k ws c n v] is the hook generated for class c under working set ws (generation
   fuel k), applied to v (value fuel n).  Executable; no proofs. *)
From V.Model Require Import Base.

(* a value: None, or an instance of runtime class rc with attribute values (an instance of a subclass has its ancestors' attributes too) *)
Inductive lval := LNone | LInst (rc : N) (fs : list (N * lval)).
Inductive lout := ONone | ODict (kvs : list (N * lout)).

Fixpoint omap {A B} (f : A -> option B) (l : list A) : option (list B) :=
  match l with
  | [] => Some []
  | x :: r => match f x, omap f r with Some y, Some ys => Some (y :: ys) | _, _ => None end
  end.

Section LB.
Variable classes : N -> option (list (N * N)).   (* class -> its attributes: (name, declared class), inherited ones included *)
Variable by_decl : bool.

Definition rcls (v : lval) : N := match v with LInst rc _ => rc | LNone => 0%N end.

(* the documented encoding of v AS class c: c's attributes, each as its declared class (attributes only a subclass has are not emitted) *)
Fixpoint spec (n : nat) (c : N) (v : lval) : option lout :=
  match n with
  | O => None
  | S n' =>
      match v with
      | LNone => Some ONone
      | LInst _ fs =>
          match classes c with
          | None => None
          | Some flds =>
              match omap (fun nd : N * N => match assoc fs (fst nd) with
                                            | Some fv => match spec n' (snd nd) fv with Some o => Some (fst nd, o) | None => None end
                                            | None => None end) flds with
              | Some kvs => Some (ODict kvs)
              | None => None
              end
          end
      end
  end.

(* a late-bound attribute, when the hook runs *)
Definition late (n : nat) (d : N) (fv : lval) : option lout :=
  if by_decl then spec n d fv else match fv with LNone => Some ONone | _ => spec n (rcls fv) fv end.

Fixpoint hook_sem (k : nat) (ws : list N) (c : N) (n : nat) (v : lval) {struct k} : option lout :=
  match k, n with
  | S k', S n' =>
      match v with
      | LNone => Some ONone
      | LInst _ fs =>
          match classes c with
          | None => None
          | Some flds =>
              match omap (fun nd : N * N => match assoc fs (fst nd) with
                                            | Some fv =>
                                                match (if mem_N (snd nd) (c :: ws) then late n' (snd nd) fv
                                                       else hook_sem k' (c :: ws) (snd nd) n' fv) with
                                                | Some o => Some (fst nd, o) | None => None end
                                            | None => None end) flds with
              | Some kvs => Some (ODict kvs)
              | None => None
              end
          end
      end
  | _, _ => None
  end.
End LB.
