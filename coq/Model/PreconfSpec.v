(* PreconfSpec.v -- specification layer for the JSON preconfigured converter (C16): the wire image of an
   unstructured value (what json.loads(json.dumps(.)) makes of what the JSON converter hands to json.dumps) and
   the values the round trip loads(dumps(x, T), T) == x is stated for.  Definitions only; no proofs. *)
From V.Model Require Import Base Templates Conv ConvSpec Preconf.

Section JSpec.
Variable E : env.
Variable b85 : val -> option val.      (* base85 text of a bytes atom *)
Variable keystr : val -> option val.   (* the string json.dumps writes for a non-str key *)

(* dumps then the library's loads, on the plain Converter's unstructured form *)
Definition wire (u : val) : val := json_rt keystr (jsonify b85 u).
(* the same for a mapping key *)
Definition wire_key (k : val) : val := jkey keystr (jsonify b85 k).

(* None or an atom that is not bytes: what survives JSON unchanged *)
Definition jatomic (v : val) : bool :=
  match v with VNone => true | VAtom PBytes _ => false | VAtom _ _ => true | _ => false end.

(* mapping-key types of the JSON round trip: str, int, float (also behind NewType / Annotated).  bool keys are
   finding F19 ("true" / "false" do not come back through bool()), int-valued enums and non-str literals are written as
   their str() and cannot be found again, all outside the format's documented limits *)
Fixpoint jkey_ty (t : ty) : bool :=
  match t with
  | TPrim PStr | TPrim PInt | TPrim PFloat => true
  | TNewType _ t' | TAnnot t' => jkey_ty t'
  | _ => false
  end.

(* x is a value of t within JSON's limits: [rt_value] (ConvSpec.v) with
     - Any-typed and untyped positions and literals holding None or non-bytes atoms (bytes there are written as text
       and nothing says they were bytes),
     - enum members identified by non-bytes atomic values,
     - mapping keys of the types above. *)
Inductive jvalue : val -> ty -> Prop :=
| JAny v : jatomic v = true -> jvalue v TAny
| JPrim p e : jvalue (VAtom p e) (TPrim p)
| JEnum en i k e : k <> PBytes -> nth_error (e_enum E en) (N.to_nat i) = Some (VAtom k e) ->
                   find_member (e_enum E en) (VAtom k e) = Some i -> jvalue (VEnum en i) (TEnum en)
| JLit v vs : vmem v vs = true -> jatomic v = true -> jvalue v (TLit vs)
| JList l t : Forall (fun x => jvalue x t) l -> jvalue (VList l) (TList t)
| JTupleHom l t : Forall (fun x => jvalue x t) l -> jvalue (VTuple l) (TTupleHom t)
| JTuple l ts : Forall2 jvalue l ts -> jvalue (VTuple l) (TTuple ts)
| JSet l t : key_ty t = true -> Forall (fun x => jvalue x t) l -> set_like l -> jvalue (VSet l) (TSet t)
| JFrozenSet l t : key_ty t = true -> Forall (fun x => jvalue x t) l -> set_like l -> jvalue (VFrozenSet l) (TFrozenSet t)
| JDict kvs kt vt : jkey_ty kt = true -> Forall (fun kv => jvalue (fst kv) kt /\ jvalue (snd kv) vt) kvs -> dict_like kvs ->
                    jvalue (VDict kvs) (TDict kt vt)
| JOptNone t : jvalue VNone (TOpt t)
| JOptSome v t : jvalue v t -> jvalue v (TOpt t)
| JClass c cd i : e_class E c = Some cd -> map fst i = map f_name (cd_fields cd) ->
                  Forall (fun nv => jvalue (snd nv) (field_ty cd (fst nv))) i -> jvalue (VInst c i) (TClass c)
| JNewType n t v : jvalue v t -> jvalue v (TNewType n t)
| JAnnot t v : jvalue v t -> jvalue v (TAnnot t).
End JSpec.

(* the pyyaml converter: dumps followed by the library's loads, on the plain Converter's unstructured form *)
Definition ywire (u : val) : val := yaml_rt (yamlify u).
