(* ConvErr.v -- cattrs.transform_error (v.py) over the exception trees the detailed-validation hooks build
   (EClassVal / EIterVal of Base.v, built by Conv.structure), and the comparison of trees used by the ERR
   lane.  Executable; no proofs. *)
From V.Model Require Import Base.

(* one step of a path: `.name` for an attribute, `[index]` for a list index or a mapping key *)
Inductive step := SField (n : N) | SIdx (i : N).

Definition is_group (e : errkind) : bool := match e with EClassVal _ _ | EIterVal _ => true | _ => false end.

(* the paths transform_error reports, in its order: per group first the sub-exceptions that carry a
   note of the group's own kind (recursively when they are groups themselves), then the others, which
   are reported at the group's own path *)
Fixpoint paths (e : errkind) (p : list step) : list (list step) :=
  let noted := fun (mk : N -> step) =>
    (fix go (l : list (option N * errkind)) : list (list step) :=
       match l with
       | [] => []
       | (Some k, s) :: r =>
           (match s with
            | EClassVal _ _ | EIterVal _ => paths s (p ++ [mk k])
            | _ => [p ++ [mk k]]
            end) ++ go r
       | (None, _) :: r => go r
       end) in
  let plain := fun (l : list (option N * errkind)) => flat_map (fun ns => match fst ns with None => [p] | Some _ => [] end) l in
  match e with
  | EClassVal _ subs => noted SField subs ++ plain subs
  | EIterVal subs => noted SIdx subs ++ plain subs
  | _ => [p]
  end.

Definition step_eqb (a b : step) : bool :=
  match a, b with SField n, SField m | SIdx n, SIdx m => N.eqb n m | _, _ => false end.
Fixpoint path_eqb (a b : list step) : bool :=
  match a, b with [], [] => true | x :: a', y :: b' => step_eqb x y && path_eqb a' b' | _, _ => false end.
Fixpoint paths_eqb (a b : list (list step)) : bool :=
  match a, b with [], [] => true | x :: a', y :: b' => path_eqb x y && paths_eqb a' b' | _, _ => false end.

(* same shape: same kind of group at every level, same class ids, same notes in the same order; leaf
   exceptions are compared only as "a leaf" (their Python class is not part of the property), except the
   forbidden-extra-keys error, which must name the same class and the same set of keys *)
Fixpoint tree_same (a b : errkind) : bool :=
  let fix subs_same (x y : list (option N * errkind)) : bool :=
    match x, y with
    | [], [] => true
    | (n, s) :: x', (m, u) :: y' =>
        (match n, m with Some i, Some j => N.eqb i j | None, None => true | _, _ => false end) && tree_same s u && subs_same x' y'
    | _, _ => false
    end in
  match a, b with
  | EClassVal c x, EClassVal d y => N.eqb c d && subs_same x y
  | EIterVal x, EIterVal y => subs_same x y
  | EForbidden c x, EForbidden d y => N.eqb c d && forallb (fun k => mem_N k y) x && forallb (fun k => mem_N k x) y
  | EClassVal _ _, _ | EIterVal _, _ | _, EClassVal _ _ | _, EIterVal _ | EForbidden _ _, _ | _, EForbidden _ _ => false
  | _, _ => true
  end.
