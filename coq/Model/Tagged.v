(* Tagged.v -- strategies/_unions.py configure_tagged_union (C13), over abstract member
   hooks: the model says WHICH member hook is called WITH WHICH dict, and what the
   unstructure wrapper does to the member's dict.  Executable; no proofs. *)
From V.Model Require Import Base.

Section Tagged.
Variable V : Type.                         (* payload values; a tag is a value too *)
Variable veq : V -> V -> bool.             (* Python == / hash on tag values *)

Definition dict := list (N * V).

Record tcfg := {
  tg_members : list N;                     (* union.__args__, in order *)
  tg_tag : N -> V;                         (* tag_generator *)
  tg_name : N;                             (* tag_name (interned key) *)
  tg_default : option N;                   (* default member *)
  tg_forbid : bool                         (* converter.forbid_extra_keys at configuration time *)
}.

(* tag_to_hook: built by iterating the members; a later member with an equal tag overwrites *)
Fixpoint tag_lookup (c : tcfg) (ms : list N) (t : V) (acc : option N) : option N :=
  match ms with
  | [] => acc
  | m :: r => tag_lookup c r t (if veq (tg_tag c m) t then Some m else acc)
  end.

Definition member_of_tag (c : tcfg) (t : V) : option N := tag_lookup c (tg_members c) t None.

Definition dict_pop (d : dict) (k : N) : dict := remove_key d k.

(* which member structure hook is called with which dict *)
Definition structure_tagged (c : tcfg) (d : dict) : result (N * dict) :=
  match tg_default c with
  | None =>
      match assoc d (tg_name c) with
      | None => Err EKey                                   (* val[_tag_name] / val.pop(_tag_name) *)
      | Some t =>
          match member_of_tag c t with
          | None => Err EKey                               (* _tag_to_cl[...] *)
          | Some m => Ok (m, if tg_forbid c then dict_pop d (tg_name c) else d)
          end
      end
  | Some dm =>
      match assoc d (tg_name c) with
      | None => Ok (dm, d)
      | Some t =>
          let d' := if tg_forbid c then dict_pop d (tg_name c) else d in
          match member_of_tag c t with
          | None => Ok (dm, d')                            (* defaultdict: the default member's hook *)
          | Some m => Ok (m, d')
          end
      end
  end.

(* the unstructure wrapper: member hook by exact class, then res[tag_name] = tag *)
Definition unstructure_tagged (c : tcfg) (cls : N) (member_dict : dict) : result dict :=
  if mem_N cls (tg_members c) then Ok (dict_set member_dict (tg_name c) (tg_tag c cls))
  else Err EKey.                                           (* _exact_cl_unstruct_hooks[val.__class__] *)

End Tagged.
Arguments tg_members {V} t. Arguments tg_tag {V} t. Arguments tg_name {V} t. Arguments tg_default {V} t. Arguments tg_forbid {V} t.
