(* ConvEnc.v -- the documented encoding (docs/unstructuring.md, defaulthooks.md), as a relation between a type, a value of
   the type and its unstructured form.  Written from the documentation, not from the model of the hooks: no fuel, no hook
   tables, no templates -- one clause per sentence of the documentation:

     classes become dicts keyed by attribute name, in attribute order (tuples in attribute order under the tuple strategy);
     enums become their values; sequences (lists, homogeneous tuples) become lists; heterogeneous tuples stay tuples,
     element by element; sets stay sets and frozensets frozensets, of the encoded elements; mappings become dicts with
     encoded keys and values; Optional / NewType / Annotated are their underlying type; primitives, literals and
     (here: atomic) values at Any-typed positions are unchanged. *)
From V.Model Require Import Base Templates Conv ConvSpec.

Section Enc.
Variable E : env.
Variable tup : bool.       (* unstruct_strat = AS_TUPLE *)

Inductive encodes : ty -> val -> val -> Prop :=
| EnAny x : atomic x = true -> encodes TAny x x
| EnPrim p x : encodes (TPrim p) x x
| EnLit vs x : encodes (TLit vs) x x
| EnEnum en i w : nth_error (e_enum E en) (N.to_nat i) = Some w -> encodes (TEnum en) (VEnum en i) w
| EnList t l r : Forall2 (encodes t) l r -> encodes (TList t) (VList l) (VList r)
| EnTupleHom t l r : Forall2 (encodes t) l r -> encodes (TTupleHom t) (VTuple l) (VList r)
| EnTuple ts l r : length l = length ts -> Forall2 (fun tx u => encodes (fst tx) (snd tx) u) (combine ts l) r ->
                   encodes (TTuple ts) (VTuple l) (VTuple r)
| EnSet t l r s : Forall2 (encodes t) l r -> set_of_list [] r = Ok s -> encodes (TSet t) (VSet l) (VSet s)
| EnFrozenSet t l r s : Forall2 (encodes t) l r -> set_of_list [] r = Ok s -> encodes (TFrozenSet t) (VFrozenSet l) (VFrozenSet s)
| EnDict kt vt kvs ps d :
    Forall2 (fun kv p => encodes kt (fst kv) (fst p) /\ encodes vt (snd kv) (snd p)) kvs ps ->
    dict_of_pairs [] ps = Ok d -> encodes (TDict kt vt) (VDict kvs) (VDict d)
| EnOptNone t : encodes (TOpt t) VNone VNone
| EnOptSome t x u : x <> VNone -> encodes t x u -> encodes (TOpt t) x u
| EnNewType n t x u : encodes t x u -> encodes (TNewType n t) x u
| EnAnnot t x u : encodes t x u -> encodes (TAnnot t) x u
| EnClass c cd i ws :
    e_class E c = Some cd ->
    Forall2 (fun f w => exists v, assoc i (f_name f) = Some v /\ encodes (field_ty cd (f_name f)) v w) (cd_fields cd) ws ->
    encodes (TClass c) (VInst c i)
            (if tup then VTuple ws else VDict (combine (map (fun f => skey (f_name f)) (cd_fields cd)) ws)).

End Enc.
