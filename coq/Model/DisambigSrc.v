(* DisambigSrc.v -- the attributes of a union member as the SOURCE sees them, and how create_default_dis_func reads "required" off them.
   A default is a default VALUE or a default FACTORY (attrs stores both in `default`; a dataclass field keeps `default_factory` apart
   and leaves `default` MISSING).  [factory_is_default] is what translator T1 reads off the unique-key condition of
   disambiguators.py: does a default factory count as a default?  Executable; no proofs. *)
From V.Model Require Import Base Disambig.

Record sfield := {
  sf_name : N;
  sf_default_value : bool;     (* declared with a default value *)
  sf_default_factory : bool;   (* declared with a default factory, the default value left unset (dataclasses.field(default_factory=...)) *)
  sf_init : bool;
  sf_lit : option (list N)
}.
Record sclass := { sc_id : N; sc_fields : list sfield }.

(* what the disambiguator takes for "has no default" *)
Definition read_required (factory_is_default : bool) (f : sfield) : bool :=
  negb (sf_default_value f) && (negb factory_is_default || negb (sf_default_factory f)).

(* what a payload may leave out: the key of an attribute with a default of EITHER kind *)
Definition truly_required (f : sfield) : bool := negb (sf_default_value f) && negb (sf_default_factory f).

Definition read_field (factory_is_default : bool) (f : sfield) : dfield :=
  {| df_name := sf_name f; df_required := read_required factory_is_default f; df_init := sf_init f; df_lit := sf_lit f |}.
Definition read_class (factory_is_default : bool) (c : sclass) : dclass :=
  {| dc_id := sc_id c; dc_fields := map (read_field factory_is_default) (sc_fields c) |}.

(* a valid payload of an instance of c: every truly required __init__ attribute's key, nothing but c's attributes *)
Definition valid_payload (c : sclass) (keys : list N) : bool :=
  forallb (fun f => negb (truly_required f && sf_init f) || mem_N (sf_name f) keys) (sc_fields c)
  && forallb (fun k => mem_N k (map sf_name (sc_fields c))) keys.
