(* HookTable.v -- which born-with hook serves which type constructor of the nested universe: the lookup
   MultiStrategyDispatch performs (class registry first, then the predicate list newest-first) over the
   registration tables translator T1 reads off BaseConverter.__init__ / Converter.__init__, with the
   meaning of the _compat predicates on the model's type constructors.  Model/Conv.v implements, per
   constructor, the hook named by [expected_*]; Proofs/SrcObligationsHooks.v checks that the tables of the
   current source still select exactly those hooks.  Executable; no proofs. *)
From V.Model Require Import Base.

Inductive hpred :=
| PProtocol | PFinal | PTypeAlias | PLiteralEnums | PMapping | PSequence | PMutableSet | PFrozenSet | PEnumSub | PHas | PUnion | PAnies
| PAniesOpt | PGenericAttrs | PNewType | PLiteral | PDeque | PTuple | PNamedTuple | PSupportedUnion | POptional | PUnionRegistry
| PHasWithGeneric | PAnnotated | PHeteroTuple | PCounter | PDefaultDict | PTypedDict.

Inductive hhandler :=
(* structure *)
| HPassValue | HGenStructGeneric | HStructNewType | HTypeAliasStructFactory | HFinalStructFactory | HSimpleLiteral | HEnumLiteral
| HListFactory | HStructDeque | HStructSet | HStructFrozenSet | HStructTuple | HNamedTupleStructFactory | HStructDict | HAttrsUnion
| HStructOptional | HUnionRegistryGet | HStructAttrs | HStructCall
| HGenStructAttrsFromDict | HGenStructAnnotated | HGenStructMapping | HGenStructCounter | HDefaultDictFactory | HGenStructTypedDict | HGetStructNewType
(* unstructure *)
| HIdentity | HPathStr | HUnstructProtocol | HFinalUnstructFactory | HTypeAliasUnstructFactory | HUnstructure | HUnstructMapping | HUnstructSeq
| HUnstructEnum | HUnstructAttrs | HUnstructUnion
| HGenUnstructAttrsFromDict | HGenUnstructAnnotated | HGenUnstructHeteroTuple | HNamedTupleUnstructFactory | HGenUnstructIterable
| HGenUnstructMapping | HGenUnstructIterableSet | HGenUnstructIterableFrozenSet | HGenUnstructOptional | HGenUnstructTypedDict | HUnstructNewType.

Inductive hcls := CStr | CBytes | CInt | CFloat | CEnum | CPath.

(* the type constructors of Model/Conv.v *)
Inductive tkind := KAny | KStr | KBytes | KInt | KFloat | KBool | KEnum | KLit | KList | KTupleHom | KTuple | KSet | KFrozenSet | KDict
                 | KOpt | KClass | KNewType | KAnnot.

(* singledispatch: the class a leaf type resolves to in the registry (bool is a subclass of int) *)
Definition cls_of (k : tkind) : option hcls :=
  match k with KStr => Some CStr | KBytes => Some CBytes | KInt | KBool => Some CInt | KFloat => Some CFloat | KEnum => Some CEnum | _ => None end.

(* the meaning of the predicates on the model's type constructors (validated against the real predicate
   objects of a live converter by the HOOKS correspondence) *)
Definition accepts (p : hpred) (k : tkind) : bool :=
  match p, k with
  | PMapping, KDict => true
  | PSequence, (KList | KTupleHom) => true
  | PMutableSet, KSet => true
  | PFrozenSet, KFrozenSet => true
  | PEnumSub, KEnum => true
  | (PHas | PHasWithGeneric), KClass => true
  | (PUnion | POptional | PSupportedUnion), KOpt => true     (* is_supported_union: Optional[attrs class] *)
  | (PAnies | PAniesOpt), KAny => true
  | PNewType, KNewType => true
  | PLiteral, KLit => true
  | PTuple, (KTupleHom | KTuple) => true
  | PHeteroTuple, KTuple => true
  | PAnnotated, KAnnot => true
  | _, _ => false
  end.

Definition hcls_eqb (a b : hcls) : bool :=
  match a, b with CStr, CStr | CBytes, CBytes | CInt, CInt | CFloat, CFloat | CEnum, CEnum | CPath, CPath => true | _, _ => false end.

Fixpoint cls_lookup (tbl : list (hcls * hhandler)) (c : hcls) : option hhandler :=
  match tbl with [] => None | (c', h) :: r => match cls_lookup r c with Some h' => Some h' | None => if hcls_eqb c' c then Some h else None end end.

(* the predicate list is consulted newest-first: the LAST accepting entry in registration order wins *)
Fixpoint last_accepting (tbl : list (hpred * hhandler)) (k : tkind) : option hhandler :=
  match tbl with
  | [] => None
  | (p, h) :: r => match last_accepting r k with Some h' => Some h' | None => if accepts p k then Some h else None end
  end.

(* Converter.__init__ registers its factories after BaseConverter.__init__; entries marked [true] only under AS_DICT *)
Definition active (asdict : bool) (tbl : list (bool * hpred * hhandler)) : list (hpred * hhandler) :=
  flat_map (fun e => match e with (only_asdict, p, h) => if only_asdict && negb asdict then [] else [(p, h)] end) tbl.

Definition lookup (full asdict : bool) (cls_tbl : list (hcls * hhandler)) (base_tbl : list (hpred * hhandler))
                  (conv_tbl : list (bool * hpred * hhandler)) (k : tkind) : option hhandler :=
  match (match cls_of k with Some c => cls_lookup cls_tbl c | None => None end) with
  | Some h => Some h
  | None => last_accepting (base_tbl ++ (if full then active asdict conv_tbl else [])) k
  end.

(* what Model/Conv.v implements per constructor; None = the fallback (structure: StructureHandlerNotFoundError; unstructure: identity) *)
Definition expected_st (full asdict : bool) (k : tkind) : option hhandler :=
  match k with
  | KAny => Some HPassValue
  | KStr | KBytes | KInt | KFloat | KBool | KEnum => Some HStructCall
  | KLit => Some HSimpleLiteral
  | KList => Some HListFactory
  | KTupleHom | KTuple => Some HStructTuple
  | KSet => Some HStructSet
  | KFrozenSet => Some HStructFrozenSet
  | KDict => Some (if full then HGenStructMapping else HStructDict)
  | KOpt => Some HStructOptional
  | KClass => Some (if full && asdict then HGenStructAttrsFromDict else HStructAttrs)
  | KNewType => Some (if full then HGetStructNewType else HStructNewType)
  | KAnnot => if full then Some HGenStructAnnotated else None
  end.
Definition expected_un (full asdict : bool) (k : tkind) : option hhandler :=
  match k with
  | KAny => Some HUnstructure
  | KStr | KBytes => Some HIdentity
  | KInt | KFloat | KBool | KLit => None
  | KEnum => Some HUnstructEnum
  | KList | KTupleHom => Some (if full then HGenUnstructIterable else HUnstructSeq)
  | KTuple => if full then Some HGenUnstructHeteroTuple else None
  | KSet => Some (if full then HGenUnstructIterableSet else HUnstructSeq)
  | KFrozenSet => Some (if full then HGenUnstructIterableFrozenSet else HUnstructSeq)
  | KDict => Some (if full then HGenUnstructMapping else HUnstructMapping)
  | KOpt => Some (if full then HGenUnstructOptional else HUnstructUnion)
  | KClass => Some (if full && asdict then HGenUnstructAttrsFromDict else HUnstructAttrs)
  | KNewType => if full then Some HUnstructNewType else None
  | KAnnot => if full then Some HGenUnstructAnnotated else None
  end.

Definition all_kinds : list tkind :=
  [KAny; KStr; KBytes; KInt; KFloat; KBool; KEnum; KLit; KList; KTupleHom; KTuple; KSet; KFrozenSet; KDict; KOpt; KClass; KNewType; KAnnot].

Definition hh_eqb (a b : option hhandler) : bool :=
  match a, b with
  | None, None => true
  | Some x, Some y => (* decidable equality by tag *)
      match x, y with
      | HPassValue, HPassValue | HGenStructGeneric, HGenStructGeneric | HStructNewType, HStructNewType | HTypeAliasStructFactory, HTypeAliasStructFactory
      | HFinalStructFactory, HFinalStructFactory | HSimpleLiteral, HSimpleLiteral | HEnumLiteral, HEnumLiteral | HListFactory, HListFactory
      | HStructDeque, HStructDeque | HStructSet, HStructSet | HStructFrozenSet, HStructFrozenSet | HStructTuple, HStructTuple
      | HNamedTupleStructFactory, HNamedTupleStructFactory | HStructDict, HStructDict | HAttrsUnion, HAttrsUnion | HStructOptional, HStructOptional
      | HUnionRegistryGet, HUnionRegistryGet | HStructAttrs, HStructAttrs | HStructCall, HStructCall | HGenStructAttrsFromDict, HGenStructAttrsFromDict
      | HGenStructAnnotated, HGenStructAnnotated | HGenStructMapping, HGenStructMapping | HGenStructCounter, HGenStructCounter
      | HDefaultDictFactory, HDefaultDictFactory | HGenStructTypedDict, HGenStructTypedDict | HGetStructNewType, HGetStructNewType
      | HIdentity, HIdentity | HPathStr, HPathStr | HUnstructProtocol, HUnstructProtocol | HFinalUnstructFactory, HFinalUnstructFactory
      | HTypeAliasUnstructFactory, HTypeAliasUnstructFactory | HUnstructure, HUnstructure | HUnstructMapping, HUnstructMapping | HUnstructSeq, HUnstructSeq
      | HUnstructEnum, HUnstructEnum | HUnstructAttrs, HUnstructAttrs | HUnstructUnion, HUnstructUnion
      | HGenUnstructAttrsFromDict, HGenUnstructAttrsFromDict | HGenUnstructAnnotated, HGenUnstructAnnotated | HGenUnstructHeteroTuple, HGenUnstructHeteroTuple
      | HNamedTupleUnstructFactory, HNamedTupleUnstructFactory | HGenUnstructIterable, HGenUnstructIterable | HGenUnstructMapping, HGenUnstructMapping
      | HGenUnstructIterableSet, HGenUnstructIterableSet | HGenUnstructIterableFrozenSet, HGenUnstructIterableFrozenSet
      | HGenUnstructOptional, HGenUnstructOptional | HGenUnstructTypedDict, HGenUnstructTypedDict | HUnstructNewType, HUnstructNewType => true
      | _, _ => false
      end
  | _, _ => false
  end.

(* do the tables select, for every constructor and every (class, strategy), the hook Conv.v implements? *)
Definition tables_ok (st_cls : list (hcls * hhandler)) (st_base : list (hpred * hhandler)) (st_conv : list (bool * hpred * hhandler))
                     (un_cls : list (hcls * hhandler)) (un_base : list (hpred * hhandler)) (un_conv : list (bool * hpred * hhandler)) : bool :=
  forallb (fun k =>
    forallb (fun full => forallb (fun asdict =>
      hh_eqb (lookup full asdict st_cls st_base st_conv k) (expected_st full asdict k) &&
      hh_eqb (lookup full asdict un_cls un_base un_conv k) (expected_un full asdict k)) [true; false]) [true; false]) all_kinds.
