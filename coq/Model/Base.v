(* Base.v -- shared executable definitions.  NO proofs in Model/. *)
From Coq Require Export List NArith Bool Arith.
Export ListNotations.

(* Results of Python calls.  OutOfFuel is distinct from every Python error and
   is excluded by each theorem that mentions it. *)
Inductive errkind :=
| EKey | EType | EValue | EAttr | ENotFound | EForbidden (cl : N) (extra : list N)
| EClassVal (cl : N) (subs : list (option N * errkind))   (* ClassValidationError: (note: attribute name, sub-exception) *)
| EIterVal (subs : list (option N * errkind))            (* IterableValidationError: (note: index / key id, sub-exception) *)
| ERecursion | ESyntax | EOther.

Inductive result (A : Type) :=
| Ok (a : A) | Err (e : errkind) | OutOfFuel.
Arguments Ok {A} a. Arguments Err {A} e. Arguments OutOfFuel {A}.

Definition is_ok {A} (r : result A) : bool :=
  match r with Ok _ => true | _ => false end.

Definition bind {A B} (r : result A) (f : A -> result B) : result B :=
  match r with Ok a => f a | Err e => Err e | OutOfFuel => OutOfFuel end.

Notation "'do' x <- r ; k" := (bind r (fun x => k))
  (at level 200, x name, r at level 100, k at level 200).

(* association lists keyed by N, newest binding first *)
Fixpoint assoc {B} (l : list (N * B)) (k : N) : option B :=
  match l with
  | [] => None
  | (k', v) :: r => if N.eqb k' k then Some v else assoc r k
  end.

Definition mem_N (k : N) (l : list N) : bool := existsb (N.eqb k) l.

Fixpoint remove_key {B} (l : list (N * B)) (k : N) : list (N * B) :=
  match l with
  | [] => []
  | (k', v) :: r => if N.eqb k' k then remove_key r k else (k', v) :: remove_key r k
  end.

(* Python dict assignment d[k] = v: overwrite in place keeping first position,
   else append at the end (insertion order). *)
Fixpoint dict_set {B} (l : list (N * B)) (k : N) (v : B) : list (N * B) :=
  match l with
  | [] => [(k, v)]
  | (k', v') :: r => if N.eqb k' k then (k', v) :: r else (k', v') :: dict_set r k v
  end.

Definition keys {B} (l : list (N * B)) : list N := map fst l.

Fixpoint first_some {A B} (f : A -> option B) (l : list A) : option B :=
  match l with
  | [] => None
  | a :: r => match f a with Some b => Some b | None => first_some f r end
  end.
