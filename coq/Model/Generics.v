(* Generics.v -- how cattrs resolves the annotations of a parametrised generic class (C17):
   gen/_generics.py generate_mapping (TypeVar NAME -> argument) and _generics.py deep_copy_with
   (rewrite by NAME), against substitution by TypeVar IDENTITY (the monomorphised copy).
   Executable; no proofs. *)
From V.Model Require Import Base.

Inductive gty :=
| GVar (id name : N)                 (* a TypeVar object; two distinct TypeVars may share a __name__ *)
| GCls (name : N)                    (* a class / NewType / anything with a __name__ that is not generic *)
| GOpaque (k : N)                    (* a non-generic type expression without __name__ (None, Literal[..], ...) *)
| GApp (ctor : N) (args : list gty)  (* a subscripted generic: list[..], dict[..], Optional[..], G[..] *)
| GAnnot (t : gty) (meta : N).       (* Annotated[t, meta] *)

Definition name_of (t : gty) : option N :=
  match t with GVar _ n => Some n | GCls n => Some n | _ => None end.

Definition is_generic (t : gty) : bool :=
  match t with GApp _ _ | GAnnot _ _ => true | _ => false end.

(* deep_copy_with(t, mapping): only the ARGUMENTS of t are looked at *)
Fixpoint deep_copy_with (mapping : list (N * gty)) (t : gty) : gty :=
  let sub_arg := fun a =>
    match name_of a with
    | Some n => match assoc mapping n with
                | Some r => r
                | None => a                      (* has a __name__ that is not in the mapping; not generic *)
                end
    | None => if is_generic a then deep_copy_with mapping a else a
    end in
  match t with
  | GApp c args => GApp c (map sub_arg args)
  | GAnnot t' m => GAnnot (sub_arg t') m          (* only the first parameter of Annotated is mapped *)
  | _ => t
  end.

(* what the generators do with an attribute's annotation t *)
Definition resolve_field (mapping : list (N * gty)) (t : gty) : gty :=
  match t with
  | GVar _ n => match assoc mapping n with Some r => r | None => t end
  | GApp _ (_ :: _) => deep_copy_with mapping t  (* is_generic(t) and not is_bare(t) and not is_annotated(t) *)
  | _ => t
  end.

(* generate_mapping for G[args]: parameter NAME -> argument, TypeVar arguments skipped *)
Fixpoint zip_mapping (params : list (N * N)) (args : list gty) (old : list (N * gty)) : list (N * gty) :=
  match params, args with
  | (_, pn) :: ps, a :: rest =>
      let old' := match a with GVar _ _ => old | _ => dict_set old pn a end in
      zip_mapping ps rest old'
  | _, _ => old
  end.

(* a class: its own parameters, and optionally the parametrised generic base it derives from
   (first entry of __orig_bases__ that is not Generic[...]) *)
Record gclass := {
  g_params : list (N * N);                          (* (TypeVar id, name) *)
  g_base : option (list (N * N) * list gty)         (* base's parameters and the arguments given to it *)
}.

(* make_dict_(un)structure_fn: mapping from the subscript, then the base's mapping on top *)
Definition class_mapping (g : gclass) (args : list gty) : list (N * gty) :=
  let m := zip_mapping (g_params g) args [] in
  match g_base g with
  | Some (bparams, bargs) => zip_mapping bparams bargs m
  | None => m
  end.

(* ---- the specification: substitution by TypeVar identity ---- *)
Fixpoint subst_id (env : list (N * gty)) (t : gty) : gty :=
  match t with
  | GVar id _ => match assoc env id with Some r => r | None => t end
  | GApp c args => GApp c (map (subst_id env) args)
  | GAnnot t' m => GAnnot (subst_id env t') m
  | _ => t
  end.

Fixpoint zip_env (params : list (N * N)) (args : list gty) : list (N * gty) :=
  match params, args with
  | (pid, _) :: ps, a :: rest => match a with GVar _ _ => zip_env ps rest | _ => (pid, a) :: zip_env ps rest end
  | _, _ => []
  end.

(* the environment of the monomorphised copy: own parameters by the subscript; a base's parameters by
   the base's arguments, themselves instantiated by the subscript *)
Definition class_env (g : gclass) (args : list gty) : list (N * gty) :=
  let own := zip_env (g_params g) args in
  match g_base g with
  | Some (bparams, bargs) => own ++ zip_env bparams (map (subst_id own) bargs)
  | None => own
  end.

Fixpoint gty_eqb (a b : gty) : bool :=
  match a, b with
  | GVar i n, GVar j m => N.eqb i j && N.eqb n m
  | GCls n, GCls m => N.eqb n m
  | GOpaque k, GOpaque l => N.eqb k l
  | GApp c xs, GApp d ys =>
      N.eqb c d && (fix eqs (xs ys : list gty) := match xs, ys with
                      | [], [] => true
                      | x :: xs', y :: ys' => gty_eqb x y && eqs xs' ys'
                      | _, _ => false end) xs ys
  | GAnnot t m, GAnnot u k => gty_eqb t u && N.eqb m k
  | _, _ => false
  end.
