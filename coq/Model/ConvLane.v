(* ConvLane.v -- executable glue for the CONV correspondence lane: environments built from the tables
   the harness computes by calling the real constructors / operators, exact comparison of values,
   and the case runner.  No proofs. *)
From V.Model Require Import Base Templates Conv ConvErr.

(* exact identity of values as the harness encodes them: same class AND same equality id for atoms;
   sets and dicts compared as collections (Python == on them ignores order) *)
Fixpoint val_same (a b : val) : bool :=
  let fix list_same (x y : list val) : bool :=
    match x, y with [] , [] => true | u :: x', w :: y' => val_same u w && list_same x' y' | _, _ => false end in
  let fix sub (x y : list val) : bool :=
    match x with
    | [] => true
    | u :: x' => (fix mem (y' : list val) : bool := match y' with [] => false | w :: r => val_same u w || mem r end) y && sub x' y
    end in
  let fix kv_sub (x y : list (val * val)) : bool :=
    match x with
    | [] => true
    | (k, v) :: x' =>
        (fix look (y' : list (val * val)) : bool :=
           match y' with [] => false | (k2, v2) :: r => (val_same k k2 && val_same v v2) || look r end) y && kv_sub x' y
    end in
  let fix fs_same (x y : list (N * val)) : bool :=
    match x, y with [], [] => true | (n, u) :: x', (m, w) :: y' => N.eqb n m && val_same u w && fs_same x' y' | _, _ => false end in
  match a, b with
  | VNone, VNone => true
  | VAtom k e, VAtom k' f => prim_eqb k k' && N.eqb e f
  | VEnum en i, VEnum em j => N.eqb en em && N.eqb i j
  | VList x, VList y | VTuple x, VTuple y => list_same x y
  | VSet x, VSet y | VFrozenSet x, VFrozenSet y => Nat.eqb (length x) (length y) && sub x y
  | VDict x, VDict y => Nat.eqb (length x) (length y) && kv_sub x y
  | VInst c x, VInst d y => N.eqb c d && fs_same x y
  | _, _ => false
  end.

Fixpoint lookup3 {A} (l : list (prim * val * A)) (p : prim) (v : val) : option A :=
  match l with
  | [] => None
  | (p', v', a) :: r => if prim_eqb p p' && val_same v v' then Some a else lookup3 r p v
  end.
Fixpoint lookup_in (l : list (val * N * result bool)) (v : val) (k : N) : option (result bool) :=
  match l with
  | [] => None
  | (v', k', a) :: r => if val_same v v' && N.eqb k k' then Some a else lookup_in r v k
  end.
Fixpoint lookup1 {A} (l : list (val * A)) (v : val) : option A :=
  match l with
  | [] => None
  | (v', a) :: r => if val_same v v' then Some a else lookup1 r v
  end.

Definition mk_env (classes : list (N * cdef)) (enums : list (N * list val))
                  (coerce : list (prim * val * result val))
                  (ins : list (val * N * result bool))
                  (iters : list (val * result (list val)))
                  (lens : list (val * result nat)) : env :=
  {| e_class := assoc classes;
     e_enum := fun en => match assoc enums en with Some l => l | None => [] end;
     (* an entry the harness did not compute shows up as a disagreement, never as agreement *)
     e_coerce := fun p v => match lookup3 coerce p v with Some r => r | None => OutOfFuel end;
     e_in := fun v k => match lookup_in ins v k with Some r => r | None => Err EType end;
     e_iter := fun v => match lookup1 iters v with Some r => r | None => Err EType end;
     e_len := fun v => match lookup1 lens v with Some r => r | None => Err EType end |}.

(* what the lane compares: the value when accepted; for rejections only the coarse class of the
   exception (the nested error trees are the ERR lane's business) *)
Inductive xclass := KForbidden | KClassVal | KIterVal | KNotFound | KOther.
Definition xclass_of (e : errkind) : xclass :=
  match e with
  | EForbidden _ _ => KForbidden | EClassVal _ _ => KClassVal | EIterVal _ => KIterVal | ENotFound => KNotFound | _ => KOther
  end.
Inductive cout := COk (v : val) | CErr (k : xclass) | CFuel.

Definition cout_of (r : result val) : cout :=
  match r with Ok v => COk v | Err e => CErr (xclass_of e) | OutOfFuel => CFuel end.

Definition xclass_eqb (a b : xclass) : bool :=
  match a, b with
  | KForbidden, KForbidden | KClassVal, KClassVal | KIterVal, KIterVal | KNotFound, KNotFound | KOther, KOther => true
  | _, _ => false
  end.

(* [strict]: compare the class of the exception too *)
Definition cout_eqb (strict : bool) (a b : cout) : bool :=
  match a, b with
  | COk x, COk y => val_same x y
  | CErr j, CErr k => negb strict || xclass_eqb j k
  | CFuel, CErr _ => true      (* unbounded recursion: CPython's RecursionError is an Exception, possibly caught on the way up *)
  | _, _ => false
  end.

Definition FUEL : nat := 150.

Inductive ccase :=
| CS (cfg : ccfg) (t : ty) (o : val) (expect : cout)
| CU (cfg : ccfg) (t : ty) (x : val) (expect : cout)
(* ERR lane: the exception tree raised by a detailed-validation structure call, and the paths transform_error reports *)
| CE (cfg : ccfg) (t : ty) (o : val) (tree : errkind) (ps : list (list step)).

Definition ccase_model (E : env) (c : ccase) : cout :=
  match c with
  | CS cfg t o _ => cout_of (structure E cfg FUEL t o)
  | CU cfg t x _ => cout_of (unstructure E cfg FUEL t x)
  | CE cfg t o _ _ => cout_of (structure E cfg FUEL t o)
  end.

Definition ccase_ok (strict : bool) (E : env) (c : ccase) : bool :=
  match c with
  | CS _ _ _ x | CU _ _ _ x => cout_eqb strict (ccase_model E c) x
  | CE cfg t o tree ps =>
      match structure E cfg FUEL t o with
      | Err e => tree_same e tree && paths_eqb (paths e []) ps
      | _ => false
      end
  end.

(* what the model computes for an ERR case, for replay files *)
Definition cerr_model (E : env) (c : ccase) : option (errkind * list (list step)) :=
  match c with
  | CE cfg t o _ _ => match structure E cfg FUEL t o with Err e => Some (e, paths e []) | _ => None end
  | _ => None
  end.

Fixpoint bad_from (k : nat) (l : list bool) : list nat :=
  match l with [] => [] | b :: r => if b then bad_from (S k) r else k :: bad_from (S k) r end.
